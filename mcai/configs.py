"""Configurations analysed and how their fact/MIR files are produced.

Every call re-hashes /repo's working tree; an edited tree is always
re-analysed (cache key = sha256 of sources + driver + flags)."""
import hashlib, json, os, shutil, subprocess, sys, tempfile, time
from concurrent.futures import ThreadPoolExecutor

VERIF = os.path.dirname(os.path.dirname(os.path.abspath(__file__)))
REPO = os.environ.get('MCSA_REPO', '/repo')
BUILD = os.path.join(VERIF, 'build')
DRIVER = os.path.join(BUILD, 'mcsa-target', 'debug', 'mcsa')
SYSROOT = os.path.join(BUILD, 'sysroot')

BASE_FLAGS = "-Zmir-opt-level=0 -Awarnings -Zub-checks=no"

# id -> (target or None for host, cargo feature args, extra rustflags, why)
CONFIGS = {
    'x64-std':    (None, [], "", "default build: runtime AVX2 detection"),
    'x64-alloc':  (None, ['--no-default-features', '--features', 'alloc'], "", "feature diff"),
    'x64-core':   (None, ['--no-default-features'], "", "feature diff; no alloc at all"),
    'x64-avx2':   (None, [], "-C target-feature=+avx2", "is_available() constant"),
    'x64-nosse2': ('x86_64-unknown-none', ['--no-default-features'], "", "cfg(not(sse2)) arms"),
    'a64':        ('aarch64-unknown-linux-gnu', ['--no-default-features', '--features', 'alloc'], "", "NEON"),
    'a64be':      ('aarch64_be-unknown-linux-gnu', ['--no-default-features'], "", "big-endian NEON"),
    'wasm':       ('wasm32-unknown-unknown', ['--no-default-features'], "-C target-feature=+simd128", "simd128"),
    'i686':       ('i686-unknown-linux-gnu', ['--no-default-features', '--features', 'alloc'], "", "32-bit SWAR"),
    's390x':      ('s390x-unknown-linux-gnu', ['--no-default-features', '--features', 'alloc'], "", "big-endian fallback"),
}
QUICK = ['x64-std', 'a64', 'x64-core']
ALL = list(CONFIGS)


def nightly_sysroot():
    return subprocess.check_output(['rustc', '+nightly', '--print', 'sysroot'], text=True).strip()


_tree_hash = None


def tree_hash():
    """sha256 over every file that can influence the analysis."""
    global _tree_hash
    if _tree_hash is not None:
        return _tree_hash
    h = hashlib.sha256()
    files = []
    for root, dirs, fs in os.walk(os.path.join(REPO, 'src')):
        dirs.sort()
        for f in sorted(fs):
            files.append(os.path.join(root, f))
    for f in ('Cargo.toml', 'Cargo.lock', 'build.rs'):
        p = os.path.join(REPO, f)
        if os.path.exists(p):
            files.append(p)
    files.append(DRIVER)
    files.append(os.path.join(VERIF, 'setup.sh'))   # sysroot recipe
    for p in files:
        h.update(p.encode())
        with open(p, 'rb') as fh:
            h.update(fh.read())
    h.update(BASE_FLAGS.encode())
    h.update(json.dumps(CONFIGS, sort_keys=True).encode())
    h.update(REL_FLAGS.encode())
    _tree_hash = h.hexdigest()[:24]
    return _tree_hash


def cache_dir():
    d = os.path.join(BUILD, 'cache', tree_hash())
    os.makedirs(d, exist_ok=True)
    return d


REL_FLAGS = "-C debug-assertions=off -C overflow-checks=off"


def split_cfg(cfg):
    """'x64-std@rel' -> ('x64-std', True): the same configuration compiled with release semantics
    (no debug assertions, wrapping arithmetic) -- what users run; the plain name is the debug build"""
    if cfg.endswith('@rel'):
        return cfg[:-4], True
    return cfg, False


def run_driver(cfg, out_path, crate_manifest=None, crate_name='memchr'):
    base, rel = split_cfg(cfg)
    target, feats, extra, _ = CONFIGS[base]
    if rel:
        extra = (extra + ' ' + REL_FLAGS).strip()
    if not os.path.exists(DRIVER):
        raise RuntimeError("driver not built: run ./setup.sh")
    tmp = tempfile.mkdtemp(prefix='mcsa-', dir=os.environ.get('TMPDIR', '/var/tmp'))
    try:
        env = dict(os.environ)
        env['LD_LIBRARY_PATH'] = nightly_sysroot() + '/lib'
        flags = BASE_FLAGS + (' ' + extra if extra else '')
        if target:
            flags += ' --sysroot ' + SYSROOT
        env['RUSTFLAGS'] = flags
        env.pop('CARGO_ENCODED_RUSTFLAGS', None)
        env['RUSTC_WORKSPACE_WRAPPER'] = DRIVER
        env['MCSA_OUT'] = out_path + '.tmp'
        env['MCSA_CRATE'] = crate_name
        env['CARGO_TARGET_DIR'] = os.path.join(tmp, 'target')
        env['CARGO_NET_OFFLINE'] = 'true'
        manifest = crate_manifest or os.path.join(REPO, 'Cargo.toml')
        cmd = ['cargo', '+nightly', 'check', '--offline', '--lib', '--manifest-path', manifest] + feats
        if target:
            cmd += ['--target', target]
        p = subprocess.run(cmd, env=env, stdout=subprocess.PIPE, stderr=subprocess.STDOUT, text=True)
        if p.returncode != 0 or not os.path.exists(out_path + '.tmp'):
            raise RuntimeError(f"driver failed for config {cfg}:\n{p.stdout[-4000:]}")
        os.replace(out_path + '.tmp', out_path)
    finally:
        shutil.rmtree(tmp, ignore_errors=True)


def program_path(cfg, fresh=False):
    p = os.path.join(cache_dir(), cfg + '.json')
    if fresh or not os.path.exists(p):
        run_driver(cfg, p)
    return p


def ensure(cfgs, fresh=False):
    """Produce the program files of several configurations in parallel."""
    t0 = time.time()
    with ThreadPoolExecutor(max_workers=min(len(cfgs), 8)) as ex:
        paths = list(ex.map(lambda c: program_path(c, fresh), cfgs))
    return dict(zip(cfgs, paths)), time.time() - t0


def prune_cache(keep=3):
    """Keep only the most recent `keep` tree hashes (disk hygiene)."""
    base = os.path.join(BUILD, 'cache')
    if not os.path.isdir(base):
        return
    ds = sorted((os.path.getmtime(os.path.join(base, d)), d) for d in os.listdir(base))
    for _, d in ds[:-keep]:
        shutil.rmtree(os.path.join(base, d), ignore_errors=True)


if __name__ == '__main__':
    cfgs = sys.argv[1:] or ALL
    paths, dt = ensure(cfgs)
    for c, p in paths.items():
        d = json.load(open(p))
        print(c, d['target'], 'bodies', d['facts']['n_body_owners'], 'instances', len(d['instances']), os.path.getsize(p) >> 10, 'KiB')
    print('wall %.1fs' % dt)
