"""E3 -- ghost scan-coverage on top of the E2 interpreter.

For a byte search over [start, end) of a region and a needle n the state carries
two ghost pointers (heap pseudo-objects, so that the loop machinery generalises
them like any other pointer):
    hi[n]  : every byte in [start, hi[n]) differs from n   (contiguous rejected prefix)
    lo[n]  : every byte in [lo[n], end)  differs from n   (contiguous rejected suffix)
They advance only through *rejection events*:
  * the false edge of has_non_zero / movemask_will_have_non_zero on an or-tree whose
    leaves are cmpeq(splat(n), load(region, off, size))   -> [off, off+size) rejected for n
  * the false edge of has_zero_byte(splat_usize(n) ^ load(region, off, W))      -> same
  * a disequality  byte(region, off) != n  assumed on a branch                   -> [off, off+1)
A rejected interval [a, b) extends hi[n] only if a <= hi[n] is entailed (no gap).

Post-conditions of a search root (obligations):
  POST-NONE   None      => hi[n] >= end for every needle n (resp. lo[n] <= start)
  POST-RANGE  Some(p)   => start <= p < end
  POST-MATCH  Some(p)   => the byte at p equals a needle (lane of a non-zero mask all of whose
                           leaves load the same chunk, or an assumed byte equality)
  POST-FIRST  Some(p)   => hi[n] >= chunk base for every needle, and the mask covers every needle
  (POST-LAST mirrored)."""
from .lin import LinExpr, fresh, ZERO
from .absval import *

V = LinExpr.var
C = LinExpr.const


# ----------------------------------------------------------------------------- ghost objects
def _key(kind, region, n):
    return (kind, region, n)


def init_search(I, st, region, start, end, needles):
    """install the ghost state of one search over [start, end) of `region`"""
    st.ghost['search'] = {'region': region, 'start': start, 'end': end, 'needles': [st.store.nf(n) for n in needles]}
    for n in needles:
        st.heap[_key('hi', region, n)] = PtrV(region, start)
        st.heap[_key('lo', region, n)] = PtrV(region, end)


def _find(st, kind, region, n):
    nn = st.store.nf(n)
    for k, v in st.heap.items():
        if isinstance(k, tuple) and len(k) == 3 and k[0] == kind and k[1] == region and st.store.nf(k[2]) == nn:
            return k, v
    return None, None


def reject_batch(I, st, items):
    """items: list of (needle expr, region, a, b): bytes [a, b) of region differ from needle"""
    s = st.store
    progress = True
    ps = st.ghost.get('pairspec')
    sr = st.ghost.get('search')
    if ps and sr:
        # a stretch of bytes free of pair byte k rejects the candidate positions k's offset earlier
        extra = []
        for (n, r, a, b) in items:
            if r == sr['region']:
                if s.entails_eq(n - ps['b1']):
                    extra.append((ps['sym'], r, a - ps['i1'], b - ps['i1']))
                if s.entails_eq(n - ps['b2']):
                    extra.append((ps['sym'], r, a - ps['i2'], b - ps['i2']))
        items = list(items) + extra
    # intervals that could not be placed yet (they arrived before the piece that connects them)
    pending = list(items) + list(st.ghost.get('pend', ()))
    while progress and pending:
        progress = False
        rest = []
        for (n, r, a, b) in pending:
            used = False
            k, v = _find(st, 'hi', r, n)
            if k is not None and ps and sr and s.nf(n) == s.nf(ps['sym']) and not s.entails_le(a - v.off) \
                    and s.entails_le(a - sr['start']) and s.entails_le(v.off - sr['start']):
                # candidate positions before the start of the haystack cannot hold the needle: hi is at least start
                v = PtrV(r, sr['start'])
            if k is not None and s.entails_le(a - v.off):            # a <= hi : no gap
                if s.entails_le(v.off - b):                           # b >= hi : advance
                    if s.nf(v.off) != s.nf(b):
                        st.heap[k] = PtrV(r, b)
                        progress = True
                    used = True
                elif s.entails_le(b - v.off):
                    used = True                                       # already covered
                else:
                    h = fresh('hi')
                    s.add_le(v.off - V(h))
                    s.add_le(b - V(h))
                    st.heap[k] = PtrV(r, V(h))
                    progress = True
                    used = True
            k2, v2 = _find(st, 'lo', r, n)
            if k2 is not None and s.entails_le(v2.off - b):           # b >= lo : no gap
                if s.entails_le(a - v2.off):                          # a <= lo : advance downwards
                    if s.nf(v2.off) != s.nf(a):
                        st.heap[k2] = PtrV(r, a)
                        progress = True
                    used = True
                elif s.entails_le(v2.off - a):
                    used = True
                else:
                    h = fresh('lo')
                    s.add_le(V(h) - v2.off)
                    s.add_le(V(h) - a)
                    st.heap[k2] = PtrV(r, V(h))
                    progress = True
                    used = True
            if not used:
                rest.append((n, r, a, b))
        pending = rest
    st.ghost['pend'] = tuple(pending[-8:])
    normalise(I, st)


BIG = 1 << 63          # larger than any slice length (isize::MAX)


def normalise(I, st):
    """pair prefilters: candidate positions before the haystack start or after the last position at which
    the needle still fits cannot hold the needle, so the rejected prefix may be extended over them:
    hi <= start  =>  hi := start;   hi >= end  =>  hi := "infinity" """
    ps, sr = st.ghost.get('pairspec'), st.ghost.get('search')
    if not ps or not sr:
        return
    s = st.store
    k, v = _find(st, 'hi', sr['region'], ps['sym'])
    if k is None or not isinstance(v, PtrV):
        return
    if s.entails_le(sr['end'] - v.off):
        if s.nf(v.off) != C(BIG):
            st.heap[k] = PtrV(v.r, C(BIG))
    elif s.entails_le(v.off - sr['start']) and not s.entails_eq(v.off - sr['start']):
        st.heap[k] = PtrV(v.r, sr['start'])


# ----------------------------------------------------------------------------- counting measure
def Fsym(I, st, r, n, off):
    """F(off) = number of bytes equal to needle n in [region start, off): an uninterpreted,
    monotone measure.  CountOf([a,b)) = F(b) - F(a), so adjacent pieces telescope in the
    linear store.  Symbols are memoised per (region, needle, offset) up to entailed equality."""
    s = st.store
    memo = st.ghost.get('F', {})
    nn, oo = s.nf(n), s.nf(off)
    key = (r, nn, oo)
    if key in memo:
        return V(memo[key])
    for (r2, n2, o2), sym in memo.items():
        if r2 == r and s.nf(n2) == nn and s.entails_eq(o2 - oo):
            return V(sym)
    f = fresh('F')
    s.add_le(-V(f))
    memo = dict(memo)
    memo[key] = f
    st.ghost['F'] = memo
    return V(f)


def count_of(I, st, r, n, a, b):
    """CountOf([a, b)) for a <= b, with the measure axiom 0 <= CountOf([a,b)) <= b - a"""
    fb, fa = Fsym(I, st, r, n, b), Fsym(I, st, r, n, a)
    d = fb - fa
    if st.store.entails_le(a - b):
        st.store.add_le(-d)
        st.store.add_le(d - (b - a))
    return d


def byte_atom_needle(st, e):
    """if e = +-(byte(r,off) - n): (r, off, n) else None"""
    bytes_ = st.ghost.get('bytes')
    if not bytes_:
        return None
    e = st.store.nf(e)
    rev = {v: k for k, v in bytes_.items()}
    for s_, c in e.t:
        if c in (1, -1) and s_ in rev:
            _, r, off = rev[s_]
            rest = e - LinExpr.var(s_, c)
            n = -rest if c == 1 else rest
            return r, off, n
    return None


def on_eq(I, st, e):
    """byte(r, off) == n assumed: exactly one match in [off, off+1)"""
    x = byte_atom_needle(st, e)
    if x:
        r, off, n = x
        st.store.add_eq(count_of(I, st, r, n, off, off + 1) - 1)


def bool_as_count(I, st, atom):
    """`(byte == n) as usize`  ==  CountOf([off, off+1), n)"""
    if atom[0] == 'eq':
        x = byte_atom_needle(st, atom[1])
        if x:
            r, off, n = x
            return count_of(I, st, r, n, off, off + 1)
    return None


# ----------------------------------------------------------------------------- term shapes
def cmpeq_leaf(t):
    """('cmpeq', splat(n), load(r, off, size)) in either order -> (n, r, off, size) or None"""
    if isinstance(t, tuple) and len(t) == 3 and t[0] == 'cmpeq':
        a, b = t[1], t[2]
        for x, y in ((a, b), (b, a)):
            if isinstance(x, tuple) and x and x[0] == 'splat' and isinstance(y, tuple) and y and y[0] == 'load':
                return (x[1], y[1], y[2], y[3])
    return None


def pair_leaf(st, t):
    """('and', cmpeq(splat b1, load(r, o1, sz)), cmpeq(splat b2, load(r, o2, sz))) for the pair of the
    installed pair specification, both loads relative to the same candidate position:
    -> (pair pseudo-needle, r, position = o1 - index1, sz) or None"""
    ps = st.ghost.get('pairspec')
    if not ps or not (isinstance(t, tuple) and len(t) == 3 and t[0] in ('and', 'mand')):
        return None
    l1, l2 = cmpeq_leaf(t[1]), cmpeq_leaf(t[2])
    if l1 is None or l2 is None or l1[1] != l2[1] or l1[3] != l2[3]:
        return None
    s = st.store
    for x, y in ((l1, l2), (l2, l1)):
        if s.entails_eq(x[0] - ps['b1']) and s.entails_eq(y[0] - ps['b2']) and s.entails_eq((x[2] - ps['i1']) - (y[2] - ps['i2'])):
            return (ps['sym'], x[1], x[2] - ps['i1'], x[3])
    return None


def leaf_info(st, t):
    return cmpeq_leaf(t) or pair_leaf(st, t)


def swar_leaf(t, K):
    """('xor', ('lin', K*n), ('load', r, off, W)) -> (n, r, off, W) or None"""
    if isinstance(t, tuple) and len(t) == 3 and t[0] == 'xor':
        a, b = t[1], t[2]
        for x, y in ((a, b), (b, a)):
            if isinstance(x, tuple) and x and x[0] == 'lin' and isinstance(y, tuple) and y and y[0] == 'load':
                e = x[1]
                if isinstance(e, LinExpr) and e.t and all(c % K == 0 for _, c in e.t) and e.k % K == 0:
                    n = LinExpr(tuple((s_, c // K) for s_, c in e.t), e.k // K)
                    return (n, y[1], y[2], y[3])
    return None


def on_nz_false(I, st, leaves):
    """the or-tree with these leaves has no lane set"""
    items = []
    for lf in leaves:
        c = leaf_info(st, lf)
        if c:
            n, r, off, size = c
            items.append((n, r, off, off + size))
    if items:
        items.sort(key=lambda it: repr(st.store.nf(it[2])))
        reject_batch(I, st, items)


def on_lanes_clear(I, st, T, lo, hi_lane):
    """lanes [lo, hi_lane) of mask term T are clear (hi_lane None = up to the end of the chunk)"""
    from .models import nz_strip
    c = leaf_info(st, nz_strip(T))
    if c:
        n, r, base, size = c
        reject_batch(I, st, [(n, r, base + lo, base + (hi_lane if hi_lane is not None else size))])


def on_needle_differs(I, st, rx, xo, ry, yo, n):
    """is_equal_raw(needle, haystack + q, needle.len()) was false: the needle does not occur at q"""
    ps, sr = st.ghost.get('pairspec'), st.ghost.get('search')
    if not ps or not sr or 'needle' not in ps:
        return
    nr, noff, nlen = ps['needle']
    s = st.store
    for (ra, oa, rb, ob) in ((rx, xo, ry, yo), (ry, yo, rx, xo)):
        if ra == nr and rb == sr['region'] and s.entails_eq(oa - noff) and s.entails_eq(n - nlen):
            reject_batch(I, st, [(ps['sym'], rb, ob, ob + 1)])
            return


def on_zerobyte_false(I, st, t):
    K = ((1 << I.ptr_bits) - 1) // 255
    c = swar_leaf(t, K)
    if c:
        n, r, off, w = c
        reject_batch(I, st, [(n, r, off, off + w)])


def on_ne(I, st, e):
    """a disequality e != 0 was assumed: if e = +-(byte(r, off) - n) record the rejection of [off, off+1)"""
    bytes_ = st.ghost.get('bytes')
    if not bytes_:
        return
    e = st.store.nf(e)
    rev = None
    for s_, c in e.t:
        if c in (1, -1):
            if rev is None:
                rev = {v: k for k, v in bytes_.items()}
            k = rev.get(s_)
            if k is not None:
                _, r, off = k
                rest = e - LinExpr.var(s_, c)
                n = -rest if c == 1 else rest          # byte - n  or  n - byte
                reject_batch(I, st, [(n, r, off, off + 1)])
                st.store.add_eq(count_of(I, st, r, n, off, off + 1))      # no match in [off, off+1)
                return


def byte_equals_needle(I, st, region, off, needles):
    """is `byte(region, off) == n` entailed for some needle n?  (for the pair pseudo-needle: both pair
    bytes at their offsets from the candidate position `off`)"""
    ps = st.ghost.get('pairspec')
    if ps and any(st.store.nf(n) == st.store.nf(ps['sym']) for n in needles):
        return (byte_equals_needle(I, st, region, off + ps['i1'], [ps['b1']])
                and byte_equals_needle(I, st, region, off + ps['i2'], [ps['b2']]))
    key = ('byte', region, st.store.nf(off))
    s_ = st.ghost.get('bytes', {}).get(key)
    if s_ is None:
        for (_, r2, o2), sym2 in st.ghost.get('bytes', {}).items():
            if r2 == region and st.store.entails_eq(o2 - off):
                s_ = sym2
                break
    if s_ is None:
        return False
    for n in needles:
        if st.store.entails_eq(V(s_) - n):
            return True
    return False


# ----------------------------------------------------------------------------- post-conditions
class _Fr:
    def __init__(self, inst):
        self.inst = inst


def mask_leaves(t):
    from .models import nz_leaves
    return nz_leaves(t)


def check_search_post(I, inst, results, mode, ret_kind, index_base=None, range_check=True, match_check=True):
    """mode 'fwd' | 'rev';  ret_kind 'ptr' | 'index' (index relative to index_base offset)"""
    fr = _Fr(inst)
    loc = inst.loc
    tag = inst.path.rsplit('::', 1)[-1]
    for st, ret in results:
        sr = st.ghost.get('search')
        if sr is None:
            I.ob('POST', fr, loc, f'{tag}: search ghost missing', False, 'internal: no search ghost in outcome state')
            continue
        s = st.store
        r, start, end = sr['region'], sr['start'], sr['end']
        needles = sr['needles']
        if not s.check_sat():
            continue
        if not isinstance(ret, AdtV) or ret.variant is None:
            I.ob('POST', fr, loc, f'{tag}: result shape', False, f"result is not a definite Some/None: {ret}")
            continue
        if ret.variant == 0:
            # None: nothing skipped
            empty = s.entails_le(end - start)
            for n in needles:
                kind = 'hi' if mode == 'fwd' else 'lo'
                k, v = _find(st, kind, r, n)
                if mode == 'fwd':
                    ok = empty or (v is not None and s.entails_le(end - v.off))
                    det = '' if ok else f"returns None but only [start, {s.nf(v.off) if v else '?'}) is known to be free of needle {s.nf(n)}; end = {s.nf(end)}"
                else:
                    ok = empty or (v is not None and s.entails_le(v.off - start))
                    det = '' if ok else f"returns None but only [{s.nf(v.off) if v else '?'}, end) is known to be free of needle {s.nf(n)}; start = {s.nf(start)}"
                I.ob('POST-NONE', fr, loc, f'{tag}: None => every byte was examined ({mode})', ok, det)
            continue
        # Some(x)
        x = ret.fields[0]
        if ret_kind == 'ptr':
            if not (isinstance(x, PtrV) and x.r == r):
                I.ob('POST-RANGE', fr, loc, f'{tag}: Some(p) inside [start,end)', False, f"returned pointer not in the haystack region: {x}")
                continue
            p = x.off
        else:
            if not isinstance(x, IntV):
                I.ob('POST-RANGE', fr, loc, f'{tag}: Some(i) < len', False, f"returned index untracked: {x}")
                continue
            p = index_base + x.e
        in_range = s.entails_le(start - p) and s.entails_le(p + 1 - end)
        if range_check:
            I.ob('POST-RANGE', fr, loc, f'{tag}: Some(p) => start <= p < end', in_range,
                 '' if in_range else f"p = {s.nf(p)}, start = {s.nf(start)}, end = {s.nf(end)}")
        # find the lane decomposition p = q + lane
        pn = s.nf(p)
        lanes = st.ghost.get('lanes', {})
        lane_sym = None
        for s_, c in pn.t:
            if c == 1 and s_ in lanes:
                lane_sym = s_
        matched, first, det_m, det_f = False, False, '', ''
        if lane_sym is not None:
            name, mterm = lanes[lane_sym]
            q = pn - V(lane_sym)
            want = 'first_offset' if mode == 'fwd' else 'last_offset'
            leaves = [leaf_info(st, lf) for lf in mask_leaves(mterm)]
            if any(lf is None for lf in leaves):
                det_m = f"mask {mterm} is not an or-tree of cmpeq(splat(needle), load(chunk))"
            else:
                same_chunk = all(lf[1] == r and s.entails_eq(lf[2] - q) for lf in leaves)
                ns = [lf[0] for lf in leaves]
                known = all(any(s.entails_eq(n - m) for m in needles) for n in ns)
                matched = same_chunk and known and name in ('first_offset', 'last_offset')
                if not matched:
                    det_m = f"lane of {mterm}: chunk base {s.nf(q)}; leaves load at {[s.nf(lf[2]) for lf in leaves]} needles {[s.nf(n) for n in ns]}"
                covers = all(any(s.entails_eq(n - m) for m in ns) for n in needles)
                size = leaves[0][3] if leaves else 0
                if name != want:
                    det_f = f"uses {name} but a {'forward' if mode == 'fwd' else 'reverse'} search needs {want}"
                elif not covers:
                    det_f = f"mask covers needles {[s.nf(n) for n in ns]} but the searcher has {[s.nf(n) for n in needles]}"
                else:
                    bad = []
                    ll = st.ghost.get('lane_lo', {}).get(lane_sym)
                    q_eff = q + ll[1] if (ll is not None and ll[2] == 'kept') else q      # lanes below `lo` were cleared artificially: they must be covered
                    if ll is not None and ll[2] == 'below':
                        q_eff = q + V(lane_sym) + 0    # a surviving lane below `lo`: every position before it must be covered
                    for n in needles:
                        k, v = _find(st, 'hi' if mode == 'fwd' else 'lo', r, n)
                        if mode == 'fwd':
                            okn = v is not None and s.entails_le(q_eff - v.off)            # hi >= q (+ lo)
                        else:
                            okn = v is not None and s.entails_le(v.off - (q + size))   # lo <= q + size
                        if not okn:
                            bad.append(f"needle {s.nf(n)}: {'hi' if mode == 'fwd' else 'lo'} = {s.nf(v.off) if v else '?'}")
                    first = not bad
                    if bad:
                        det_f = f"bytes {'before' if mode == 'fwd' else 'after'} chunk {s.nf(q)} not all examined: " + '; '.join(bad)
        else:
            matched = byte_equals_needle(I, st, r, p, needles)
            if not matched:
                det_m = f"no mask lane and no assumed byte equality at {pn}"
            bad = []
            for n in needles:
                k, v = _find(st, 'hi' if mode == 'fwd' else 'lo', r, n)
                if mode == 'fwd':
                    okn = v is not None and s.entails_le(p - v.off)
                else:
                    okn = v is not None and s.entails_le(v.off - (p + 1))
                if not okn:
                    bad.append(f"needle {s.nf(n)}: {'hi' if mode == 'fwd' else 'lo'} = {s.nf(v.off) if v else '?'}")
            first = not bad
            if bad:
                det_f = f"bytes {'before' if mode == 'fwd' else 'after'} {pn} not all examined: " + '; '.join(bad)
        if match_check:
            I.ob('POST-MATCH', fr, loc, f'{tag}: Some(p) => byte at p is a needle', matched, det_m)
        I.ob('POST-FIRST' if mode == 'fwd' else 'POST-LAST', fr, loc,
             f"{tag}: Some(p) => no needle {'before' if mode == 'fwd' else 'after'} p", first, det_f)


def check_count_post(I, inst, results):
    fr = _Fr(inst)
    tag = inst.path.rsplit('::', 1)[-1]
    for st, ret in results:
        sr = st.ghost.get('search')
        if sr is None or not st.store.check_sat():
            continue
        s = st.store
        r, start, end = sr['region'], sr['start'], sr['end']
        if not isinstance(ret, IntV):
            I.ob('POST-COUNT', fr, inst.loc, f'{tag}: count == number of matching bytes in the window', False, f"result untracked: {ret}")
            continue
        for n in sr['needles']:
            if s.entails_le(end - start):
                ok = s.entails_eq(ret.e)
                det = '' if ok else f"empty window but result {s.nf(ret.e)}"
            else:
                want = count_of(I, st, r, n, start, end)
                ok = s.entails_eq(ret.e - want)
                det = '' if ok else f"result {s.nf(ret.e)} is not CountOf([start,end)) = {s.nf(want)} (a gap, an overlap or a different needle)"
            I.ob('POST-COUNT', fr, inst.loc, f'{tag}: count == number of matching bytes in the window', ok, det)
