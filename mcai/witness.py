"""E5: run the compile-fail witness crate (rustdoc doctests, nightly so that
error codes are honoured).  Twins are `no_run`: nothing is executed."""
import os, re, shutil, subprocess, tempfile, json
from . import configs

WIT = os.path.join(configs.VERIF, 'witness')


def _run_all(features_alloc=True):
    cache = os.path.join(configs.cache_dir(), 'witness.json')
    if os.path.exists(cache):
        return json.load(open(cache))
    tmp = tempfile.mkdtemp(prefix='mcsa-wit-', dir=os.environ.get('TMPDIR', '/var/tmp'))
    try:
        shutil.copytree(os.path.join(WIT, 'src'), os.path.join(tmp, 'src'))
        toml = open(os.path.join(WIT, 'Cargo.toml.in')).read()
        toml = toml.replace('@REPO@', configs.REPO).replace('@FEATURES@', '')
        open(os.path.join(tmp, 'Cargo.toml'), 'w').write(toml)
        lock = os.path.join(configs.REPO, 'Cargo.lock')
        env = dict(os.environ)
        env['CARGO_TARGET_DIR'] = os.path.join(tmp, 'target')
        env['CARGO_NET_OFFLINE'] = 'true'
        env.pop('RUSTFLAGS', None)
        env.pop('RUSTC_WORKSPACE_WRAPPER', None)
        p = subprocess.run(['cargo', '+nightly', 'test', '--doc', '--offline', '--manifest-path', os.path.join(tmp, 'Cargo.toml')],
                           env=env, stdout=subprocess.PIPE, stderr=subprocess.STDOUT, text=True)
        res = {}
        for m in re.finditer(r'^test src/lib\.rs - (\w+) \(line \d+\)( - compile fail| - compile)? \.\.\. (\w+)', p.stdout, re.M):
            res[m.group(1)] = {'mode': (m.group(2) or '').strip(' -'), 'result': m.group(3)}
        out = {'results': res, 'rc': p.returncode, 'tail': p.stdout[-3000:]}
        if res:
            json.dump(out, open(cache, 'w'))
        return out
    finally:
        shutil.rmtree(tmp, ignore_errors=True)


def run(rep, names):
    out = _run_all()
    res = out['results']
    if not res:
        rep.add('E5/witness-run', 'doctest harness', False, detail='witness crate did not run: ' + out['tail'][-600:])
        return
    for n in names:
        r = res.get(n)
        if r is None:
            rep.add('E5/witness', n, False, detail='witness not found in doctest output')
            continue
        rep.add('E5/witness', n, r['result'] == 'ok', where='witness/src/lib.rs',
                detail=f"{r['mode'] or 'compile'}: {r['result']}")
