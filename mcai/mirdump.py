#!/usr/bin/env python3
"""Pretty-print exported MIR instances: mirdump.py <file.json> <key-substring> [--list]"""
import json, sys

def place(p, T=None):
    s = f"_{p['l']}"
    for e in p['pr']:
        k = e['k']
        if k == 'deref': s = f"(*{s})"
        elif k == 'field': s = f"{s}.{e['i']}" + ("u" if e.get('union') else "")
        elif k == 'index': s = f"{s}[_{e['l']}]"
        elif k == 'downcast': s = f"({s} as v{e['v']})"
        else: s = f"{s}.<{k}>"
    return s

def op(o):
    k = o['k']
    if k in ('copy', 'move'): return ('' if k == 'copy' else 'move ') + place(o['p'])
    if k == 'const':
        ck = o.get('ck')
        if ck == 'int': return f"const {o['v']}"
        if ck == 'fn': return f"const fn#{o['ty']}"
        if ck == 'ptr': return f"const &{o.get('static') or o.get('fn',{}).get('inst') or 'mem'}"
        return f"const <{ck}>"
    if k == 'rtcheck': return f"{o['which']}={o['v']}"
    return str(o)

def rv(r):
    k = r['k']
    if k == 'use': return op(r['op'])
    if k == 'ref': return ('&mut ' if r['mut'] else '&') + place(r['p'])
    if k == 'rawptr': return ('&raw mut ' if r['mut'] else '&raw const ') + place(r['p'])
    if k == 'cast': return f"{op(r['op'])} as t{r['ty']} ({r['ck']})"
    if k == 'bin': return f"{r['op']}({op(r['a'])}, {op(r['b'])})"
    if k == 'un': return f"{r['op']}({op(r['a'])})"
    if k == 'discr': return f"discriminant({place(r['p'])})"
    if k == 'agg':
        extra = ''
        if r['ak'] == 'adt':
            extra = f" {r['path']}::v{r['variant']}" + (f" ufield={r['union_field']}" if 'union_field' in r else '')
        elif r['ak'] == 'closure': extra = ' ' + r['path']
        return f"{r['ak']}{extra}({', '.join(op(o) for o in r['ops'])})"
    if k == 'repeat': return f"[{op(r['op'])}; {r.get('n')}]"
    return str(r)

def dump(key, inst, types):
    print(f"=== {key}")
    print(f"    path={inst['path']} krate={inst['krate']} unsafe={inst.get('unsafe')} tf={inst.get('target_features')} loc={inst['loc']}")
    if 'nobody' in inst:
        print("    <no body: %s>" % inst['nobody']); return
    for i, t in enumerate(inst['locals']):
        names = [d['name'] for d in inst['debug'] if d['p']['l'] == i and not d['p']['pr']]
        print(f"    let _{i}: {types[t]['str']}" + (f"  // {','.join(names)}" if names else '') + ('  // arg' if 1 <= i <= inst['arg_count'] else ''))
    for bi, b in enumerate(inst['blocks']):
        if b.get('cleanup'):
            continue
        print(f"  bb{bi}:")
        for s in b['stmts']:
            if s['k'] == 'assign':
                print(f"    {place(s['p'])} = {rv(s['rv'])}    // {s['loc']}")
            else:
                print(f"    {s}")
        t = b['term']
        k = t['k']
        if k == 'call':
            c = t['callee']
            name = c.get('inst') or ('indirect ' + op(c['indirect']) if 'indirect' in c else c.get('unresolved'))
            print(f"    {place(t['dest'])} = call {name}({', '.join(op(a) for a in t['args'])}) -> bb{t['t']}   // {t['loc']} {t['macros']}")
        elif k == 'switch':
            print(f"    switch {op(t['op'])} {t['cases']} otherwise bb{t['otherwise']}")
        elif k == 'assert':
            print(f"    assert({op(t['cond'])} == {t['expected']}, {t['msg']}) -> bb{t['t']}  // {t['loc']} {t['macros']}")
        elif k == 'goto':
            print(f"    goto bb{t['t']}")
        elif k == 'drop':
            print(f"    drop({place(t['p'])}) -> bb{t['t']}")
        else:
            print(f"    {k}")

if __name__ == '__main__':
    d = json.load(open(sys.argv[1]))
    pat = sys.argv[2]
    for k, v in d['instances'].items():
        if pat in k:
            if '--list' in sys.argv:
                print(k, v.get('nobody', ''))
            else:
                dump(k, v, d['types'])
