"""Run E2/E3 over every public entry point of a configuration (in parallel) and
cache the resulting obligations."""
import hashlib, json, os, sys, time, traceback
from multiprocessing import Pool
from . import configs, prog as progmod, e2run, contracts, mm, eqspec
from .interp import Unsupported

HERE = os.path.dirname(os.path.abspath(__file__))


def src_hash():
    h = hashlib.sha256()
    for f in sorted(os.listdir(HERE)):
        if f.endswith('.py'):
            h.update(open(os.path.join(HERE, f), 'rb').read())
    return h.hexdigest()[:16]


_P = {}


def _prog(cfg):
    if cfg not in _P:
        p = configs.program_path(cfg)
        P = progmod.Program(p)
        P.cfg_name = cfg
        _P[cfg] = P
    return _P[cfg]


# private functions analysed as roots of their own because a property names them (C11: the short-haystack
# fallback of the vector prefilters is reachable only through the meta searcher)
import re as _re
EXTRA_ROOTS = _re.compile(r'^memmem::searcher::Prefilter::(find_simple|sse2|avx2|neon|simd128|fallback(::<.*>)?)$'
                          r'|^memmem::searcher::prefilter_kind_(sse2|avx2|neon|simd128|fallback)$')


def public_roots(P):
    out = []
    for key, inst in P.instances.items():
        if EXTRA_ROOTS.match(inst.path) and inst.has_body:
            out.append(key)
    for key in P.roots:
        inst = P.instances[key]
        f = P.fn_facts.get(inst.path)
        if key in out:
            continue
        if f and f.get('reachable') and inst.has_body:
            if f.get('impl_trait') == 'core::fmt::Debug':
                continue        # Debug formatting is not part of any property
            out.append(key)
    return out


_CUT = {}
# small helpers whose result only means something together with the ghost state they build: always inlined
NEVER_CUT = {'arch::all::is_equal'}


def cut_set_for(P):
    """safe public functions: analysed as roots of their own, cut when called from other roots"""
    k = id(P)
    if k not in _CUT:
        memo = {}

        def substantial(inst, depth=0):
            """has loops, indirect calls, or (transitively) calls something that has; trivial
            constructors/accessors (straight-line code over straight-line helpers) are inlined instead"""
            if inst.key in memo:
                return memo[inst.key]
            memo[inst.key] = True       # recursion guard
            r = False
            if inst.natural_loops() or depth > 4:
                r = True
            else:
                for b, t in inst.calls():
                    c = t['callee']
                    if 'indirect' in c:
                        r = True
                        break
                    if c.get('krate') == 'memchr':
                        ci = P.instances.get(c.get('inst'))
                        if ci is None or not ci.has_body or substantial(ci, depth + 1):
                            r = True
                            break
            memo[inst.key] = r
            return r
        _CUT[k] = frozenset(r for r in public_roots(P) if not P.instances[r].is_unsafe_fn
                            and P.instances[r].j.get('def_kind') in ('Fn', 'AssocFn') and substantial(P.instances[r])
                            and P.instances[r].path not in NEVER_CUT and not EXTRA_ROOTS.match(P.instances[r].path))
    return _CUT[k]


def n_variants(job):
    cfg, key = job
    P = _prog(cfg)
    try:
        return len(contracts.variants_for(P, P.instances[key]))
    except Exception:
        return 1


def run_one(job):
    """one (root, analysis variant) pair"""
    cfg, key, budget, vi = job
    P = _prog(cfg)
    inst = P.instances[key]
    t0 = time.time()
    rec = {'root': key, 'path': inst.path, 'loc': inst.loc, 'obs': [], 'error': None, 'notes': [], 'stats': {}, 'variants': []}
    try:
        variants = contracts.variants_for(P, inst)
        for vname, contract, post in variants[vi:vi + 1]:
            r = e2run.run_root(P, key, contract, time_budget=budget, cut_set=cut_set_for(P) - {key})
            I = r['interp']
            if r['error']:
                rec['error'] = f"[{vname}] {r['error']}"
            else:
                contracts.post_invariants(I, inst, r['results'], r.get('args', []))
                mm.check_root_post(I, inst, r['results'], r.get('args', []))
                mm.check_domain(I, inst, vname, r['results'])
                mm.check_spec_post(I, inst, r['results'], r.get('args', []))
                mm.check_iter_post(I, inst, r['results'], r.get('args', []))
                mm.check_period_test(I, inst, r['results'], r.get('args', []))
                if not vname.endswith('|out-of-domain'):
                    mm.check_verified(I, inst, r['results'], r.get('args', []))
                eqspec.check(I, inst, r['results'], r.get('args', []))
                if post:
                    post(I, inst, r['results'])
            for o in I.obs:
                rec['obs'].append({'kind': o.kind, 'inst': o.inst, 'path': o.path, 'loc': o.loc, 'role': o.role, 'ok': o.ok,
                                   'detail': o.detail if not o.ok else o.detail[:160], 'variant': vname,
                                   'macros': [m for m in (o.macros or []) if 'assert' in m or 'unreachable' in m][:2]})
            rec['notes'] += [n for n in I.notes if n not in rec['notes']]
            rec.setdefault('cuts', {}).update(I.cuts)
            rec['variants'].append({'name': vname, 'time': round(r['time'], 2), 'outcomes': r.get('outcomes'), 'stats': I.stats,
                                    'loops': [list(x) for x in I.loop_invs]})
    except Exception as e:
        rec['error'] = f"INTERNAL: {type(e).__name__}: {e}\n" + traceback.format_exc()[-1500:]
    rec['time'] = round(time.time() - t0, 2)
    return rec


def merge_recs(recs):
    """records of the variants of one root -> one record"""
    out = recs[0]
    for r in recs[1:]:
        out['obs'] += r['obs']
        out['error'] = out['error'] or r['error']
        out['notes'] += [n for n in r['notes'] if n not in out['notes']]
        out['variants'] += r['variants']
        out.setdefault('cuts', {}).update(r.get('cuts', {}))
        out['time'] = round(out['time'] + r['time'], 2)
    return out


def run_config(cfg, budget=600, jobs=None, only=None, use_cache=True):
    P = _prog(cfg)
    cache = os.path.join(configs.cache_dir(), f"e2-{cfg}-{src_hash()}.json")
    if use_cache and only is None and os.path.exists(cache):
        return json.load(open(cache))
    roots = public_roots(P)
    if only:
        import re
        rx = re.compile(only)
        roots = [r for r in roots if rx.search(r)]
    t0 = time.time()
    n = jobs or min(16, os.cpu_count() or 4)
    if n > 1 and len(roots) > 1:
        with Pool(n) as pool:
            counts = pool.map(n_variants, [(cfg, r) for r in roots], chunksize=8)
            work = [(cfg, r, budget, vi) for r, c in zip(roots, counts) for vi in range(c)]
            # longest jobs first (roots with many variants are the substring searchers)
            order = sorted(range(len(work)), key=lambda i: -counts[roots.index(work[i][1])])
            parts = pool.map(run_one, [work[i] for i in order], chunksize=1)
        by_root = {}
        for i, rec in zip(order, parts):
            by_root.setdefault(work[i][1], []).append((work[i][3], rec))
        recs = [merge_recs([r for _, r in sorted(by_root[k], key=lambda x: x[0])]) for k in roots]
    else:
        recs = []
        for r in roots:
            c = n_variants((cfg, r))
            recs.append(merge_recs([run_one((cfg, r, budget, vi)) for vi in range(c)]))
    out = {'cfg': cfg, 'roots': recs, 'wall': round(time.time() - t0, 1), 'n_roots': len(roots)}
    if only is None:
        json.dump(out, open(cache, 'w'))
        # results of older versions of the analyser for this tree and configuration are dead weight
        d = os.path.dirname(cache)
        for f in os.listdir(d):
            if f.startswith(f'e2-{cfg}-') and f.endswith('.json') and os.path.join(d, f) != cache:
                try:
                    os.remove(os.path.join(d, f))
                except OSError:
                    pass
    return out


if __name__ == '__main__':
    cfg = sys.argv[1]
    only = sys.argv[2] if len(sys.argv) > 2 else None
    out = run_config(cfg, only=only, use_cache=False)
    from collections import Counter
    c = Counter()
    fails = {}
    for r in out['roots']:
        if r['error']:
            print('ERROR', r['root'], r['error'][:300])
        for o in r['obs']:
            c[(o['kind'], o['ok'])] += 1
            if not o['ok']:
                fails.setdefault((o['kind'], o['path'], o['loc'], o['role']), []).append((r['root'], o['detail']))
    print('wall', out['wall'], 'roots', out['n_roots'])
    print(dict(c))
    slow = sorted(out['roots'], key=lambda r: -r['time'])[:8]
    print('slowest:', [(r['root'][-60:], r['time']) for r in slow])
    for k, v in sorted(fails.items()):
        print('FAIL', k, 'x%d' % len(v), 'e.g. root', v[0][0][-70:], '|', v[0][1][:160])
