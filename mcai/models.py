"""Models of external (core / vendor) functions and of the Vector / MoveMask
trait boundary for the E2/E3 interpreter.  The list is closed: anything not
modelled here is inlined from its MIR when available, else havocked (and the
havoc is reported in the evidence)."""
import re
from .lin import LinExpr, fresh, ZERO
from .absval import *
from .interp import Unsupported

V = LinExpr.var
C = LinExpr.const


def opt_tid_of_dest(I, fr, t):
    dl = t['dest']
    return dl['pr'][-1]['ty'] if dl['pr'] else fr.inst.locals[dl['l']]


def mk_option(I, tid, val):
    """Some(val) / None of Option type tid"""
    if val is None:
        return AdtV(tid, 0, [])
    return AdtV(tid, 1, [val])


def pointee_size(I, callee, argidx=1):
    if 'locals' not in callee.j:
        # body-less intrinsic: the pointee is the first type argument
        ta = callee.j.get('targs') or []
        if ta:
            to = I.P.types[ta[0]]
            return to.get('size'), to.get('align', 1), ta[0]
        return None, 1, None
    ty = I.P.types[callee.locals[argidx]]
    if ty['kind'] in ('ptr', 'ref'):
        to = I.P.types[ty['to']]
        return to.get('size'), to.get('align', 1), ty['to']
    return None, 1, None


class Models:
    def __init__(self, prog, ifunc_sets=None, e3=True):
        self.P = prog
        self.ifunc_sets = ifunc_sets or {}
        self.alts = {}          # ADT path -> (fn key, union field): chosen pairing alternative
        from . import unionpair
        self.pair_table = set(unionpair.TARGETS)
        self.pair_reads = {}
        for inst in prog.local_instances():
            if inst.has_body and ('searcher_kind_' in inst.path or 'prefilter_kind_' in inst.path):
                self.pair_reads[inst.key] = unionpair.union_reads(prog, inst)
        self.e3 = e3
        self.table = []
        self.cache = {}
        self.used = {}
        R = self.reg
        # ---- raw pointers
        R(r'^core::ptr::(const|mut)_ptr::<impl \*(const|mut) .*>::(add|sub|offset|byte_add|byte_sub|wrapping_add|wrapping_sub)$', m_ptr_arith)
        R(r'^core::ptr::(const|mut)_ptr::<impl \*(const|mut) .*>::cast::<.*>$', m_identity0)
        R(r'^core::ptr::(const|mut)_ptr::<impl \*(const|mut) .*>::(cast_const|cast_mut|addr|expose_provenance)$', m_identity0_or_addr)
        R(r'^core::ptr::(const|mut)_ptr::<impl \*(const|mut) .*>::(read|read_unaligned|read_volatile)$', m_ptr_read)
        R(r'^core::ptr::(read|read_unaligned|read_volatile)::<.*>$', m_ptr_read)
        R(r'^core::ptr::(const|mut)_ptr::<impl \*(const|mut) .*>::offset_from$', m_offset_from)
        R(r'^core::ptr::(const|mut)_ptr::<impl \*(const|mut) .*>::is_null$', m_is_null)
        # ---- slices
        R(r'^core::slice::<impl \[.*\]>::len$', m_slice_len)
        R(r'^core::slice::<impl \[.*\]>::as_ptr$', m_slice_as_ptr)
        R(r'^core::slice::<impl \[.*\]>::is_empty$', m_slice_is_empty)
        R(r'^core::slice::index::<impl core::ops::Index<core::ops::Range\w*<usize>> for \[.*\]>::index$', m_slice_index_range)
        R(r'^core::slice::<impl \[.*\]>::get::<core::ops::Range\w*<usize>>$', m_slice_get_range)
        R(r'^core::slice::<impl \[.*\]>::get::<usize>$', m_slice_get_usize)
        R(r'^core::slice::<impl \[.*\]>::(first|last)$', m_slice_first_last)
        R(r'^core::slice::<impl \[.*\]>::split_at$', m_slice_split_at)
        R(r'^<\[u8\] as core::convert::AsRef<\[u8\]>>::as_ref$', m_identity0)
        R(r'^<&\[u8\] as core::convert::AsRef<\[u8\]>>::as_ref$', m_deref0)
        # ---- integers
        R(r'^core::num::<impl (usize|u8|u16|u32|u64|isize|i32|i64)>::(checked_sub|checked_add)$', m_checked)
        R(r'^core::num::<impl (usize|u8|u16|u32|u64)>::(saturating_sub|saturating_add)$', m_saturating)
        R(r'^core::num::<impl (usize|u8|u16|u32|u64)>::(wrapping_sub|wrapping_add|wrapping_mul|wrapping_shl|wrapping_shr|wrapping_neg)$', m_wrapping)
        R(r'^core::num::<impl (usize|u8|u16|u32|u64)>::(count_ones|trailing_zeros|leading_zeros|count_zeros)$', m_bitcount)
        R(r'^core::num::<impl (usize|u8|u16|u32|u64)>::(to_le|to_be|from_le|from_be|swap_bytes|rotate_left|rotate_right)$', m_int_opaque)
        R(r'^core::cmp::(max|min)::<(usize|u8|u16|u32|u64)>$', m_maxmin)
        R(r'^<(usize|u8|u16|u32|u64) as core::cmp::Ord>::(max|min)$', m_maxmin)
        R(r'^core::convert::num::(ptr_try_from_impls::)?<impl core::convert::TryFrom<(\w+)> for (\w+)>::try_from$', m_try_from)
        R(r'^core::mem::swap::<.*>$', m_mem_swap)
        R(r'^core::mem::(size_of|align_of)::<.*>$', m_size_of)
        # ---- atomics / feature detection
        R(r'^core::sync::atomic::Atomic::<\*mut \(\)>::load$', m_atomic_load)
        R(r'^core::sync::atomic::Atomic::<\*mut \(\)>::store$', m_atomic_store)
        R(r'^std_detect::detect::arch::\w+::__is_feature_detected::\w+$', m_unknown_bool)
        # ---- vendor load intrinsics: size + alignment
        R(r'^core::arch::x86_64::_mm_loadu_si128$', lambda *a: m_vec_load(*a, size=16, align=1))
        R(r'^core::arch::x86_64::_mm_load_si128$', lambda *a: m_vec_load(*a, size=16, align=16))
        R(r'^core::arch::x86_64::_mm256_loadu_si256$', lambda *a: m_vec_load(*a, size=32, align=1))
        R(r'^core::arch::x86_64::_mm256_load_si256$', lambda *a: m_vec_load(*a, size=32, align=32))
        R(r'^core::arch::aarch64::vld1q_u8$', lambda *a: m_vec_load(*a, size=16, align=1))
        R(r'^core::arch::wasm32::v128_load$', lambda *a: m_vec_load(*a, size=16, align=1))
        R(r'^core::arch::(x86_64|aarch64|wasm32)::\w+(::<.*>)?$', m_vendor_pure)
        R(r'^core::core_arch::', m_vendor_pure)
        # ---- Vector / MoveMask trait boundary (E3 abstraction)
        R(r'(^<.* as vector::Vector>|impl vector::Vector for [^>]*>)::(splat|cmpeq|and|or|movemask|movemask_will_have_non_zero)$', m_vector_op)
        R(r'(^<.* as vector::MoveMask>|impl vector::MoveMask for [^>]*>)::(all_zeros_except_least_significant|first_offset|last_offset|count_ones|and|or|'
          r'has_non_zero|clear_least_significant_bit)$', m_mask_op)
        # ---- iterators over slices and ranges: abstract index-range producers
        R(r'^core::slice::<impl \[.*\]>::iter$', m_iter_new)
        R(r'^core::slice::iter::<impl core::iter::IntoIterator for &\[.*\]>::into_iter$', m_iter_new)
        R(r'^<(core::slice::Iter<.*>|core::iter::\w+<.*>|core::ops::Range<usize>) as core::iter::(Iterator|IntoIterator|DoubleEndedIterator)>::'
          r'(rev|enumerate|copied|cloned|take|skip|into_iter|by_ref|next)(::<.*>)?$', m_iter_op)
        R(r'^arch::all::memchr::has_zero_byte$', m_has_zero_byte)
        # any ranker: the result of `rank` is an arbitrary u8 (C19 quantifies over all HeuristicFrequencyRank impls)
        R(r' as arch::all::packedpair::HeuristicFrequencyRank>::rank$', m_opaque)
        # summary of the public unsafe fn is_equal_raw (proved at its own root: C18 EQ-TRUE / EQ-FALSE)
        R(r'^arch::all::is_equal_raw$', m_is_equal_raw)
        # Fn-trait shims for fn items: call the item
        R(r' as core::ops::(Fn|FnMut|FnOnce)<.*>>::(call|call_mut|call_once) - shim', m_fn_shim)
        # misc
        R(r'^core::hint::(black_box|assert_unchecked|spin_loop)', m_identity0)
        R(r'^core::intrinsics::', m_intrinsic)

    def reg(self, rx, fn):
        self.table.append((re.compile(rx), fn))

    def lookup(self, I, key, callee):
        if key in self.cache:
            return self.cache[key]
        m = None
        if key.startswith('core::fmt::') or key.startswith('<core::fmt::') or ' as core::fmt::' in key:
            # formatting machinery (only feeds panic messages / Debug output): opaque
            if not (callee is not None and callee.local):
                self.cache[key] = m_opaque
                return m_opaque
        if callee is not None and callee.krate in ('alloc', 'std') and not key.startswith('std_detect'):
            # the allocator and std internals are outside the analysed crate: opaque (havoc), never inlined
            m = m_box_from_slice if (BOX_FROM_SLICE.search(key) or BOX_CLONE.search(key)) else m_opaque
            self.cache[key] = m
            return m
        for rx, fn in self.table:
            if rx.search(key):
                m = fn
                break
        if m is None and callee is not None and not callee.has_body:
            intr = None
            # intrinsic without body
            if key.startswith('core::intrinsics::'):
                m = m_intrinsic
        self.cache[key] = m
        if m is not None:
            self.used[key] = getattr(m, '__name__', 'lambda')
        return m

    # ---- hooks used by the interpreter ------------------------------------------------
    def type_hook(self, I, st, tid, ty, name):
        """fresh abstract value of an ADT that carries a type invariant (the table of DESIGN section 1)"""
        p = ty.get('path', '')
        T = I.P.types
        if p in ('arch::generic::memchr::One', 'arch::generic::memchr::Two', 'arch::generic::memchr::Three'):
            # I-SPLAT: v_i == splat(s_i) (established by `new`, checked by TYINV at construction)
            fields = ty['variants'][0]['fields']
            vals = [None] * len(fields)
            ss = {}
            for i, f in enumerate(fields):
                if T[f['ty']]['kind'] == 'int':
                    vals[i] = I.fresh_int(st, T[f['ty']], f['name'])
                    ss[f['name'][1:]] = vals[i]
            for i, f in enumerate(fields):
                if vals[i] is None:
                    sv = ss.get(f['name'][1:])
                    vals[i] = TermV(('splat', sv.e)) if sv is not None else TermV(('vec', fresh('vec')))
            return AdtV(tid, 0, vals)
        if p in ('arch::all::memchr::One', 'arch::all::memchr::Two', 'arch::all::memchr::Three'):
            # I-SWAR: v_i == s_i * (usize::MAX / 255)   (the needle byte repeated in every byte of a word)
            K = ((1 << I.ptr_bits) - 1) // 255
            fields = ty['variants'][0]['fields']
            ss = {}
            vals = [None] * len(fields)
            for i, f in enumerate(fields):
                if f['name'].startswith('s'):
                    vals[i] = I.fresh_int(st, T[f['ty']], f['name'])
                    ss[f['name'][1:]] = vals[i]
            for i, f in enumerate(fields):
                if vals[i] is None:
                    sv = ss.get(f['name'][1:])
                    vals[i] = IntV(sv.e * K) if sv is not None else I.fresh_int(st, T[f['ty']], f['name'])
            return AdtV(tid, 0, vals)
        if re.match(r'^arch::x86_64::avx2::memchr::(One|Two|Three)$', p):
            # I-AVX2: the 128-bit and the 256-bit searcher hold the same needles
            fields = ty['variants'][0]['fields']
            first = I.fresh_of_type(st, fields[0]['ty'], name + '.' + fields[0]['name'], 1)
            vals = [first]
            for f in fields[1:]:
                ft = T[f['ty']]
                if isinstance(first, AdtV) and ft.get('path') == T[fields[0]['ty']].get('path') and first.fields is not None:
                    ff = ft['variants'][0]['fields']
                    sub = []
                    for j, g in enumerate(ff):
                        if T[g['ty']]['kind'] == 'int':
                            sub.append(first.fields[j])
                        else:
                            sv = next((first.fields[k] for k, h in enumerate(ff) if T[h['ty']]['kind'] == 'int' and h['name'][1:] == g['name'][1:]), None)
                            sub.append(TermV(('splat', sv.e)) if sv is not None else TermV(('vec', fresh('vec'))))
                    vals.append(AdtV(f['ty'], 0, sub))
                else:
                    vals.append(I.fresh_of_type(st, f['ty'], name + '.' + f['name'], 1))
            return AdtV(tid, 0, vals)
        if p == 'arch::generic::memchr::Iter':
            # I-ITER: original_start <= start <= end, all inside one live haystack
            rid = I.new_region(st, 'iter_haystack')
            reg = I.regions[rid]
            fields = ty['variants'][0]['fields']
            ptr_fields = [i for i, f in enumerate(fields) if T[f['ty']]['kind'] == 'ptr']
            if len(ptr_fields) != 3:
                return None
            syms = [fresh(fields[i]['name']) for i in ptr_fields]
            st.store.add_le(-V(syms[0]))
            st.store.add_le(V(syms[0]) - V(syms[1]))
            st.store.add_le(V(syms[1]) - V(syms[2]))
            st.store.add_le(V(syms[2]) - V(reg.L))
            vals = []
            for i, f in enumerate(fields):
                if i in ptr_fields:
                    vals.append(PtrV(rid, V(syms[ptr_fields.index(i)])))
                else:
                    vals.append(I.zst_value(f['ty']))
            return AdtV(tid, 0, vals)
        if p == 'arch::generic::packedpair::Finder':
            # I-PP: min_haystack_len >= max(index1, index2) + V::BYTES
            fields = ty['variants'][0]['fields']
            vals = []
            vbytes = None
            for f in fields:
                ft = T[f['ty']]
                if ft['kind'] == 'adt' and ft.get('simd'):
                    vbytes = ft.get('size')
            pair_v, mhl = None, None
            for f in fields:
                ft = T[f['ty']]
                if ft['kind'] == 'adt' and ft.get('simd'):
                    # I-SPLAT: v1 / v2 are splats of one byte each
                    b = fresh(f['name'] + '_byte')
                    st.store.add_range(V(b), 0, 255)
                    vals.append(TermV(('splat', V(b))))
                elif ft['kind'] == 'int':
                    mhl = I.fresh_int(st, ft, f['name'])
                    vals.append(mhl)
                else:
                    pv = I.fresh_of_type(st, f['ty'], f['name'], 1)
                    pair_v = pv
                    vals.append(pv)
            if vbytes and mhl is not None and isinstance(pair_v, AdtV) and pair_v.fields:
                for x in pair_v.fields:
                    if isinstance(x, IntV):
                        st.store.add_le(x.e + vbytes - mhl.e)
            return AdtV(tid, 0, vals)
        if p == 'arch::x86_64::avx2::packedpair::Finder':
            # I-AVX2PP: both halves were built from the same needle and pair (same offsets, same splatted bytes)
            fields = ty['variants'][0]['fields']
            if len(fields) == 2 and all(T[f['ty']].get('path') == 'arch::generic::packedpair::Finder' for f in fields):
                a = self.type_hook(I, st, fields[0]['ty'], T[fields[0]['ty']], name + '.sse2')
                b = self.type_hook(I, st, fields[1]['ty'], T[fields[1]['ty']], name + '.avx2')
                if isinstance(a, AdtV) and isinstance(b, AdtV) and len(a.fields) == 4 and len(b.fields) == 4:
                    bsz = next((T[f['ty']].get('size') for f in T[fields[1]['ty']]['variants'][0]['fields'] if T[f['ty']].get('simd')), None)
                    nb = AdtV(b.tid, 0, [a.fields[0], a.fields[1], a.fields[2], b.fields[3]])
                    if bsz and isinstance(a.fields[0], AdtV):
                        for x in a.fields[0].fields:
                            if isinstance(x, IntV):
                                st.store.add_le(x.e + bsz - b.fields[3].e)
                    st.store.add_le(a.fields[3].e - b.fields[3].e)
                    return AdtV(tid, 0, [a, nb])
        if p in ('core::ptr::non_null::NonNull', 'core::ptr::NonNull') and ty.get('targs'):
            # NonNull<[T]> inside an owning container (Box): valid, non-null memory
            to = T[ty['targs'][0]]
            if to['kind'] in ('slice', 'str'):
                esz = T[to['elem']].get('size', 1) if to['kind'] == 'slice' else 1
                rid = I.new_region(st, name + '_box')
                n = fresh(name + '_len')
                st.store.add_le(-V(n))
                st.store.add_eq(V(n) * esz - V(I.regions[rid].L))
                return AdtV(tid, 0, [SliceV(PtrV(rid, ZERO), V(n), esz)])
        alt = self.alts.get(p)
        if alt is not None:
            # I-SRCH / I-PRE: `call` is paired with the active field of `kind` (one alternative per analysis variant)
            fn_key, ufield = alt
            fields = ty['variants'][0]['fields']
            vals = []
            for f in fields:
                ft = T[f['ty']]
                if ft['kind'] == 'fnptr':
                    vals.append(FnV([fn_key]))
                elif ft['kind'] == 'adt' and ft.get('adt_kind') == 'union':
                    uf = ft['variants'][0]['fields'][ufield]
                    vals.append(UnionV(f['ty'], ufield, I.fresh_of_type(st, uf['ty'], uf['name'], 1)))
                else:
                    vals.append(I.fresh_of_type(st, f['ty'], f['name'], 1))
            v = AdtV(tid, 0, vals)
            if p == 'memmem::searcher::Prefilter':
                pass
            return v
        return None

    def on_aggregate(self, I, fr, st, rv, val, loc):
        """TYINV: every construction of a type that carries an invariant must establish it"""
        self.check_invariant(I, fr, st, rv['ty'], val, loc, 'construction')

    def check_invariant(self, I, fr, st, tid, val, loc, when):
        if isinstance(tid, tuple) or not isinstance(val, AdtV) or val.fields is None:
            return
        T = I.P.types
        ty = T[tid]
        p = ty.get('path', '')
        if p in ('arch::generic::memchr::One', 'arch::generic::memchr::Two', 'arch::generic::memchr::Three'):
            fields = ty['variants'][0]['fields']
            ints = {f['name'][1:]: val.fields[i] for i, f in enumerate(fields) if T[f['ty']]['kind'] == 'int'}
            for i, f in enumerate(fields):
                if T[f['ty']]['kind'] != 'int':
                    sv = ints.get(f['name'][1:])
                    v = val.fields[i]
                    ok = isinstance(v, TermV) and isinstance(sv, IntV) and v.t[0] == 'splat' and st.store.entails_eq(v.t[1] - sv.e)
                    I.ob('TYINV', fr, loc, f'I-SPLAT {p.rsplit("::", 1)[1]}.{f["name"]} ({when})', ok,
                         '' if ok else f"field {f['name']} is not splat of its scalar sibling: {v}")
        elif p in ('arch::all::memchr::One', 'arch::all::memchr::Two', 'arch::all::memchr::Three'):
            K = ((1 << I.ptr_bits) - 1) // 255
            fields = ty['variants'][0]['fields']
            ss = {f['name'][1:]: val.fields[i] for i, f in enumerate(fields) if f['name'].startswith('s')}
            for i, f in enumerate(fields):
                if f['name'].startswith('v'):
                    sv, v = ss.get(f['name'][1:]), val.fields[i]
                    ok = isinstance(sv, IntV) and isinstance(v, IntV) and st.store.entails_eq(v.e - sv.e * K)
                    I.ob('TYINV', fr, loc, f'I-SWAR {p.rsplit("::", 1)[1]}.{f["name"]} == splat({f["name"].replace("v", "s")}) ({when})', ok,
                         '' if ok else f"field {f['name']} = {v} is not the needle byte repeated in every byte")
        elif re.match(r'^arch::x86_64::avx2::memchr::(One|Two|Three)$', p):
            a, b = val.fields[0], val.fields[1]
            ok = isinstance(a, AdtV) and isinstance(b, AdtV) and a.fields is not None and b.fields is not None
            if ok:
                for x, y in zip(a.fields, b.fields):
                    if isinstance(x, IntV) or isinstance(y, IntV):
                        ok = ok and isinstance(x, IntV) and isinstance(y, IntV) and st.store.entails_eq(x.e - y.e)
            I.ob('TYINV', fr, loc, f'I-AVX2 {p.rsplit("::", 1)[1]}: 128-bit and 256-bit searchers hold the same needles ({when})', ok,
                 '' if ok else f"needles differ: {a} vs {b}")
        elif p == 'arch::generic::memchr::Iter':
            ptrs = [v for v in val.fields if isinstance(v, PtrV)]
            ok = len(ptrs) == 3 and len({q.r for q in ptrs}) == 1
            if ok:
                reg = I.regions[ptrs[0].r]
                ok = (st.store.entails_le(-ptrs[0].off) and st.store.entails_le(ptrs[0].off - ptrs[1].off)
                      and st.store.entails_le(ptrs[1].off - ptrs[2].off) and st.store.entails_le(ptrs[2].off - V(reg.L)))
            I.ob('TYINV', fr, loc, f'I-ITER original_start <= start <= end within the haystack ({when})', ok,
                 '' if ok else f"cannot prove the iterator window invariant: {val}")
        elif p == 'arch::generic::packedpair::Finder':
            fields = ty['variants'][0]['fields']
            vbytes, mhl, pair_v = None, None, None
            for i, f in enumerate(fields):
                ft = T[f['ty']]
                if ft['kind'] == 'adt' and ft.get('simd'):
                    vbytes = ft.get('size')
                elif ft['kind'] == 'int':
                    mhl = val.fields[i]
                elif ft['kind'] == 'adt':
                    pair_v = val.fields[i]
            ok = bool(vbytes) and isinstance(mhl, IntV) and isinstance(pair_v, AdtV) and pair_v.fields is not None
            bad = []
            for i, f in enumerate(fields):
                ft = T[f['ty']]
                if ft['kind'] == 'adt' and ft.get('simd'):
                    x = val.fields[i]
                    if not (isinstance(x, TermV) and isinstance(x.t, tuple) and x.t and x.t[0] == 'splat'):
                        bad.append(f"{f['name']} is a splat of one byte (I-SPLAT)")
            if ok:
                for j, x in enumerate(pair_v.fields):
                    if isinstance(x, IntV):
                        if not st.store.entails_le(x.e + vbytes - mhl.e):
                            bad.append(f"index{j + 1} + {vbytes} <= min_haystack_len")
                    else:
                        bad.append(f"index{j + 1} untracked")
            I.ob('TYINV', fr, loc, f'I-PP min_haystack_len >= max(index1, index2) + V::BYTES ({when})', ok and not bad,
                 '' if ok and not bad else 'cannot prove ' + ', '.join(bad or ['(untracked fields)']))
        elif p in self.pair_table:
            fields = ty['variants'][0]['fields']
            fnv, uv = None, None
            for i, f in enumerate(fields):
                ft = T[f['ty']]
                if ft['kind'] == 'fnptr':
                    fnv = val.fields[i]
                elif ft['kind'] == 'adt' and ft.get('adt_kind') == 'union':
                    uv = val.fields[i]
            if isinstance(fnv, FnV) and fnv.fns is None and isinstance(uv, UnionV) and uv.active is None:
                return      # fully abstract value (result of a cut call): its producer's own root proves the pairing
            ok = isinstance(fnv, FnV) and fnv.fns is not None and len(fnv.fns) == 1 and isinstance(uv, UnionV) and uv.active is not None
            det = ''
            if ok:
                fk = next(iter(fnv.fns))
                reads = self.pair_reads.get(fk, set())
                upath = T[uv.tid]['path']
                want = {(upath, uv.active)}
                rd = {r for r in reads if r[0] == upath}
                ok = rd <= want          # the function reads no union field other than the active one
                det = f"`call` = {fk.rsplit('::', 1)[1]} reads union fields {sorted(i for _, i in rd)}, active field is {uv.active}"
            else:
                det = f"call = {fnv}, kind = {uv}: not a single function paired with one written union field"
            I.ob('TYINV', fr, loc, f'UNION-PAIR {p.rsplit("::", 1)[1]} call/kind ({when})', ok, det)

    def term_binop(self, I, st, op, a, b, rty):
        if op == 'BitXor':
            def tm(x):
                if isinstance(x, TermV):
                    return x.t
                if isinstance(x, IntV):
                    return ('lin', st.store.nf(x.e))
                return ('opaque', repr(x))
            ta, tb = tm(a), tm(b)
            if repr(tb) < repr(ta):
                ta, tb = tb, ta
            return TermV(('xor', ta, tb))
        return I.fresh_int(st, rty, 'tbin')

    def merge_terms(self, I, M, vals, stores):
        return TermV(('vec', fresh('vec')))

    def merge_ghost(self, I, states):
        g0 = states[0].ghost
        out = {}
        for key, d0 in g0.items():
            if isinstance(d0, dict) and key not in ('search', 'spec_info', 'pairspec'):
                out[key] = {k: v for k, v in d0.items() if all(s.ghost.get(key, {}).get(k) == v for s in states[1:])}
            elif key in ('search', 'spec_info', 'pairspec'):
                out[key] = d0        # set once at the root, identical on every path
            elif all(s.ghost.get(key) == d0 for s in states[1:]):
                out[key] = d0
        return out

    # ---- lane-set logic: nz(t) = "some lane of vector/mask term t is set"
    #   nz(movemask(v)) = nz(v);  nz(or(a,b)) = nz(a) or nz(b);  nz(and(a,b)) => nz(a) and nz(b)
    def assume_pred(self, I, st, atom):
        _, pos, name, arg = atom[:4]
        if name == 'term_eq' and self.e3:
            from . import eqg
            eqg.on_term_eq(I, st, pos, arg[0], arg[1])
        if name == 'rawcmp' and self.e3:
            from . import eqg
            rx, xo, ry, yo, n = arg
            if pos:
                eqg.on_equal(I, st, rx, xo, ry, yo, n)
            else:
                st.store.add_le(C(1) - n)          # `false` needs a differing byte inside [0, n)
                eqg.on_differ(I, st, rx, xo, ry, yo, n)
                from . import e3
                e3.on_needle_differs(I, st, rx, xo, ry, yo, n)
        if name == 'ptreq' and pos:
            st.ghost['ptreq'] = tuple(st.ghost.get('ptreq', ())) + (arg,)
        if name == 'nzfrom' and self.e3 and not pos:
            from . import e3
            T, lo = arg
            e3.on_lanes_clear(I, st, T, lo, None)
        if name != 'nz':
            key = (name, term_key(arg, st.store))
            preds = dict(st.ghost.get('preds', {}))
            if preds.get(key, pos) != pos:
                st.store.unsat = True
                return
            preds[key] = pos
            st.ghost['preds'] = preds
            if name == 'zerobyte' and not pos:
                from . import e3
                e3.on_zerobyte_false(I, st, term_key(arg, st.store))
            return
        t = nz_strip(term_key(arg, st.store))
        preds = dict(st.ghost.get('preds', {}))
        cur = nz_eval(preds, t)
        if cur is not None and cur != pos:
            st.store.unsat = True
            return
        nz_record(preds, t, pos)
        st.ghost['preds'] = preds
        if not pos:
            from . import e3
            e3.on_nz_false(I, st, nz_leaves(t))
        # a recorded-true or-tree whose leaves are all false is a contradiction
        for (n, tt), v in list(preds.items()):
            if n == 'nz' and v and nz_eval_struct(preds, tt) is False:
                st.store.unsat = True
                return

    def entailed_pred(self, I, st, atom):
        _, pos, name, arg = atom[:4]
        preds = st.ghost.get('preds', {})
        if name != 'nz':
            return preds.get((name, term_key(arg, st.store))) == pos
        t = nz_strip(term_key(arg, st.store))
        v = nz_eval(preds, t)
        if v is not None:
            return v == pos
        if pos:
            # unit propagation: some or-tree known true has t as its only leaf not known false
            for (n, tt), val in preds.items():
                if n == 'nz' and val and tt[0] in ('or', 'mor'):
                    lv = nz_leaves(tt)
                    lt = set(nz_leaves(t))
                    if lt <= set(lv) and all(x in lt or nz_eval(preds, x) is False for x in lv):
                        return True
        return False

    def apply_summary(self, I, fr, st, t, key, callee, args, ret):
        from . import summaries
        return summaries.apply(I, fr, st, t, key, callee, args, ret)

    def indirect_unknown(self, I, fr, st, t, fv, args):
        return None


# ---------------------------------------------------------------------------- helpers
def ret1(st, v):
    return [(st, v)]


BOX_FROM_SLICE = re.compile(r'^(std|alloc)::boxed::convert::<impl core::convert::From<&\[\w+\]> for (std|alloc)::boxed::Box<\[\w+\]>>::from$')


BOX_CLONE = re.compile(r'^<(std|alloc)::boxed::Box<\[\w+\]> as core::clone::Clone>::clone$')


def m_box_from_slice(I, fr, st, t, args, key):
    """axiom (standard library): `Box::<[T]>::from(&[T])` and `Box<[T]>::clone` are fresh allocations
    of the same length"""
    ret = I.havoc_call(fr, st, t, args, key)
    a = args[0]
    if isinstance(a, RefV):
        from . import mm
        a = mm.follow(I, st, a)
        for _ in range(5):
            if isinstance(a, AdtV) and a.fields:
                a = a.fields[0]
    x = ret
    for _ in range(5):
        if isinstance(x, AdtV) and x.fields:
            x = x.fields[0]
    if isinstance(a, SliceV) and isinstance(x, SliceV):
        st.store.add_eq(x.n - a.n)
    return ret1(st, ret)


def m_is_equal_raw(I, fr, st, t, args, key):
    """`is_equal_raw(x, y, n)` called from another function: its documented contract (x and y valid
    for reads of n bytes) is an obligation here; the result is an uninterpreted truth value whose two
    meanings (all n bytes equal / some byte differs) are recorded by the EQ ghost when a branch assumes it"""
    x, y, n = args
    if not (isinstance(x, PtrV) and isinstance(y, PtrV) and isinstance(n, IntV)):
        I.ob('READ', fr, t['loc'], 'is_equal_raw: operands tracked', False, 'pointer / length argument not tracked')
        return ret1(st, I.havoc_call(fr, st, t, args, key))
    for nm, p in (('x', x), ('y', y)):
        reg = I.regions[p.r]
        ok = st.store.entails_le(-p.off) and st.store.entails_le(p.off + n.e - V(reg.L))
        I.ob('READ', fr, t['loc'], f'is_equal_raw: {nm} valid for n bytes', ok,
             f"{reg.name}+({st.store.nf(p.off)}) for {st.store.nf(n.e)} bytes, len {reg.L}")
        st.store.add_le(-p.off)
        st.store.add_le(p.off + n.e - V(reg.L))
    return ret1(st, BoolV(('pred', True, 'rawcmp', (x.r, st.store.nf(x.off), y.r, st.store.nf(y.off), st.store.nf(n.e)))))


def m_opaque(I, fr, st, t, args, key):
    return ret1(st, I.havoc_call(fr, st, t, args, key))


def m_identity0(I, fr, st, t, args, key):
    return ret1(st, args[0])


def m_identity0_or_addr(I, fr, st, t, args, key):
    if key.endswith('::addr') or key.endswith('::expose_provenance'):
        a = args[0]
        if isinstance(a, PtrV):
            return ret1(st, IntV(V(I.regions[a.r].A) + a.off))
        return None
    return ret1(st, args[0])


def m_deref0(I, fr, st, t, args, key):
    a = args[0]
    if isinstance(a, RefV):
        tid = None
        return ret1(st, I.load(fr, st, a.lv, tid, t['loc']))
    return None


def m_ptr_arith(I, fr, st, t, args, key):
    p, n = args[0], args[1]
    callee = I.P.instances[key]
    size, _, _ = pointee_size(I, callee)
    name = key.rsplit('::', 1)[1]
    if name.startswith('byte_'):
        size = 1
    if not isinstance(p, PtrV) or size is None:
        I.note(f"pointer arithmetic on an untracked pointer in {fr.inst.path}")
        return ret1(st, TopV())
    e = I.as_int(st, n) * size
    if name in ('sub', 'byte_sub', 'wrapping_sub'):
        off = p.off - e
    else:
        off = p.off + e
    if not name.startswith('wrapping'):
        reg = I.regions[p.r]
        ok = st.store.entails_le(-off) and st.store.entails_le(off - V(reg.L))
        # language-level UB that is not a read: recorded as a note class, not a C05 verdict input
        I.ob('ARITH', fr, t['loc'], name, ok, '' if ok else
             f"{name}: result offset {st.store.nf(off)} not proved within [0, len] of {reg.name}")
    return ret1(st, PtrV(p.r, off))


def m_ptr_read(I, fr, st, t, args, key):
    callee = I.P.instances[key]
    size, align, tid = pointee_size(I, callee)
    aligned = not key.rstrip('>').endswith('read_unaligned') and 'read_unaligned' not in key
    v = I.read_mem(fr, st, args[0], tid, t['loc'], aligned=aligned, why=key.rsplit('::', 1)[1].split('<')[0])
    return ret1(st, v)


def m_offset_from(I, fr, st, t, args, key):
    a, b = args[0], args[1]
    callee = I.P.instances[key]
    size, _, _ = pointee_size(I, callee)
    ok = isinstance(a, PtrV) and isinstance(b, PtrV) and a.r == b.r
    I.ob('DIST', fr, t['loc'], 'offset_from-same-object', ok, '' if ok else 'offset_from on pointers not known to be in one object')
    if ok and size:
        d = a.off - b.off
        if size == 1:
            return ret1(st, IntV(d))
        q = fresh('q')
        st.store.add_eq(d - size * V(q))
        return ret1(st, IntV(V(q)))
    return ret1(st, I.fresh_of_type(st, opt_tid_of_dest(I, fr, t), 'dist'))


def m_is_null(I, fr, st, t, args, key):
    if isinstance(args[0], (PtrV, SliceV, RefV)):
        return ret1(st, BoolV(('c', False)))
    return ret1(st, BoolV(('unk',)))


def as_slice(I, fr, st, v, loc):
    if isinstance(v, SliceV):
        return v
    if isinstance(v, RefV):
        x = I.load(fr, st, v.lv, None, loc)
        if isinstance(x, SliceV):
            return x
    return None


def m_slice_len(I, fr, st, t, args, key):
    s = as_slice(I, fr, st, args[0], t['loc'])
    if s is None:
        return None
    return ret1(st, IntV(s.n))


def m_slice_as_ptr(I, fr, st, t, args, key):
    s = as_slice(I, fr, st, args[0], t['loc'])
    if s is None:
        return None
    return ret1(st, s.ptr)


def m_slice_is_empty(I, fr, st, t, args, key):
    s = as_slice(I, fr, st, args[0], t['loc'])
    if s is None:
        return None
    return ret1(st, BoolV(('eq', s.n)))


def range_bounds(I, st, rng, s, key):
    """(start, end) LinExprs of a core::ops::Range* value applied to slice s"""
    kind = re.search(r'core::ops::(Range\w*)<usize>', key).group(1)
    f = rng.fields if isinstance(rng, AdtV) and rng.fields is not None else None
    if kind == 'RangeFull':
        return ZERO, s.n
    if f is None:
        return None
    if kind == 'RangeFrom':
        return I.as_int(st, f[0]), s.n
    if kind == 'RangeTo':
        return ZERO, I.as_int(st, f[0])
    if kind == 'Range':
        return I.as_int(st, f[0]), I.as_int(st, f[1])
    if kind == 'RangeToInclusive':
        return ZERO, I.as_int(st, f[0]) + 1
    if kind == 'RangeInclusive':
        return I.as_int(st, f[0]), I.as_int(st, f[1]) + 1
    return None


def m_slice_index_range(I, fr, st, t, args, key):
    s = as_slice(I, fr, st, args[0], t['loc'])
    if s is None:
        return None
    b = range_bounds(I, st, args[1], s, key)
    if b is None:
        return None
    lo, hi = b
    cond = ('and', ('le', lo - hi), ('le', hi - s.n))
    ok = I.entailed(st, cond)
    I.ob('PANIC', fr, t['loc'], 'slice-range-index', ok, '' if ok else
         f"cannot prove {st.store.nf(lo)} <= {st.store.nf(hi)} <= len {st.store.nf(s.n)}", t.get('macros'))
    if not I.assume(st, cond):
        return []
    return ret1(st, SliceV(PtrV(s.ptr.r, s.ptr.off + lo * s.esz), hi - lo, s.esz))


def m_slice_get_range(I, fr, st, t, args, key):
    s = as_slice(I, fr, st, args[0], t['loc'])
    if s is None:
        return None
    b = range_bounds(I, st, args[1], s, key)
    if b is None:
        return None
    lo, hi = b
    tid = opt_tid_of_dest(I, fr, t)
    cond = ('and', ('le', lo - hi), ('le', hi - s.n))
    out = []
    if not I.refuted(st, cond):
        s1 = st.copy()
        if I.assume(s1, cond):
            out.append((s1, mk_option(I, tid, SliceV(PtrV(s.ptr.r, s.ptr.off + lo * s.esz), hi - lo, s.esz))))
    if not I.entailed(st, cond):
        s2 = st.copy()
        if I.assume(s2, ('or', ('le', hi - lo + 1), ('le', s.n - hi + 1))):
            out.append((s2, mk_option(I, tid, None)))
    return out


def m_slice_get_usize(I, fr, st, t, args, key):
    s = as_slice(I, fr, st, args[0], t['loc'])
    if s is None:
        return None
    i = I.as_int(st, args[1])
    tid = opt_tid_of_dest(I, fr, t)
    out = []
    inb = ('le', i - s.n + 1)
    if not I.refuted(st, inb):
        s1 = st.copy()
        if I.assume(s1, inb):
            out.append((s1, mk_option(I, tid, PtrV(s.ptr.r, s.ptr.off + i * s.esz))))
    if not I.entailed(st, inb):
        s2 = st.copy()
        if I.assume(s2, ('le', s.n - i)):
            out.append((s2, mk_option(I, tid, None)))
    return out


def m_slice_first_last(I, fr, st, t, args, key):
    s = as_slice(I, fr, st, args[0], t['loc'])
    if s is None:
        return None
    tid = opt_tid_of_dest(I, fr, t)
    last = key.endswith('::last')
    out = []
    ne = ('le', C(1) - s.n)
    if not I.refuted(st, ne):
        s1 = st.copy()
        if I.assume(s1, ne):
            idx = (s.n - 1) if last else ZERO
            out.append((s1, mk_option(I, tid, PtrV(s.ptr.r, s.ptr.off + idx * s.esz))))
    if not I.entailed(st, ne):
        s2 = st.copy()
        if I.assume(s2, ('eq', s.n)):
            out.append((s2, mk_option(I, tid, None)))
    return out


def m_slice_split_at(I, fr, st, t, args, key):
    s = as_slice(I, fr, st, args[0], t['loc'])
    if s is None:
        return None
    mid = I.as_int(st, args[1])
    cond = ('le', mid - s.n)
    ok = I.entailed(st, cond)
    I.ob('PANIC', fr, t['loc'], 'split_at', ok, '' if ok else 'cannot prove mid <= len', t.get('macros'))
    if not I.assume(st, cond):
        return []
    tid = opt_tid_of_dest(I, fr, t)
    a = SliceV(s.ptr, mid, s.esz)
    b = SliceV(PtrV(s.ptr.r, s.ptr.off + mid * s.esz), s.n - mid, s.esz)
    return ret1(st, AdtV(tid, 0, [a, b]))


def int_ty_of(I, key):
    m = re.search(r'<impl (\w+)>', key) or re.search(r'<(\w+) as ', key) or re.search(r'::<(\w+)>$', key)
    name = m.group(1)
    bits = {'usize': I.ptr_bits, 'isize': I.ptr_bits}.get(name) or int(re.sub(r'\D', '', name))
    return {'kind': 'int', 'bits': bits, 'signed': name.startswith('i'), 'name': name}


def m_checked(I, fr, st, t, args, key):
    ty = int_ty_of(I, key)
    a, b = I.as_int(st, args[0]), I.as_int(st, args[1])
    e = a - b if 'checked_sub' in key else a + b
    lo, hi = I.int_range(ty)
    tid = opt_tid_of_dest(I, fr, t)
    fits = ('and', ('le', C(lo) - e), ('le', e - hi))
    out = []
    if not I.refuted(st, fits):
        s1 = st.copy()
        if I.assume(s1, fits):
            out.append((s1, mk_option(I, tid, IntV(e))))
    if not I.entailed(st, fits):
        s2 = st.copy()
        if I.assume(s2, negate(fits)):
            out.append((s2, mk_option(I, tid, None)))
    return out


def m_saturating(I, fr, st, t, args, key):
    ty = int_ty_of(I, key)
    a, b = I.as_int(st, args[0]), I.as_int(st, args[1])
    lo, hi = I.int_range(ty)
    sub = 'saturating_sub' in key
    e = a - b if sub else a + b
    fits = ('le', C(lo) - e) if sub else ('le', e - hi)
    out = []
    if not I.refuted(st, fits):
        s1 = st.copy()
        if I.assume(s1, fits):
            out.append((s1, IntV(e)))
    if not I.entailed(st, fits):
        s2 = st.copy()
        if I.assume(s2, negate(fits)):
            out.append((s2, IntV(C(lo if sub else hi))))
    return out


def m_wrapping(I, fr, st, t, args, key):
    ty = int_ty_of(I, key)
    name = key.rsplit('::', 1)[1]
    a = I.as_int(st, args[0])
    b = I.as_int(st, args[1]) if len(args) > 1 else None
    if name == 'wrapping_add':
        return ret1(st, I.wrap_or_fresh(st, a + b, ty, 'wadd'))
    if name == 'wrapping_sub':
        return ret1(st, I.wrap_or_fresh(st, a - b, ty, 'wsub'))
    if name == 'wrapping_mul':
        e = I.mul(st, a, b, ty)
        if e is not None:
            return ret1(st, I.wrap_or_fresh(st, e, ty, 'wmul'))
    return ret1(st, I.fresh_int(st, ty, 'wrap'))


def m_bitcount(I, fr, st, t, args, key):
    ty = int_ty_of(I, key)
    s = fresh('bits')
    st.store.add_range(V(s), 0, ty['bits'])
    return ret1(st, IntV(V(s)))


def m_int_opaque(I, fr, st, t, args, key):
    return ret1(st, I.fresh_int(st, int_ty_of(I, key), 'io'))


def m_maxmin(I, fr, st, t, args, key):
    a, b = I.as_int(st, args[0]), I.as_int(st, args[1])
    is_max = '::max' in key.rsplit('>', 1)[-1] or key.endswith('::max') or '::max::<' in key
    if st.store.entails_le(a - b):
        return ret1(st, IntV(b if is_max else a))
    if st.store.entails_le(b - a):
        return ret1(st, IntV(a if is_max else b))
    out = []
    s1 = st.copy()
    s1.store.add_le(a - b)
    out.append((s1, IntV(b if is_max else a)))
    s2 = st.copy()
    s2.store.add_le(b - a + 1)
    out.append((s2, IntV(a if is_max else b)))
    return out


def m_try_from(I, fr, st, t, args, key):
    m = re.search(r'TryFrom<(\w+)> for (\w+)>', key)
    dst = m.group(2)
    bits = {'usize': I.ptr_bits, 'isize': I.ptr_bits}.get(dst) or int(re.sub(r'\D', '', dst))
    ty = {'kind': 'int', 'bits': bits, 'signed': dst.startswith('i')}
    e = I.as_int(st, args[0])
    lo, hi = I.int_range(ty)
    tid = opt_tid_of_dest(I, fr, t)
    rty = I.P.types[tid]
    fits = ('and', ('le', C(lo) - e), ('le', e - hi))
    out = []
    if not I.refuted(st, fits):
        s1 = st.copy()
        if I.assume(s1, fits):
            out.append((s1, AdtV(tid, 0, [IntV(e)])))          # Ok(e)
    if not I.entailed(st, fits):
        s2 = st.copy()
        if I.assume(s2, negate(fits)):
            errty = rty['variants'][1]['fields'][0]['ty']
            out.append((s2, AdtV(tid, 1, [I.zst_or_fresh(s2, errty)])))
    return out


def m_mem_swap(I, fr, st, t, args, key):
    a, b = args[0], args[1]
    if isinstance(a, RefV) and isinstance(b, RefV):
        va, vb = I.load(fr, st, a.lv, None, t['loc']), I.load(fr, st, b.lv, None, t['loc'])
        I.store_lv(fr, st, a.lv, vb, None, t['loc'])
        I.store_lv(fr, st, b.lv, va, None, t['loc'])
        return ret1(st, AdtV(opt_tid_of_dest(I, fr, t), 0, []))
    return None


def m_size_of(I, fr, st, t, args, key):
    callee = I.P.instances[key]
    targ = callee.j.get('targs', [None])[0]
    ty = I.P.types[targ] if targ is not None else {}
    which = 'size' if 'size_of' in key else 'align'
    if which in ty:
        return ret1(st, IntV(C(ty[which])))
    return None


def m_atomic_load(I, fr, st, t, args, key):
    a = args[0]
    path = None
    if isinstance(a, TermV) and a.t[0] == 'static':
        path = a.t[1]
    elif isinstance(a, RefV) and isinstance(a.lv, LVObj) and isinstance(a.lv.obj, tuple) and a.lv.obj[0] == 'static':
        path = a.lv.obj[1]
    fs = I.models.ifunc_sets.get(path) if path else None
    if fs:
        # IFUNC-SET: every value any thread can ever observe in this static
        return ret1(st, FnV(fs))
    I.note(f"atomic load from an untracked static in {fr.inst.path}")
    return ret1(st, FnV(None))


def m_atomic_store(I, fr, st, t, args, key):
    return ret1(st, AdtV(opt_tid_of_dest(I, fr, t), 0, []))


def m_unknown_bool(I, fr, st, t, args, key):
    s = fresh('feat')
    st.store.add_range(V(s), 0, 1)
    return ret1(st, IntV(V(s)))


def m_vec_load(I, fr, st, t, args, key, size=16, align=1):
    p = args[0]
    if isinstance(p, SliceV):
        p = p.ptr
    I.read_mem(fr, st, p, None, t['loc'], aligned=align > 1, why=key.rsplit('::', 1)[1], size=size, align=align)
    if isinstance(p, PtrV):
        return ret1(st, TermV(('load', p.r, st.store.nf(p.off), size)))
    return ret1(st, TermV(('vec', fresh('vec'))))


def m_vendor_pure(I, fr, st, t, args, key):
    """any other vendor intrinsic: a pure function of its arguments"""
    name = key.rsplit('::', 1)[1] if '::<' not in key else key.split('::<')[0].rsplit('::', 1)[1]
    # an intrinsic that takes a pointer and is not in the load table would be an unmodelled memory access
    for a in args:
        if isinstance(a, (PtrV, SliceV)):
            I.ob('READ', fr, t['loc'], name, False, f"vendor intrinsic {name} takes a pointer but has no memory model")
    tid = opt_tid_of_dest(I, fr, t)
    ty = I.P.types[tid]
    targs = tuple(getattr(a, 't', None) if isinstance(a, TermV) else (st.store.nf(a.e) if isinstance(a, IntV) else repr(a)) for a in args)
    if ty['kind'] == 'int':
        return ret1(st, I.fresh_int(st, ty, name))
    return ret1(st, TermV((name,) + targs))


def term_width(tm, default=None):
    """vector width in bytes of a vector/mask term"""
    if isinstance(tm, tuple):
        if tm and tm[0] == 'load':
            return tm[3]
        if tm and tm[0] == 'splatw':
            return tm[2]
        for x in tm[1:]:
            w = term_width(x)
            if w:
                return w
    return default


def vec_bytes_of_key(I, key):
    m = re.match(r'^<(.*?) as vector::', key) or re.search(r'impl vector::\w+ for ([^>]*)>', key)
    s = m.group(1) if m else ''
    if '__m256i' in s:
        return 32
    if 'SensibleMoveMask' in s:
        return None
    return 16


def m_vector_op(I, fr, st, t, args, key):
    if not I.models.e3:
        return None
    name = key.rsplit('::', 1)[1]
    w = vec_bytes_of_key(I, key)
    ts = [a.t if isinstance(a, TermV) else ('opaque', repr(a)) for a in args]
    if name == 'splat':
        return ret1(st, TermV(('splat', st.store.nf(I.as_int(st, args[0])))))
    if name in ('cmpeq', 'and', 'or'):
        a, b = ts
        if name in ('and', 'or', 'cmpeq') and repr(b) < repr(a):
            a, b = b, a        # commutative: canonical order
        return ret1(st, TermV((name, a, b)))
    if name in ('movemask', 'movemask_will_have_non_zero'):
        # the lane laws (E6) of these two methods are stated for vectors whose lanes are all-ones / all-zeros (the NEON
        # movemask reads bit 7 of even and bit 3 of odd lanes): the argument must be built from comparisons
        ok = bool_lanes(ts[0])
        I.ob('AXIOM-PRE', fr, t['loc'], f'{name}: argument has Boolean lanes', ok,
             '' if ok else f"{name} applied to a vector that is not a cmpeq result or an and/or of such: {str(ts[0])[:120]}")
    if name == 'movemask':
        return ret1(st, TermV(('movemask', ts[0], w)))
    if name == 'movemask_will_have_non_zero':
        return ret1(st, BoolV(('pred', True, 'nz', ts[0])))
    return None


def bool_lanes(t):
    """is the vector term lane-wise Boolean (every lane 0x00 or 0xFF)?"""
    if not isinstance(t, tuple) or not t:
        return False
    if t[0] == 'cmpeq':
        return True
    if t[0] in ('and', 'or'):
        return bool_lanes(t[1]) and bool_lanes(t[2])
    return False


def lanemask(T, lo):
    """a lane mask known as: the lanes of term T, with every lane below `lo` cleared.  Encoded as an AdtV with
    a synthetic type id so that `lo` is generalised / tracked like any integer field (Houdini leaf)."""
    return AdtV(('lanemask', T), 0, [IntV(lo)])


def as_lanemask(v):
    if isinstance(v, AdtV) and isinstance(v.tid, tuple) and v.tid and v.tid[0] == 'lanemask' and isinstance(v.fields[0], IntV):
        return v.tid[1], v.fields[0].e
    return None


def m_mask_op(I, fr, st, t, args, key):
    if not I.models.e3:
        return None
    name = key.rsplit('::', 1)[1]
    lms = [as_lanemask(a) for a in args]
    if any(lms):
        return m_lanemask_op(I, fr, st, t, args, key, name, lms)
    # an untracked mask value is a fresh, unique term (never `None`: facts about one unknown mask must not
    # be confused with facts about another)
    ts = [a.t if isinstance(a, TermV) else ('vec', fresh('mask')) for a in args]
    if name == 'and' and len(ts) == 2 and all(x is not None for x in ts):
        # mask & all_zeros_except_least_significant(k): the lanes of the mask from lane k on
        for a, b in ((ts[0], ts[1]), (ts[1], ts[0])):
            if isinstance(b, tuple) and b and b[0] == 'keep_from' and isinstance(b[1], LinExpr) and isinstance(a, tuple) and a and a[0] == 'movemask':
                return ret1(st, lanemask(a, b[1]))
    if name == 'has_non_zero':
        return ret1(st, BoolV(('pred', True, 'nz', ts[0])))
    if name in ('first_offset', 'last_offset'):
        w = mask_width(ts[0]) or 32
        o = fresh('lane')
        st.store.add_range(V(o), 0, w - 1)
        nz = I.models.entailed_pred(I, st, ('pred', True, 'nz', ts[0]))
        I.ob('AXIOM-PRE', fr, t['loc'], name, nz, '' if nz else f"{name} applied to a mask not known to be non-zero")
        g = dict(st.ghost.get('lanes', {}))
        g[o] = (name, ts[0])
        st.ghost['lanes'] = g
        return ret1(st, IntV(V(o)))
    if name == 'count_ones':
        from . import e3
        leaf = e3.cmpeq_leaf(nz_strip(ts[0])) if ts[0] is not None else None
        if leaf is not None and 'search' in st.ghost:
            n, r, off, size = leaf
            return ret1(st, IntV(e3.count_of(I, st, r, n, off, off + size)))     # axiom: popcount of the lane mask
        w = mask_width(ts[0]) or 32
        o = fresh('cnt')
        st.store.add_range(V(o), 0, w)
        g = dict(st.ghost.get('counts', {}))
        g[o] = ts[0]
        st.ghost['counts'] = g
        return ret1(st, IntV(V(o)))
    if name == 'clear_least_significant_bit':
        return ret1(st, TermV(('clear_lsb', ts[0])))
    if name == 'all_zeros_except_least_significant':
        return ret1(st, TermV(('keep_from', st.store.nf(I.as_int(st, args[0])))))
    if name in ('and', 'or'):
        return ret1(st, TermV(('m' + name, ts[0], ts[1])))
    return None


def m_lanemask_op(I, fr, st, t, args, key, name, lms):
    T, lo = lms[0] if lms[0] else (None, None)
    if name == 'has_non_zero' and lms[0]:
        return ret1(st, BoolV(('pred', True, 'nzfrom', (T, st.store.nf(lo)))))
    if name == 'first_offset' and lms[0]:
        # AXIOM (weak, holds for every backend incl. the NEON mask that under-clears): `m.and(all_zeros_except_least_
        # significant(lo))` keeps every lane >= lo of m; lanes below lo may or may not survive.  So the first set lane o
        # is either >= lo (then lanes [lo, o) of m are clear), or a surviving lane below lo: two successor states.
        w = mask_width(T) or 32
        nz = I.models.entailed_pred(I, st, ('pred', True, 'nzfrom', (T, st.store.nf(lo))))
        I.ob('AXIOM-PRE', fr, t['loc'], name, nz, '' if nz else f"{name} applied to a mask not known to be non-zero")
        outs = []
        for case in ('kept', 'below'):
            s2 = st.copy() if case == 'kept' else st
            o = fresh('lane')
            s2.store.add_range(V(o), 0, w - 1)
            if case == 'kept':
                s2.store.add_le(lo - V(o))
            else:
                s2.store.add_le(V(o) + 1 - lo)
            if not (s2.store.is_sat() and s2.store.check_sat()):
                continue
            g = dict(s2.ghost.get('lanes', {}))
            g[o] = (name, T)
            s2.ghost['lanes'] = g
            gl = dict(s2.ghost.get('lane_lo', {}))
            gl[o] = (term_key(T, s2.store), s2.store.nf(lo), case)
            s2.ghost['lane_lo'] = gl
            if case == 'kept':
                from . import e3
                e3.on_lanes_clear(I, s2, T, lo, V(o))           # lanes [lo, o) are clear
            outs.append((s2, IntV(V(o))))
        return outs
    if name == 'clear_least_significant_bit' and lms[0]:
        # the lowest set lane is the one first_offset reported for this very mask
        tk, lk = term_key(T, st.store), st.store.nf(lo)
        for o, (tk2, lo2, case) in st.ghost.get('lane_lo', {}).items():
            if tk2 == tk and st.store.nf(lo2) == lk:
                # clearing the first set lane o: every lane >= max(lo, o + 1) of T is still there
                return ret1(st, lanemask(T, V(o) + 1 if case == 'kept' else lo))
        return ret1(st, TermV(('vec', fresh('mask'))))
    return ret1(st, TermV(('vec', fresh('mask'))))


def mask_width(tm):
    if isinstance(tm, tuple):
        if tm and tm[0] == 'movemask':
            return tm[2] or term_width(tm[1])
        for x in tm[1:]:
            w = mask_width(x)
            if w:
                return w
    return None


def m_has_zero_byte(I, fr, st, t, args, key):
    """axiom: has_zero_byte(x) iff some byte of x is zero (bit trick from 'Matters Computational'; trusted)"""
    if not I.models.e3:
        return None
    a = args[0]
    if isinstance(a, TermV):
        return ret1(st, BoolV(('pred', True, 'zerobyte', a.t)))
    return ret1(st, BoolV(('unk',)))


def m_fn_shim(I, fr, st, t, args, key):
    """<fn item as Fn*>::call*(self, (args,)) : call the fn item"""
    callee = I.P.instances.get(key)
    if callee is not None and callee.has_body:
        return None      # the shim body itself is exported: just inline it
    return None


def m_intrinsic(I, fr, st, t, args, key):
    name = key.split('::')[2].split('<')[0] if key.startswith('core::intrinsics::') else key
    tid = opt_tid_of_dest(I, fr, t)
    ty = I.P.types[tid]
    if name in ('unreachable',):
        sat = st.store.check_sat()
        I.ob('UB', fr, t['loc'], 'unreachable_unchecked', not sat, 'intrinsics::unreachable reached' if sat else '')
        return []
    if name in ('assume',):
        v = args[0]
        I.assume(st, I.truth_atom(st, v))
        return ret1(st, AdtV(tid, 0, []))
    if name in ('likely', 'unlikely', 'black_box'):
        return ret1(st, args[0])
    if name in ('cold_path',):
        return ret1(st, AdtV(tid, 0, []))
    if name in ('ub_checks', 'overflow_checks', 'contract_checks'):
        return ret1(st, BoolV(('c', False)))
    if name in ('ptr_offset_from', 'ptr_offset_from_unsigned'):
        return m_offset_from(I, fr, st, t, args, key)
    if name in ('offset', 'arith_offset'):
        p = args[0]
        if isinstance(p, PtrV):
            callee = I.P.instances[key]
            size, _, _ = pointee_size(I, callee)
            if size is not None:
                return ret1(st, PtrV(p.r, p.off + I.as_int(st, args[1]) * size))
        return ret1(st, TopV(tid))
    if name in ('ctpop', 'cttz', 'ctlz', 'cttz_nonzero', 'ctlz_nonzero'):
        s = fresh('bits')
        st.store.add_range(V(s), 0, 128)
        return ret1(st, I.fresh_int(st, ty, name) if ty['kind'] == 'int' else TopV(tid))
    if name in ('size_of', 'align_of', 'min_align_of'):
        return m_size_of(I, fr, st, t, args, key.replace('min_align_of', 'align_of'))
    if name in ('read_via_copy', 'volatile_load', 'unaligned_volatile_load'):
        callee = I.P.instances[key]
        size, align, ptid = pointee_size(I, callee)
        return ret1(st, I.read_mem(fr, st, args[0], ptid, t['loc'], aligned=(name == 'read_via_copy'), why=name))
    if name in ('transmute', 'transmute_unchecked'):
        return ret1(st, args[0] if isinstance(args[0], (FnV, PtrV)) else I.fresh_of_type(st, tid, 'tm'))
    if name.startswith('wrapping_') or name.startswith('unchecked_') or name.startswith('saturating_') or name in ('rotate_left', 'rotate_right', 'bswap', 'bitreverse', 'exact_div'):
        if ty['kind'] == 'int':
            a = I.as_int(st, args[0])
            b = I.as_int(st, args[1]) if len(args) > 1 else None
            if name in ('unchecked_add',):
                return ret1(st, IntV(a + b))
            if name in ('unchecked_sub',):
                return ret1(st, IntV(a - b))
            if name == 'wrapping_add':
                return ret1(st, I.wrap_or_fresh(st, a + b, ty, 'wadd'))
            if name == 'wrapping_sub':
                return ret1(st, I.wrap_or_fresh(st, a - b, ty, 'wsub'))
            return ret1(st, I.fresh_int(st, ty, name))
    if name in ('write_via_move', 'copy', 'copy_nonoverlapping', 'write_bytes', 'typed_swap_nonoverlapping', 'volatile_store'):
        I.ob('WRITE', fr, t['loc'], name, False, f"memory-writing intrinsic {name}")
        return ret1(st, AdtV(tid, 0, []))
    if name in ('ptr_metadata',):
        a = args[0]
        if isinstance(a, SliceV):
            return ret1(st, IntV(a.n))
    if name in ('slice_get_unchecked',):
        return None
    if name in ('abort',):
        return []
    if name in ('three_way_compare',):
        return ret1(st, TopV(tid))
    if name in ('select_unpredictable',):
        return None
    if name in ('const_eval_select', 'const_allocate', 'is_val_statically_known'):
        if name == 'is_val_statically_known':
            return ret1(st, BoolV(('c', False)))
        return None
    if name in ('add_with_overflow', 'sub_with_overflow', 'mul_with_overflow'):
        return None
    I.note(f"intrinsic {name} not modelled: result havocked")
    return ret1(st, I.fresh_of_type(st, tid, name))


def nz_strip(t):
    """normal form for lane-set reasoning: movemask(x) -> x, mask-or/and -> or/and (commutative, ordered)"""
    if isinstance(t, tuple) and t:
        if t[0] == 'movemask':
            return nz_strip(t[1])
        if t[0] in ('or', 'mor', 'and', 'mand'):
            a, b = nz_strip(t[1]), nz_strip(t[2])
            if repr(b) < repr(a):
                a, b = b, a
            return ('or' if t[0] in ('or', 'mor') else 'and', a, b)
    return t


def nz_leaves(t):
    t = nz_strip(t)
    if isinstance(t, tuple) and t and t[0] in ('or', 'mor'):
        return nz_leaves(t[1]) + nz_leaves(t[2])
    return [t]


def nz_eval_struct(preds, t):
    """three-valued evaluation from the structure only (children), ignoring a direct fact for t itself"""
    t = nz_strip(t)
    if isinstance(t, tuple) and t and t[0] in ('or', 'mor'):
        a, b = nz_eval(preds, t[1]), nz_eval(preds, t[2])
        if a is True or b is True:
            return True
        if a is False and b is False:
            return False
        return None
    if isinstance(t, tuple) and t and t[0] in ('and', 'mand'):
        a, b = nz_eval(preds, t[1]), nz_eval(preds, t[2])
        if a is False or b is False:
            return False
        return None
    return None


def nz_eval(preds, t):
    t = nz_strip(t)
    v = preds.get(('nz', t))
    if v is not None:
        return v
    return nz_eval_struct(preds, t)


def nz_record(preds, t, val):
    t = nz_strip(t)
    preds[('nz', t)] = val
    if isinstance(t, tuple) and t:
        if not val and t[0] in ('or', 'mor'):
            nz_record(preds, t[1], False)
            nz_record(preds, t[2], False)
        if val and t[0] in ('and', 'mand'):
            nz_record(preds, t[1], True)
            nz_record(preds, t[2], True)


# ---------------------------------------------------------------------------- iterators
def iter_tid(base, rev=False, copied=False, enum=False):
    return ('iter', base, rev, copied, enum)


def to_iter(I, st, v):
    if isinstance(v, AdtV) and isinstance(v.tid, tuple) and v.tid[0] == 'iter':
        return v
    if isinstance(v, AdtV) and not isinstance(v.tid, tuple):
        ty = I.P.types[v.tid]
        if ty.get('path') == 'core::ops::Range' and v.fields is not None:
            return AdtV(iter_tid('range'), 0, [IntV(I.as_int(st, v.fields[0])), IntV(I.as_int(st, v.fields[1])), AdtV(v.tid, 0, []), IntV(ZERO)])
    return None


def m_iter_new(I, fr, st, t, args, key):
    s_ = as_slice(I, fr, st, args[0], t['loc'])
    if s_ is None:
        return None
    return ret1(st, AdtV(iter_tid('slice'), 0, [IntV(ZERO), IntV(s_.n), s_, IntV(ZERO)]))


def m_iter_op(I, fr, st, t, args, key):
    name = re.search(r'>::(\w+)(::<.*>)?$', key).group(1)
    a0 = args[0]
    ref = None
    if isinstance(a0, RefV):
        ref = a0
        a0 = I.load(fr, st, ref.lv, None, t['loc'])
    it = to_iter(I, st, a0)
    if it is None:
        I.note(f"iterator operation {name} on an untracked iterator value in {fr.inst.path}")
        return None if False else ret1(st, I.havoc_call(fr, st, t, args, key))
    _, base, rev, copied, enum = it.tid
    lo, hi, bv, eoff = it.fields[0].e, it.fields[1].e, it.fields[2], it.fields[3].e

    def mk(lo=lo, hi=hi, rev=rev, copied=copied, enum=enum, eoff=eoff):
        return AdtV(iter_tid(base, rev, copied, enum), 0, [IntV(lo), IntV(hi), bv, IntV(eoff)])

    if name in ('into_iter', 'by_ref'):
        return ret1(st, a0 if name == 'into_iter' else args[0])
    if name == 'rev':
        if enum:
            raise Unsupported('rev() after enumerate() is not modelled')
        return ret1(st, mk(rev=not rev))
    if name in ('copied', 'cloned'):
        return ret1(st, mk(copied=True))
    if name == 'enumerate':
        if rev:
            raise Unsupported('enumerate() after rev() is not modelled')
        return ret1(st, mk(enum=True, eoff=lo))
    if name in ('take', 'skip'):
        n = I.as_int(st, args[1])
        out = []
        # remaining length is hi - lo (>= 0 or empty)
        if name == 'take':
            cand = (lo + n) if not rev else (hi - n)
            # new bound = min(hi, lo+n)   resp.  max(lo, hi-n)
            a, b = (cand, hi) if not rev else (lo, cand)
        else:
            cand = (lo + n) if not rev else (hi - n)
            a, b = (cand, hi) if not rev else (lo, cand)
        # decide  cand <= hi (not rev)  /  cand >= lo (rev)
        cond = ('le', cand - hi) if not rev else ('le', lo - cand)
        for truth in (True, False):
            at = cond if truth else negate(cond)
            if I.refuted(st, at):
                continue
            s2 = st.copy()
            if not I.assume(s2, at):
                continue
            if name == 'take':
                v = mk(hi=cand) if (truth and not rev) else (mk(lo=cand) if (truth and rev) else mk())
            else:
                if truth:
                    v = mk(lo=cand) if not rev else mk(hi=cand)
                else:
                    v = mk(lo=hi) if not rev else mk(hi=lo)      # skipped everything: empty
            out.append((s2, v))
        return out
    if name == 'next':
        tid = opt_tid_of_dest(I, fr, t)
        oty = I.P.types[tid]
        item_tid = oty['variants'][1]['fields'][0]['ty']
        out = []
        nonempty = ('le', lo - hi + 1)
        if not I.refuted(st, nonempty):
            s1 = st.copy()
            if I.assume(s1, nonempty):
                idx = lo if not rev else hi - 1
                newit = mk(lo=lo + 1) if not rev else mk(hi=hi - 1)
                if base == 'slice':
                    ptr = PtrV(bv.ptr.r, bv.ptr.off + idx * bv.esz)
                    if copied:
                        inner = I.read_mem(fr, s1, ptr, _elem_tid(I, item_tid, enum), t['loc'], aligned=False, why='iter-copied')
                    else:
                        inner = ptr
                else:
                    inner = IntV(idx)
                item = AdtV(item_tid, 0, [IntV(idx - eoff), inner]) if enum else inner
                if ref is not None:
                    I.store_lv(fr, s1, ref.lv, newit, None, t['loc'])
                out.append((s1, mk_option(I, tid, item)))
        if not I.entailed(st, nonempty):
            s2 = st.copy()
            if I.assume(s2, ('le', hi - lo)):
                out.append((s2, mk_option(I, tid, None)))
        return out
    return None


def _elem_tid(I, item_tid, enum):
    if enum:
        return I.P.types[item_tid]['fields'][1]
    return item_tid
