"""Obligations, reports, evidence, violations, known findings."""
import json, os, time

VERIF = os.path.dirname(os.path.dirname(os.path.abspath(__file__)))
# test tooling only (tools/sweep.py analyses scratch worktrees in parallel): where evidence / violation files go
OUT = os.environ.get('VERIF_OUT', VERIF)


class Ob:
    """One rule instance / proof obligation.

    key   : stable identity (rule | function path | role) -- never a line number
    where : file:line for humans
    ok    : True (discharged) / False (violated or unknown -> fail closed)
    """
    __slots__ = ('rule', 'key', 'where', 'cfg', 'ok', 'detail', 'nontrivial')

    def __init__(self, rule, key, ok, where='', cfg='', detail='', nontrivial=True):
        self.rule, self.key, self.ok = rule, key, bool(ok)
        self.where, self.cfg, self.detail = where, cfg, detail
        self.nontrivial = nontrivial

    def ident(self):
        return f"{self.rule}|{self.key}"

    def to_json(self):
        return {'rule': self.rule, 'key': self.key, 'ok': self.ok, 'where': self.where,
                'cfg': self.cfg, 'detail': self.detail}


class Report:
    def __init__(self, pid, level, explanation, trusted_base=None, assumptions=None):
        self.pid = pid
        self.level = level            # 'proof' | 'other'
        self.explanation = explanation
        self.trusted_base = trusted_base or []
        self.assumptions = assumptions or []
        self.obs = []
        self.floors = []              # (name, measured, floor)
        self.extra = {}
        self.notes = []

    def add(self, *a, **kw):
        ob = Ob(*a, **kw)
        self.obs.append(ob)
        return ob

    def floor(self, name, measured, floor):
        """Fail closed when a rule matched fewer instances than were confirmed by hand."""
        self.floors.append((name, measured, floor))
        if measured < floor:
            self.add('FLOOR', name, False, detail=f"matched {measured} instances, expected at least {floor} "
                     f"(anchor missing or rule vacuous)")
        else:
            self.add('FLOOR', name, True, detail=f"{measured} >= {floor}", nontrivial=False)

    def anchor_missing(self, what, cfg=''):
        self.add('ANCHOR-MISSING', what, False, cfg=cfg, detail='anchor could not be resolved; re-confirm the rule by hand')


def load_known():
    p = os.path.join(VERIF, 'known_findings.json')
    if not os.path.exists(p):
        return {'findings': [], 'fixed': []}
    return json.load(open(p))


def finish(report, tier, seed, t0, argv):
    """Write evidence, print VIOLATION / KNOWN-FINDING lines, return exit code."""
    pid = report.pid
    known = load_known()
    kf = {(f['property'], f['key']): f for f in known.get('findings', [])}
    failed = [o for o in report.obs if not o.ok]
    new = []
    seen_known = set()
    for o in failed:
        k = (pid, o.ident())
        if k in kf:
            if k not in seen_known:
                print(f"KNOWN-FINDING: property={pid} {o.ident()} -- {kf[k].get('what', '')}")
                seen_known.add(k)
        else:
            new.append(o)
    outdir = os.path.join(OUT, 'out', 'violations')
    os.makedirs(outdir, exist_ok=True)
    # clear stale violation files of this property
    for f in os.listdir(outdir):
        if f.startswith(pid + '-'):
            os.remove(os.path.join(outdir, f))
    dedup = {}
    for o in new:
        dedup.setdefault(o.ident(), []).append(o)
    n = 0
    for ident, os_ in dedup.items():
        n += 1
        o = os_[0]
        cfgs = sorted({x.cfg for x in os_ if x.cfg})
        path = os.path.join(outdir, f"{pid}-{n}.json")
        json.dump({'property': pid, 'rule': o.rule, 'key': o.key, 'where': o.where, 'configs': cfgs,
                   'detail': o.detail, 'all': [x.to_json() for x in os_]}, open(path, 'w'), indent=1)
        print(f"{o.where or '?'}: [{o.rule}] {o.key} ({','.join(cfgs)}): {o.detail}")
        print(f"VIOLATION property={pid} replay={path}")
    total = len(report.obs)
    ok = sum(1 for o in report.obs if o.ok)
    nontrivial = len({o.ident() for o in report.obs if o.nontrivial})
    by_rule = {}
    for o in report.obs:
        r = by_rule.setdefault(o.rule, [0, 0])
        r[0] += 1
        r[1] += 1 if o.ok else 0
    samples = []
    seen_rules = set()
    for o in report.obs:
        if o.rule not in seen_rules and o.rule != 'FLOOR':
            seen_rules.add(o.rule)
            samples.append(o.to_json())
    for o in report.obs:
        if len(samples) >= 12:
            break
        if o.nontrivial and o.to_json() not in samples:
            samples.append(o.to_json())
    cov = {
        'obligations': total,
        'discharged': ok,
        'checker_cmd': ' '.join(argv),
        'trusted_base': report.trusted_base,
        'evaluations': max(total, 1),
        'distinct_nontrivial': nontrivial,
        'rule': 'one obligation per (rule, anchored code site, configuration); non-trivial = needed a '
                'dataflow/dominance/entailment query rather than a count comparison; distinct by (rule,key)',
        'explanation': report.explanation,
        'by_rule': {k: {'instances': v[0], 'held': v[1]} for k, v in sorted(by_rule.items())},
        'floors': [{'name': a, 'measured': b, 'floor': c} for a, b, c in report.floors],
        'samples': samples or [{'note': 'no obligations generated'}],
        'notes': report.notes,
        'known_findings_matched': len(seen_known),
    }
    cov.update(report.extra)
    ev = {
        'property_id': pid, 'tier': tier, 'seed': seed, 'level': report.level,
        'coverage': cov, 'assumptions': report.assumptions,
        'wall_s': round(time.time() - t0, 2), 'violations': len(dedup),
    }
    os.makedirs(os.path.join(OUT, 'evidence'), exist_ok=True)
    json.dump(ev, open(os.path.join(OUT, 'evidence', pid + '.json'), 'w'), indent=1)
    print(f"{pid}: {ok}/{total} obligations held, {len(dedup)} violation(s), "
          f"{len(seen_known)} known finding(s), {ev['wall_s']}s [{tier}]")
    return 1 if dedup else 0
