"""C18 specifications on top of the EQ ghost: what `true` / `false` of the comparison helpers mean."""
import re
from .lin import LinExpr
from .absval import *
from . import eqg

C = LinExpr.const

ROOTS = re.compile(r'^arch::all::(is_equal_raw|is_equal|is_prefix|is_suffix)$')


class _Fr:
    def __init__(self, inst):
        self.inst = inst


def _ranges(inst, args):
    """(region A, start A, region B, start B, n, side condition atoms that must hold for `true`)"""
    name = inst.path.rsplit('::', 1)[-1]
    if name == 'is_equal_raw':
        x, y, n = args
        if isinstance(x, PtrV) and isinstance(y, PtrV) and isinstance(n, IntV):
            return x.r, x.off, y.r, y.off, n.e, []
        return None
    a, b = args
    if not (isinstance(a, SliceV) and isinstance(b, SliceV)):
        return None
    if name == 'is_equal':
        return a.ptr.r, a.ptr.off, b.ptr.r, b.ptr.off, a.n, [('eq', a.n - b.n)]
    if name == 'is_prefix':      # (haystack, needle)
        return a.ptr.r, a.ptr.off, b.ptr.r, b.ptr.off, b.n, [('le', b.n - a.n)]
    if name == 'is_suffix':
        return a.ptr.r, a.ptr.off + a.n - b.n, b.ptr.r, b.ptr.off, b.n, [('le', b.n - a.n)]
    return None


def check(I, inst, results, args):
    if not ROOTS.match(inst.path):
        return
    fr = _Fr(inst)
    name = inst.path.rsplit('::', 1)[-1]
    rg = _ranges(inst, args)
    if rg is None:
        I.ob('EQ-SPEC', fr, inst.loc, f'{name}: compared ranges identified', False, 'arguments not tracked')
        return
    ra, a, rb, b, n, side = rg
    n_true = n_false = 0
    split = []
    for st, ret in results:
        if not (st.store.is_sat() and st.store.check_sat()):
            continue
        atom = I.truth_atom(st, ret)
        if atom[0] == 'pred' and not I.entailed(st, atom) and not I.refuted(st, atom):
            # the result is the (summarised) answer of an inner comparison: both of its meanings
            for at in (atom, negate(atom)):
                s2 = st.copy()
                if I.assume(s2, at) and s2.store.is_sat() and s2.store.check_sat():
                    split.append((s2, BoolV(('c', at is atom))))
        else:
            split.append((st, ret))
    for st, ret in split:
        atom = I.truth_atom(st, ret)
        if I.entailed(st, atom):
            n_true += 1
            ok_side = all(I.entailed(st, s_) for s_ in side)
            ok_cov = eqg.covered(st, ra, a, rb, b, n, I)
            I.ob('EQ-TRUE', fr, inst.loc, f'{name}: true => lengths fit and every byte of the range was compared equal', ok_side and ok_cov,
                 '' if ok_side and ok_cov else f"side conditions {'hold' if ok_side else 'NOT entailed'}; compared-equal interval {eqg.get(st, *eqg._orient(st, ra, a, rb, b)[0::2])} "
                 f"does not cover [{st.store.nf(a)}, +{st.store.nf(n)})")
        elif I.refuted(st, atom):
            n_false += 1
            ok = any(I.refuted(st, s_) for s_ in side) or eqg.diff_inside(st, ra, a, rb, b, n)
            I.ob('EQ-FALSE', fr, inst.loc, f'{name}: false => lengths do not fit, or a compared chunk inside the range differs', ok,
                 '' if ok else f"no differing chunk recorded inside the range; witnesses {st.ghost.get('eqdiff', ())}")
        else:
            I.ob('EQ-SPEC', fr, inst.loc, f'{name}: result determined on every path', False, f'return value {ret} not decided by the path condition')
    I.ob('EQ-SPEC', fr, inst.loc, f'{name}: both answers are reachable (non-vacuous)', n_true > 0 and n_false > 0,
         f'{n_true} true path(s), {n_false} false path(s)')
