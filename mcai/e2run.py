"""Run the E2/E3 interpreter on roots of a configuration."""
import sys, time, traceback, json, os
from . import prog as progmod, ifunc
from .lin import LinExpr, fresh
from .absval import *
from .interp import Interp, Unsupported
from .models import Models

V = LinExpr.var
C = LinExpr.const


def make_interp(P, e3=True, cut_set=None):
    sets = {p: set(st.fnset().keys()) for p, st in ifunc.analyse(P).items()}
    import os
    return Interp(P, Models(P, sets, e3=e3), {'debug': os.environ.get('MCAI_DEBUG'), 'trace_loops': os.environ.get('MCAI_TRACE_LOOPS'), 'cut_set': cut_set})


def fresh_args(I, inst, st):
    args = []
    names = {}
    for d in inst.j.get('debug', []):
        if not d['p']['pr'] and 1 <= d['p']['l'] <= inst.arg_count:
            names[d['p']['l']] = d['name']
    for i in range(1, inst.arg_count + 1):
        args.append(I.fresh_of_type(st, inst.locals[i], names.get(i, f'arg{i}')))
    return args


def root_args(I, inst, st, contract=None):
    """abstract arguments for analysing `inst` as a root.  contract: optional callable
    (I, inst, st, args) -> args that imposes a documented precondition."""
    args = []
    names = {}
    for d in inst.j.get('debug', []):
        if not d['p']['pr'] and 1 <= d['p']['l'] <= inst.arg_count:
            names[d['p']['l']] = d['name']
    for i in range(1, inst.arg_count + 1):
        args.append(I.fresh_of_type(st, inst.locals[i], names.get(i, f'arg{i}')))
    if contract:
        args = contract(I, inst, st, args)
    return args


def raw_range_contract(start_idx, end_idx):
    """documented contract of the *_raw functions: start and end point into (or one past)
    the same allocated object; NO order is assumed ("callers may pass start >= end")."""
    def c(I, inst, st, args):
        rid = I.new_region(st, 'haystack')
        reg = I.regions[rid]
        s, e = fresh('start'), fresh('end')
        st.store.add_range(V(s), 0, None)
        st.store.add_le(V(s) - V(reg.L))
        st.store.add_range(V(e), 0, None)
        st.store.add_le(V(e) - V(reg.L))
        args[start_idx] = PtrV(rid, V(s))
        args[end_idx] = PtrV(rid, V(e))
        return args
    return c


def run_root(P, key, contract=None, e3=True, time_budget=120, I=None, cut_set=None):
    inst = P.instances[key]
    I = I or make_interp(P, e3, cut_set)
    st = State()
    t0 = time.time()
    # CPU time of this process, not wall time: a loaded machine must not turn into 'time budget exceeded'
    I.deadline = time.process_time() + time_budget
    res = {'root': key, 'ok': True, 'error': None}
    try:
        args = root_args(I, inst, st, contract)
        res['args'] = args
        from . import mm
        outs = []
        for s_i, a_i in mm.root_states(I, inst, st, args):
            outs += I.run_root(inst, a_i, s_i, key)
        res['outcomes'] = len(outs)
        res['results'] = outs
    except Unsupported as e:
        res['ok'] = False
        res['error'] = f"UNSUPPORTED: {e}"
    except RecursionError as e:
        res['ok'] = False
        res['error'] = 'UNSUPPORTED: recursion depth'
    res['time'] = time.time() - t0
    res['interp'] = I
    return res


if __name__ == '__main__':
    from . import context
    cfg, pat = sys.argv[1], sys.argv[2]
    ctx = context.Context('quick')
    P = ctx.prog(cfg)
    xs = P.find(pat)
    for inst in xs:
        from . import contracts
        vs = contracts.variants_for(P, inst)
        import os as _os
        if _os.environ.get('MCAI_VARIANT'):
            vs = [v for v in vs if _os.environ['MCAI_VARIANT'] in v[0]] or vs
            print('variant', vs[0][0])
        contract = vs[0][1]
        from . import e2all
        r = run_root(P, inst.key, contract, cut_set=None if '--nocut' in sys.argv else e2all.cut_set_for(P) - {inst.key})
        if not r['error']:
            contracts.post_invariants(r['interp'], inst, r['results'], r.get('args', []))
            from . import mm
            mm.check_root_post(r['interp'], inst, r['results'], r.get('args', []))
            mm.check_domain(r['interp'], inst, vs[0][0], r['results'])
            mm.check_spec_post(r['interp'], inst, r['results'], r.get('args', []))
            mm.check_iter_post(r['interp'], inst, r['results'], r.get('args', []))
            mm.check_period_test(r['interp'], inst, r['results'], r.get('args', []))
            mm.check_verified(r['interp'], inst, r['results'], r.get('args', []))
            from . import eqspec
            eqspec.check(r['interp'], inst, r['results'], r.get('args', []))
            if vs[0][2]:
                vs[0][2](r['interp'], inst, r['results'])
        I = r['interp']
        print('===', inst.key, 'time %.2fs' % r['time'], 'error', r['error'], 'outcomes', r.get('outcomes'))
        print('   stats', I.stats)
        from collections import Counter
        c = Counter((o.kind, o.ok) for o in I.obs)
        print('   obligations', dict(c))
        shown = set()
        for o in I.obs:
            if not o.ok and o.site() not in shown:
                shown.add(o.site())
                print('   FAIL', o.kind, o.path, o.loc, o.role, '|', o.detail[:200])
        for n in I.notes[:20]:
            print('   note', n)
        if '-v' in sys.argv:
            for (k, h, nl, nc) in I.loop_invs:
                print('   loop', k, 'bb', h, 'leaves', nl, 'invariants', nc)
