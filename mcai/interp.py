"""E2 -- abstract interpreter over the exported monomorphic MIR.

Path-sensitive forward interpretation with inlining of callees; states are
merged at loop heads, where loop invariants are found Houdini-style from a
template (difference bounds, sums, congruences).  Every raw read, aligned
access, pointer distance, panic site and rule-specific post-condition becomes
an obligation that must be entailed by the linear store."""
import re
import sys, time
from .lin import LinExpr, Store, fresh, ZERO, ONE
from .absval import *
from .prog import liveness, no_return_blocks

V = LinExpr.var
C = LinExpr.const

MAX_DEPTH = 60
CALL_JOIN = 4
JOIN_AFTER = re.compile(r'^memmem::searcher::(Pre::<.*>::|PrefilterState::)')
STATES_CAP = 512          # join when more states than this wait at one block


class Unsupported(Exception):
    pass


class Ob:
    __slots__ = ('kind', 'inst', 'path', 'loc', 'role', 'ok', 'detail', 'root', 'macros', 'extra')

    def __init__(self, kind, inst, loc, role, ok, detail='', root='', macros=None, extra=None):
        self.kind, self.inst, self.path, self.loc = kind, inst.key, inst.path, loc
        self.role, self.ok, self.detail, self.root = role, ok, detail, root
        self.macros = macros or []
        self.extra = extra

    def site(self):
        return (self.kind, self.inst, self.loc, self.role)


class Frame:
    __slots__ = ('inst', 'fid', 'depth', 'live', 'addr_taken', 'noret', 'loops', 'rpo_idx', 'parent', 'memo_pos')

    def __init__(self, inst, fid, depth, parent=None):
        self.inst, self.fid, self.depth, self.parent = inst, fid, depth, parent
        from . import mm
        self.memo_pos = mm.memo_pos_local(inst)       # Two-Way small-period loops: the local holding `pos`
        self.live, self.addr_taken = liveness(inst)
        self.noret = no_return_blocks(inst)
        self.loops = inst.natural_loops()
        self.rpo_idx = {b: i for i, b in enumerate(inst.rpo())}


class Interp:
    def __init__(self, prog, models, opts=None):
        self.P = prog
        self.models = models
        self.opts = opts or {}
        self.regions = {}
        self.obs = []
        self.notes = []
        self.silent = 0          # >0 while in non-final Houdini passes
        self.root = ''
        self.next_frame = [1]
        self.next_obj = [1]
        self.stack = []
        self.stats = {'blocks': 0, 'calls': 0, 'loops': 0, 'houdini_rounds': 0, 'cands': 0, 'cands_kept': 0,
                      'merges': 0, 'forks': 0}
        self.ptr_bits = prog.pointer_bits
        self.usize_max = (1 << self.ptr_bits) - 1
        self.isize_max = (1 << (self.ptr_bits - 1)) - 1
        self.deadline = None
        self.loop_invs = []
        self.cur_state = None
        self.pinned = []
        self.cut_set = self.opts.get('cut_set') or frozenset()
        self.cuts = {}

    # ------------------------------------------------------------------ regions / fresh values
    def new_region(self, st, name, kind='input', min_len=0, elem=1):
        rid = len(self.regions) + 1
        A, L = fresh('A'), fresh('L')
        self.regions[rid] = Region(rid, A, L, kind, name)
        st.store.add_le(C(min_len) - V(L))                       # L >= min_len
        st.store.add_le(V(L) - self.isize_max)                   # L <= isize::MAX
        st.store.add_le(C(1) - V(A))                             # A >= 1 (non-null)
        st.store.add_le(V(A) + V(L) - self.usize_max)            # no wrap-around
        return rid

    def int_range(self, ty):
        bits = ty['bits']
        if ty['signed']:
            return -(1 << (bits - 1)), (1 << (bits - 1)) - 1
        return 0, (1 << bits) - 1

    def fresh_int(self, st, ty, name='v'):
        s = fresh(name)
        lo, hi = self.int_range(ty)
        st.store.add_range(V(s), lo, hi)
        return IntV(V(s))

    def fresh_of_type(self, st, tid, name='v', depth=0):
        ty = self.P.types[tid]
        k = ty['kind']
        if k == 'int':
            return self.fresh_int(st, ty, name)
        if k == 'bool':
            s = fresh(name)
            st.store.add_range(V(s), 0, 1)
            return IntV(V(s))
        if k == 'char':
            s = fresh(name)
            st.store.add_range(V(s), 0, 0x10FFFF)
            return IntV(V(s))
        if k in ('ref', 'ptr'):
            to = self.P.types[ty['to']]
            if to['kind'] == 'slice' or to['kind'] == 'str':
                esz = self.P.types[to['elem']].get('size', 1) if to['kind'] == 'slice' else 1
                if k == 'ptr':
                    return TopV(tid)
                rid = self.new_region(st, name)
                n = fresh(name + '_len')
                st.store.add_le(-V(n))
                st.store.add_eq(V(n) * esz - V(self.regions[rid].L))
                return SliceV(PtrV(rid, ZERO), V(n), esz)
            if k == 'ptr':
                return TopV(tid)
            if depth > 6:
                return TopV(tid)
            if to['kind'] in ('dyn', 'param', 'foreign', 'other', 'never'):
                return TopV(tid)
            oid = self.next_obj[0]
            self.next_obj[0] += 1
            st.heap[oid] = self.fresh_of_type(st, ty['to'], name, depth + 1)
            return RefV(LVObj(oid))
        if k == 'adt':
            if ty.get('simd'):
                return TermV(('vec', fresh('vec')))
            hook = self.models.type_hook(self, st, tid, ty, name)
            if hook is not None:
                return hook
            if ty['adt_kind'] == 'struct':
                if depth > 8:
                    return TopV(tid)
                fs = [self.fresh_of_type(st, f['ty'], f"{name}.{f['name']}", depth + 1) for f in ty['variants'][0]['fields']]
                return AdtV(tid, 0, fs)
            if ty['adt_kind'] == 'enum':
                if len(ty['variants']) == 1:
                    fs = [self.fresh_of_type(st, f['ty'], f"{name}.{f['name']}", depth + 1) for f in ty['variants'][0]['fields']]
                    return AdtV(tid, 0, fs)
                return AdtV(tid, None, None)
            if ty['adt_kind'] == 'union':
                return UnionV(tid, None, None)
        if k == 'tuple':
            fs = [self.fresh_of_type(st, f, f"{name}.{i}", depth + 1) for i, f in enumerate(ty['fields'])]
            return AdtV(tid, 0, fs)
        if k == 'array':
            return ArrV(tid, ty.get('len'))
        if k == 'fndef':
            c = ty.get('callee')
            return FnV([c['inst']]) if c else FnV(None)
        if k == 'fnptr':
            return FnV(None)
        if k == 'closure':
            fs = [self.fresh_of_type(st, f, f"{name}.up{i}", depth + 1) for i, f in enumerate(ty['upvars'])]
            return AdtV(tid, 0, fs)
        if k == 'never':
            return TopV(tid)
        return TopV(tid)

    # ------------------------------------------------------------------ obligations
    def ob(self, kind, frame, loc, role, ok, detail='', macros=None, extra=None):
        if self.silent:
            return
        dbg = self.opts.get('debug')
        if dbg and not ok and dbg in f"{kind}:{loc}" and self.cur_state is not None:
            print(f"--- DEBUG failing {kind} at {loc} ({role}) in {frame.inst.key}: {detail}", file=sys.stderr)
            print(f"    stack: {self.stack}", file=sys.stderr)
            print(f"    store: {self.cur_state.store}", file=sys.stderr)
        if not ok and len(self.stack) > 1:
            detail = (detail + ' ' if detail else '') + 'via ' + ' > '.join(x.split('::<')[0].rsplit('::', 2)[-2] + '::' + x.split('::<')[0].rsplit('::', 1)[-1] if '::' in x else x for x in self.stack[-5:])
        self.obs.append(Ob(kind, frame.inst, loc, role, ok, detail, self.root, macros, extra))

    def note(self, msg):
        if not self.silent and msg not in self.notes:
            self.notes.append(msg)

    # ------------------------------------------------------------------ lvalues
    def lv_of_place(self, fr, st, place, for_write=False):
        lv = LVLocal(fr.fid, place['l'])
        tid = fr.inst.locals[place['l']]
        for e in place['pr']:
            k = e['k']
            if k == 'deref':
                v = self.load(fr, st, lv, tid)
                lv = self.deref(v, e['ty'])
            elif k == 'field':
                if isinstance(lv, (LVLocal, LVObj)):
                    lv = lv.ext(('u' if e.get('union') else 'f', e['i']))
                elif isinstance(lv, LVMem):
                    lv = LVUnknown(e['ty'])      # field of a struct in raw memory: not tracked
                else:
                    lv = LVUnknown(e['ty'])
            elif k == 'downcast':
                if isinstance(lv, (LVLocal, LVObj)):
                    lv = lv.ext(('v', e['v']))
                else:
                    lv = LVUnknown(e['ty'])
            elif k == 'index':
                idx = self.as_int(st, st.frames[fr.fid].get(e['l']))
                base_ty = self.P.types[tid]
                if isinstance(lv, LVSlice):
                    lv = LVElem(lv.s, idx, e['ty'])
                else:
                    lv = LVUnknown(e['ty'])      # element of a local array: contents not tracked
            elif k == 'constindex':
                if isinstance(lv, LVSlice):
                    idx = C(e['offset']) if not e['from_end'] else lv.s.n - e['offset']
                    lv = LVElem(lv.s, idx, e['ty'])
                else:
                    lv = LVUnknown(e['ty'])
            else:
                lv = LVUnknown(e['ty'])
            tid = e['ty']
        return lv, tid

    def deref(self, v, tid):
        if isinstance(v, RefV):
            return v.lv
        if isinstance(v, PtrV):
            return LVMem(v, tid)
        if isinstance(v, SliceV):
            return LVSlice(v)
        if isinstance(v, TermV) and v.t and v.t[0] == 'static':
            return LVObj(('static', v.t[1]))      # the static itself: an abstract global object
        return LVUnknown(tid)

    def nav(self, val, path, tid_hint=None):
        """navigate value by path steps; returns Val or None if unknown"""
        for step in path:
            kind, i = step
            if kind == 'v':
                if isinstance(val, AdtV) and val.variant == i:
                    continue
                return None
            if kind == 'f':
                if isinstance(val, AdtV) and val.fields is not None and i < len(val.fields):
                    val = val.fields[i]
                else:
                    return None
            elif kind == 'u':
                if isinstance(val, UnionV) and val.active == i and val.val is not None:
                    val = val.val
                else:
                    return None
        return val

    def load(self, fr, st, lv, tid, loc='', why='load'):
        if isinstance(lv, LVLocal):
            base = st.frames.get(lv.frame, {}).get(lv.local)
            if base is None:
                return self.fresh_of_type(st, tid, 'uninit') if not lv.path else self.fresh_of_type(st, tid, 'u')
            v = self.nav(base, lv.path)
            if any(step[0] == 'u' for step in lv.path):
                self.check_union_read(fr, st, base, lv.path, loc)
            if v is None:
                return self.fresh_of_type(st, tid, 'fld')
            return v
        if isinstance(lv, LVObj):
            base = st.heap.get(lv.obj)
            v = self.nav(base, lv.path) if base is not None else None
            if base is not None and any(step[0] == 'u' for step in lv.path):
                self.check_union_read(fr, st, base, lv.path, loc)
            if v is None:
                return self.fresh_of_type(st, tid, 'fld')
            return v
        if isinstance(lv, LVMem):
            return self.read_mem(fr, st, lv.ptr, tid, loc, aligned=True, why='deref')
        if isinstance(lv, LVElem):
            ty = self.P.types[tid]
            esz = lv.s.esz
            p = PtrV(lv.s.ptr.r, lv.s.ptr.off + lv.idx * esz)
            return self.read_mem(fr, st, p, tid, loc, aligned=False, why='index')
        if isinstance(lv, LVSlice):
            return lv.s
        return self.fresh_of_type(st, tid, 'unk') if tid is not None else TopV()

    def check_union_read(self, fr, st, base, path, loc):
        """UNION obligation: reading a union field that is not known to be the active one"""
        val = base
        for step in path:
            kind, i = step
            if kind == 'u':
                ok = isinstance(val, UnionV) and val.active == i
                self.ob('UNION', fr, loc, f'union-field#{i}', ok,
                        '' if ok else f"read of union field {i} while active field is {getattr(val, 'active', '?')}")
                return
            if kind == 'f' and isinstance(val, AdtV) and val.fields is not None and i < len(val.fields):
                val = val.fields[i]
            elif kind == 'v':
                continue
            else:
                return

    def set_nav(self, base, path, v, tid_base):
        """functional update of base along path"""
        if not path:
            return v
        kind, i = path[0]
        if kind == 'f':
            if isinstance(base, AdtV) and base.fields is not None and i < len(base.fields):
                return base.with_field(i, self.set_nav(base.fields[i], path[1:], v, None))
            return TopV()
        if kind == 'v':
            if isinstance(base, AdtV) and base.variant == i:
                return self.set_nav(base, path[1:], v, None)
            return TopV()
        if kind == 'u':
            if len(path) == 1:
                tid = base.tid if isinstance(base, UnionV) else tid_base
                return UnionV(tid, i, v)
            if isinstance(base, UnionV) and base.active == i:
                return UnionV(base.tid, i, self.set_nav(base.val, path[1:], v, None))
            return TopV()
        return TopV()

    def store_lv(self, fr, st, lv, v, tid, loc=''):
        if isinstance(lv, LVLocal):
            fl = st.frames.setdefault(lv.frame, {})
            if not lv.path:
                fl[lv.local] = v
            else:
                base = fl.get(lv.local)
                fl[lv.local] = self.set_nav(base, lv.path, v, None)
            return
        if isinstance(lv, LVObj):
            if not lv.path:
                st.heap[lv.obj] = v
            else:
                st.heap[lv.obj] = self.set_nav(st.heap.get(lv.obj), lv.path, v, None)
            return
        if isinstance(lv, (LVMem, LVElem)):
            self.ob('WRITE', fr, loc, 'raw-write', False, 'write through a raw pointer / slice element')
            return
        # unknown target: cannot track
        return

    def addr_of(self, lv):
        if isinstance(lv, (LVLocal, LVObj)):
            return RefV(lv)
        if isinstance(lv, LVMem):
            return lv.ptr
        if isinstance(lv, LVSlice):
            return lv.s
        if isinstance(lv, LVElem):
            return PtrV(lv.s.ptr.r, lv.s.ptr.off + lv.idx * lv.s.esz)
        return TopV()

    # ------------------------------------------------------------------ memory reads
    def read_mem(self, fr, st, p, tid, loc, aligned, why, size=None, align=None):
        ty = self.P.types[tid] if tid is not None else {}
        size = size if size is not None else ty.get('size')
        align = align if align is not None else (ty.get('align', 1) if aligned else 1)
        if not isinstance(p, PtrV):
            self.ob('READ', fr, loc, why, False, f"read of {size} bytes through an untracked pointer")
            return self.fresh_of_type(st, tid, 'rd') if tid is not None else TopV()
        reg = self.regions[p.r]
        if size is None:
            self.ob('READ', fr, loc, why, False, 'read of unknown size')
        else:
            lo_ok = st.store.entails_le(-p.off)
            hi_ok = st.store.entails_le(p.off + size - V(reg.L))
            ok = lo_ok and hi_ok
            det = f"{size} bytes at {reg.name}+({st.store.nf(p.off)}), len {sym(reg.L)}"
            if not ok:
                det += f"; cannot prove {'0 <= offset' if not lo_ok else ''}{' and ' if not lo_ok and not hi_ok else ''}{'offset+%d <= len' % size if not hi_ok else ''}"
            self.ob('READ', fr, loc, why, ok, det)
            # after the read, the access was in bounds (else UB): assume it to avoid cascades
            st.store.add_le(-p.off)
            st.store.add_le(p.off + size - V(reg.L))
        if align and align > 1:
            ok = st.store.divisible(V(reg.A) + p.off, align)
            self.ob('ALIGN', fr, loc, why, ok, f"address {reg.name}+({st.store.nf(p.off)}) must be a multiple of {align}")
        return self.mem_value(st, p, tid, size)

    def mem_value(self, st, p, tid, size):
        ty = self.P.types[tid] if tid is not None else {}
        if ty.get('kind') == 'int':
            if size == 1:
                v = self.byte_at(st, p)
                return v
            if self.models.e3 and size in (2, 4, 8, 16):
                return TermV(('load', p.r, st.store.nf(p.off), size))
            return self.fresh_int(st, ty, 'mem')
        if ty.get('kind') == 'adt' and ty.get('simd'):
            return TermV(('load', p.r, st.store.nf(p.off), size))
        return self.fresh_of_type(st, tid, 'mem') if tid is not None else TopV()

    def byte_at(self, st, p):
        """the byte stored at p: a symbol memoised per (region, offset) in this state"""
        key = ('byte', p.r, st.store.nf(p.off))
        g = st.ghost.setdefault('bytes', {})
        s = g.get(key)
        if s is None:
            s = fresh('byte')
            st.store.add_range(V(s), 0, 255)
            g = dict(g)
            g[key] = s
            st.ghost['bytes'] = g
        return IntV(V(s))

    # ------------------------------------------------------------------ operands / rvalues
    def as_int(self, st, v):
        if isinstance(v, IntV):
            return v.e
        if isinstance(v, BoolV):
            a = v.a
            if a[0] == 'c':
                return C(1 if a[1] else 0)
            s = fresh('b')
            st.store.add_range(V(s), 0, 1)
            return V(s)
        s = fresh('i')
        return V(s)

    def const_val(self, fr, st, o):
        ty = self.P.types[o['ty']]
        ck = o.get('ck')
        if ck == 'int':
            if ty['kind'] == 'bool':
                return BoolV(('c', bool(o['v'])))
            return IntV(C(o['v']))
        if ck == 'adt':
            fs = [self.const_val(fr, st, f) for f in o.get('fields', [])]
            return AdtV(o['ty'], o.get('variant', 0), fs)
        if ck == 'opaque':
            return self.fresh_of_type(st, o['ty'], 'const')
        if ck == 'fn':
            c = ty.get('callee')
            return FnV([c['inst']]) if c else FnV(None)
        if ck == 'zst':
            if ty['kind'] in ('adt', 'tuple', 'closure'):
                return self.zst_value(o['ty'])
            return AdtV(o['ty'], 0, [])
        if ck == 'ptr':
            if 'static' in o:
                return TermV(('static', o['static']))
            if 'fn' in o:
                return FnV([o['fn']['inst']])
            if 'bytes' in o:
                to = self.P.types[ty['to']] if ty['kind'] in ('ref', 'ptr') else None
                if to and to['kind'] == 'int':
                    n = to['bits'] // 8
                    bs = o['bytes'][:n]
                    val = int.from_bytes(bytes(bs), self.P.endian)
                    if to['signed'] and val >= 1 << (to['bits'] - 1):
                        val -= 1 << to['bits']
                    oid = self.next_obj[0]
                    self.next_obj[0] += 1
                    st.heap[oid] = IntV(C(val))
                    return RefV(LVObj(oid))
            return TopV(o['ty'])
        return TopV(o['ty'])

    def zst_value(self, tid):
        ty = self.P.types[tid]
        if ty['kind'] == 'adt' and ty['adt_kind'] == 'struct':
            return AdtV(tid, 0, [self.zst_value(f['ty']) for f in ty['variants'][0]['fields']])
        if ty['kind'] == 'tuple':
            return AdtV(tid, 0, [self.zst_value(f) for f in ty['fields']])
        if ty['kind'] == 'closure':
            return AdtV(tid, 0, [self.zst_value(f) for f in ty['upvars']])
        if ty['kind'] == 'fndef':
            c = ty.get('callee')
            return FnV([c['inst']]) if c else FnV(None)
        return AdtV(tid, 0, [])

    def operand(self, fr, st, o, loc=''):
        k = o['k']
        if k == 'const':
            return self.const_val(fr, st, o)
        if k == 'rtcheck':
            return BoolV(('c', bool(o['v'])))
        lv, tid = self.lv_of_place(fr, st, o['p'])
        return self.load(fr, st, lv, tid, loc)

    def cmp_atom(self, st, op, a, b):
        """atom for (a op b) on ints or same-region pointers; None if not comparable"""
        if isinstance(a, PtrV) and isinstance(b, PtrV):
            if a.r != b.r:
                if op in ('Eq', 'Ne') and a.r is not None and b.r is not None:
                    # addresses in two distinct allocations: undecided, but `equal` has a consequence
                    # (one of them is one-past-the-end / zero-sized there) -- see eqg.covered
                    x, y = sorted(((a.r, a.off), (b.r, b.off)), key=lambda t: str(t[0]))
                    return ('pred', op == 'Eq', 'ptreq', (x[0], x[1], y[0], y[1]))
                return None
            ea, eb = a.off, b.off
        elif isinstance(a, (IntV, BoolV)) and isinstance(b, (IntV, BoolV)):
            ea, eb = self.as_int(st, a), self.as_int(st, b)
        else:
            return None
        d = ea - eb
        if op == 'Lt':
            return ('le', d + 1)
        if op == 'Le':
            return ('le', d)
        if op == 'Gt':
            return ('le', -d + 1)
        if op == 'Ge':
            return ('le', -d)
        if op == 'Eq':
            return ('eq', d)
        if op == 'Ne':
            return ('ne', d)
        return None

    def rvalue(self, fr, st, rv, loc):
        """returns list of (state, value) -- most rvalues do not fork"""
        k = rv['k']
        P = self.P
        if k == 'use':
            return [(st, self.operand(fr, st, rv['op'], loc))]
        if k in ('ref', 'rawptr'):
            lv, tid = self.lv_of_place(fr, st, rv['p'])
            return [(st, self.addr_of(lv))]
        if k == 'cast':
            v = self.operand(fr, st, rv['op'], loc)
            return [(st, self.cast(fr, st, rv, v, loc))]
        if k == 'bin':
            a = self.operand(fr, st, rv['a'], loc)
            b = self.operand(fr, st, rv['b'], loc)
            return [(st, self.binop(fr, st, rv, a, b, loc))]
        if k == 'un':
            a = self.operand(fr, st, rv['a'], loc)
            return [(st, self.unop(fr, st, rv, a, loc))]
        if k == 'discr':
            lv, tid = self.lv_of_place(fr, st, rv['p'])
            v = self.load(fr, st, lv, tid, loc)
            if isinstance(v, AdtV) and v.variant is not None:
                return [(st, IntV(C(self.discr_value(tid, v.variant))))]
            ty = P.types[tid]
            if isinstance(v, AdtV) and ty.get('adt_kind') == 'enum' and isinstance(lv, (LVLocal, LVObj)):
                # fork per variant so that later field reads are consistent
                out = []
                self.stats['forks'] += 1
                for vi, var in enumerate(ty['variants']):
                    s2 = st.copy()
                    fs = [self.fresh_of_type(s2, f['ty'], f['name']) for f in var['fields']]
                    self.store_lv(fr, s2, lv, AdtV(tid, vi, fs), tid)
                    out.append((s2, IntV(C(self.discr_value(tid, vi)))))
                return out
            return [(st, self.fresh_of_type(st, rv['ty'], 'discr'))]
        if k == 'agg':
            ops = [self.operand(fr, st, o, loc) for o in rv['ops']]
            ak = rv['ak']
            if ak == 'adt':
                if 'union_field' in rv:
                    return [(st, UnionV(rv['ty'], rv['union_field'], ops[0]))]
                val = AdtV(rv['ty'], rv['variant'], ops)
                self.models.on_aggregate(self, fr, st, rv, val, loc)
                return [(st, val)]
            if ak in ('tuple', 'closure'):
                return [(st, AdtV(rv['ty'], 0, ops))]
            if ak == 'array':
                return [(st, ArrV(rv['ty'], len(ops)))]
            if ak == 'rawptr':
                # (data ptr, metadata) -> fat pointer
                if len(ops) == 2 and isinstance(ops[0], PtrV):
                    n = self.as_int(st, ops[1])
                    ty = P.types[rv['ty']]
                    to = P.types[ty['to']]
                    esz = P.types[to['elem']].get('size', 1) if to['kind'] == 'slice' else 1
                    return [(st, SliceV(ops[0], n, esz))]
                return [(st, TopV(rv['ty']))]
            return [(st, TopV(rv['ty']))]
        if k == 'repeat':
            return [(st, ArrV(rv['ty'], rv.get('n')))]
        return [(st, self.fresh_of_type(st, rv['ty'], 'rv'))]

    def discr_value(self, tid, variant):
        return variant      # all enums analysed here have default discriminants

    def cast(self, fr, st, rv, v, loc):
        ck = rv['ck']
        P = self.P
        to = P.types[rv['ty']]
        frm = P.types[rv['from']]
        if ck == 'IntToInt':
            if isinstance(v, BoolV) and self.models.e3 and 'search' in st.ghost:
                from . import e3
                c = e3.bool_as_count(self, st, v.a)
                if c is not None:
                    return IntV(c)
            e = self.as_int(st, v)
            if to['kind'] == 'int':
                lo, hi = self.int_range(to)
                if st.store.entails_le(C(lo) - e) and st.store.entails_le(e - hi):
                    return IntV(e)
                # truncation / reinterpretation: unknown value in range
                return self.fresh_int(st, to, 'trunc')
            return IntV(e)
        if ck in ('PtrToPtr', 'Coerce:MutToConstPointer', 'Coerce:ArrayToPointer', 'FnPtrToPtr', 'Subtype'):
            if isinstance(v, SliceV) and to['kind'] == 'ptr' and P.types[to['to']]['kind'] not in ('slice', 'str'):
                return v.ptr          # *const [T] -> *const T
            if isinstance(v, RefV) and ck == 'Coerce:ArrayToPointer':
                return v
            return v
        if ck == 'Coerce:Unsize':
            # &[T; N] -> &[T]
            if isinstance(v, RefV) or isinstance(v, PtrV):
                fto = P.types[frm['to']] if frm['kind'] in ('ref', 'ptr') else None
                if fto and fto['kind'] == 'array':
                    n = fto.get('len', 0)
                    esz = P.types[fto['elem']].get('size', 1)
                    if isinstance(v, PtrV):
                        return SliceV(v, C(n), esz)
                    rid = self.new_region(st, 'array', kind='stack', min_len=n * esz)
                    st.store.add_eq(V(self.regions[rid].L) - n * esz)
                    return SliceV(PtrV(rid, ZERO), C(n), esz)
            return v if isinstance(v, SliceV) else TopV(rv['ty'])
        if ck in ('Coerce:ReifyFnPointer(Safe)', 'Coerce:ReifyFnPointer(Unsafe)', 'Coerce:UnsafeFnPointer',
                  'Coerce:ClosureFnPointer(Safe)', 'Coerce:ClosureFnPointer(Unsafe)') or ck.startswith('Coerce:ReifyFnPointer') \
                or ck.startswith('Coerce:ClosureFnPointer'):
            return v
        if ck == 'PointerExposeProvenance' or (ck == 'Transmute' and to['kind'] == 'int' and frm['kind'] in ('ptr', 'ref')):
            if isinstance(v, PtrV):
                return IntV(V(self.regions[v.r].A) + v.off)
            if isinstance(v, SliceV):
                return IntV(V(self.regions[v.ptr.r].A) + v.ptr.off)
            return self.fresh_int(st, to, 'addr') if to['kind'] == 'int' else TopV(rv['ty'])
        if ck == 'Transmute':
            if isinstance(v, FnV):
                if to['kind'] == 'fnptr' and v.fns is not None:
                    self.check_fnptr(fr, st, v, to, loc)
                return v
            if to['kind'] == frm['kind'] == 'int' and to['bits'] == frm['bits'] and to['signed'] == frm['signed']:
                return v
            if isinstance(v, TermV):
                return TermV(('transmute', v.t, rv['ty']))
            # newtype wrappers around a pointer (NonNull<T>, Unique<T>): same bits as the single field
            x = v
            for _ in range(4):
                if isinstance(x, AdtV) and x.fields is not None and not isinstance(x.tid, tuple):
                    nz = [f for f in x.fields if not (isinstance(f, AdtV) and f.fields is not None and len(f.fields) == 0)]
                    if len(nz) == 1:
                        x = nz[0]
                        continue
                break
            if isinstance(x, (PtrV, SliceV, RefV)) and to['kind'] in ('ptr', 'ref'):
                return x
            return self.fresh_of_type(st, rv['ty'], 'tm')
        if ck == 'PointerWithExposedProvenance':
            return TopV(rv['ty'])
        return self.fresh_of_type(st, rv['ty'], 'cast')

    def check_fnptr(self, fr, st, v, to, loc):
        want = tuple(self.P.types[t]['str'] for t in to['sig'])
        bad = []
        for k in v.fns:
            inst = self.P.instances.get(k)
            if inst is None or not inst.has_body:
                bad.append(k)
                continue
            sig = tuple(self.P.types[t]['str'] for t in inst.locals[1:inst.arg_count + 1]) + (self.P.types[inst.locals[0]]['str'],)
            if sig != want:
                bad.append(k)
        self.ob('FNPTR', fr, loc, 'transmute-to-fn-pointer', not bad,
                f"target type {to['str']}; members {sorted(v.fns)}" + (f"; mismatching: {bad}" if bad else ''))

    def wrap_or_fresh(self, st, e, ty, name):
        """value of integer type `ty` for mathematical result e of a NON-checked op (wraps)"""
        lo, hi = self.int_range(ty)
        if st.store.entails_le(C(lo) - e) and st.store.entails_le(e - hi):
            return IntV(e)
        return self.fresh_int(st, ty, name)

    def binop(self, fr, st, rv, a, b, loc):
        op = rv['op']
        P = self.P
        rty = P.types[rv['ty']]
        if op in ('Lt', 'Le', 'Gt', 'Ge', 'Eq', 'Ne'):
            at = self.cmp_atom(st, op, a, b)
            if at is None:
                if isinstance(a, TermV) and isinstance(b, TermV) and op in ('Eq', 'Ne'):
                    return BoolV(('pred', op == 'Eq', 'term_eq', (a.t, b.t)))
                return BoolV(('unk',))
            return BoolV(at)
        if op == 'Offset':
            if isinstance(a, PtrV):
                aty = P.types[rv['aty']]
                esz = P.types[aty['to']].get('size', 1)
                return PtrV(a.r, a.off + self.as_int(st, b) * esz)
            return TopV(rv['ty'])
        if op in ('AddWithOverflow', 'SubWithOverflow', 'MulWithOverflow'):
            ity = P.types[rv['aty']]
            ea, eb = self.as_int(st, a), self.as_int(st, b)
            if op == 'AddWithOverflow':
                e = ea + eb
            elif op == 'SubWithOverflow':
                e = ea - eb
            else:
                e = self.mul(st, ea, eb, ity)
            lo, hi = self.int_range(ity)
            if e is None:
                return AdtV(rv['ty'], 0, [self.fresh_int(st, ity, 'mul'), BoolV(('unk',))])
            ovf = ('or', ('le', e - lo + 1), ('le', C(hi) - e + 1))    # e < lo or e > hi
            return AdtV(rv['ty'], 0, [IntV(e), BoolV(ovf)])
        if isinstance(a, BoolV) or isinstance(b, BoolV):
            if op == 'BitAnd' and isinstance(a, BoolV) and isinstance(b, BoolV):
                return BoolV(('and', a.a, b.a))
            if op == 'BitOr' and isinstance(a, BoolV) and isinstance(b, BoolV):
                return BoolV(('or', a.a, b.a))
            if op == 'BitXor' or op in ('BitAnd', 'BitOr'):
                return BoolV(('unk',))
        if rty['kind'] != 'int':
            if isinstance(a, TermV) or isinstance(b, TermV):
                return TermV((op, getattr(a, 't', a), getattr(b, 't', b)))
            return self.fresh_of_type(st, rv['ty'], 'bin')
        if isinstance(a, TermV) or isinstance(b, TermV):
            return self.models.term_binop(self, st, op, a, b, rty)
        ea, eb = self.as_int(st, a), self.as_int(st, b)
        if op in ('Add', 'AddUnchecked'):
            return self.wrap_or_fresh(st, ea + eb, rty, 'add') if op == 'Add' else IntV(ea + eb)
        if op in ('Sub', 'SubUnchecked'):
            return self.wrap_or_fresh(st, ea - eb, rty, 'sub') if op == 'Sub' else IntV(ea - eb)
        if op in ('Mul', 'MulUnchecked'):
            e = self.mul(st, ea, eb, rty)
            if e is None:
                return self.fresh_int(st, rty, 'mul')
            return self.wrap_or_fresh(st, e, rty, 'mul') if op == 'Mul' else IntV(e)
        if op in ('BitAnd', 'Rem'):
            cb = st.store.const_value(eb)
            if cb is not None:
                m = cb + 1 if op == 'BitAnd' else cb
                if m > 0 and (m & (m - 1)) == 0 and not rty['signed']:
                    return self.low_bits(st, ea, m)
                if op == 'Rem' and m > 0 and not rty['signed']:
                    r = fresh('rem')
                    st.store.add_range(V(r), 0, m - 1)
                    st.store.add_le(V(r) - ea)
                    return IntV(V(r))
            ca = st.store.const_value(ea)
            if ca is not None and op == 'BitAnd':
                m = ca + 1
                if m > 0 and (m & (m - 1)) == 0 and not rty['signed']:
                    return self.low_bits(st, eb, m)
            r = self.fresh_int(st, rty, 'and')
            if op == 'BitAnd' and not rty['signed']:
                st.store.add_le(r.e - ea)
                st.store.add_le(r.e - eb)
            return r
        if op == 'Div':
            cb = st.store.const_value(eb)
            r = self.fresh_int(st, rty, 'div')
            if cb is not None and cb > 0 and not rty['signed']:
                # r = floor(a / c):  c*r <= a <= c*r + c - 1
                st.store.add_le(r.e * cb - ea)
                st.store.add_le(ea - r.e * cb - (cb - 1))
            elif not rty['signed']:
                st.store.add_le(r.e - ea)          # a / b <= a  for b >= 1
                d = dict(st.ghost.get('divs', {}))
                d[r.e.t[0][0]] = (st.store.nf(ea), st.store.nf(eb))      # ghost: r = floor(ea / eb)
                st.ghost['divs'] = d
            return r
        if op in ('Shl', 'ShlUnchecked'):
            cb = st.store.const_value(eb)
            if cb is not None and 0 <= cb < rty['bits']:
                return self.wrap_or_fresh(st, ea * (1 << cb), rty, 'shl')
            return self.fresh_int(st, rty, 'shl')
        if op in ('Shr', 'ShrUnchecked'):
            cb = st.store.const_value(eb)
            r = self.fresh_int(st, rty, 'shr')
            if cb is not None and 0 <= cb < rty['bits'] and not rty['signed']:
                m = 1 << cb
                st.store.add_le(r.e * m - ea)
                st.store.add_le(ea - r.e * m - (m - 1))
            return r
        if op in ('BitOr', 'BitXor'):
            return self.fresh_int(st, rty, 'bits')
        if op == 'Cmp':
            return TopV(rv['ty'])
        return self.fresh_int(st, rty, 'bin')

    def low_bits(self, st, e, m):
        """e mod m for m a power of two, e >= 0:  e = m*q + r, 0 <= r < m"""
        if st.store.divisible(e, m):
            return IntV(ZERO)
        c = st.store.const_value(e)
        if c is not None:
            return IntV(C(c % m))
        # reuse an existing decomposition of the same expression
        key = ('lowbits', st.store.nf(e), m)
        memo = st.ghost.setdefault('decomp', {})
        if key in memo:
            return IntV(V(memo[key]))
        q, r = fresh('q'), fresh('r')
        st.store.add_le(-V(q))
        st.store.add_range(V(r), 0, m - 1)
        st.store.add_eq(e - m * V(q) - V(r))
        memo = dict(memo)
        memo[key] = r
        st.ghost['decomp'] = memo
        return IntV(V(r))

    def mul(self, st, ea, eb, ty):
        ca, cb = st.store.const_value(ea), st.store.const_value(eb)
        if ca is not None:
            return eb * ca
        if cb is not None:
            return ea * cb
        return None

    def unop(self, fr, st, rv, a, loc):
        op = rv['op']
        if op == 'Not':
            if isinstance(a, BoolV):
                return BoolV(negate(a.a))
            ty = self.P.types[rv['ty']]
            if ty['kind'] == 'bool':
                e = self.as_int(st, a)
                return IntV(C(1) - e)
            if isinstance(a, TermV):
                return TermV(('not', a.t))
            return self.fresh_of_type(st, rv['ty'], 'not')
        if op == 'Neg':
            ty = self.P.types[rv['ty']]
            if isinstance(a, IntV) and ty['kind'] == 'int':
                return self.wrap_or_fresh(st, -a.e, ty, 'neg')
            return self.fresh_of_type(st, rv['ty'], 'neg')
        if op == 'PtrMetadata':
            if isinstance(a, SliceV):
                return IntV(a.n)
            return self.fresh_of_type(st, rv['ty'], 'meta')
        return self.fresh_of_type(st, rv['ty'], 'un')

    # ------------------------------------------------------------------ conditions
    def assume(self, st, atom):
        """refine state by atom; returns False when it becomes unsatisfiable"""
        k = atom[0]
        s = st.store
        if k == 'le':
            s.add_le(atom[1])
        elif k == 'eq':
            if self.models.e3:
                from . import eqg
                eqg.on_atom(self, st, atom)
            if self.models.e3 and 'search' in st.ghost:
                from . import e3
                e3.on_eq(self, st, atom[1])      # before the equality eliminates the byte symbol
            s.add_eq(atom[1])
        elif k == 'ne':
            if self.models.e3:
                from . import eqg
                eqg.on_atom(self, st, atom)
            s.add_ne(atom[1])
            if self.models.e3 and 'search' in st.ghost:
                from . import e3
                e3.on_ne(self, st, atom[1])
            e = s.nf(atom[1])
            # x != 0 with x >= 0 known  ->  x >= 1  (and symmetric)
            if s.entails_le(-e):
                s.add_le(-e + 1)
            elif s.entails_le(e):
                s.add_le(e + 1)
        elif k == 'c':
            if not atom[1]:
                s.unsat = True
        elif k == 'and':
            return self.assume(st, atom[1]) and self.assume(st, atom[2])
        elif k == 'or':
            # keep only what both disjuncts give us: if one side is refuted assume the other
            if self.refuted(st, atom[1]):
                return self.assume(st, atom[2])
            if self.refuted(st, atom[2]):
                return self.assume(st, atom[1])
        elif k == 'pred':
            self.models.assume_pred(self, st, atom)
        return not s.unsat

    def entailed(self, st, atom):
        k = atom[0]
        s = st.store
        if s.unsat:
            return True
        if k in ('eq', 'ne') and self.models.e3:
            from . import eqg
            eqg.saturate(self, st, atom)
        if k == 'le':
            return s.entails_le(atom[1])
        if k == 'eq':
            return s.entails_eq(atom[1])
        if k == 'ne':
            return s.entails_ne(atom[1])
        if k == 'c':
            return atom[1]
        if k == 'and':
            return self.entailed(st, atom[1]) and self.entailed(st, atom[2])
        if k == 'or':
            return self.entailed(st, atom[1]) or self.entailed(st, atom[2])
        if k == 'pred':
            return self.models.entailed_pred(self, st, atom)
        return False

    def refuted(self, st, atom):
        try:
            return self.entailed(st, negate(atom))
        except ValueError:
            return False

    def truth_atom(self, st, v):
        """atom meaning 'v is true' for a boolean-ish value"""
        if isinstance(v, BoolV):
            return v.a
        if isinstance(v, IntV):
            return ('ne', v.e)
        return ('unk',)

    # ------------------------------------------------------------------ execution
    def run_root(self, inst, args, st, root_name=None):
        self.root = root_name or inst.key
        self.stack = []
        return self.call_inst(inst, args, st, 0, None)

    def call_inst(self, inst, args, st, depth, parent_frame):
        """inline-execute inst; returns list of (state, return value)"""
        if depth > MAX_DEPTH or inst.key in self.stack:
            raise Unsupported(f"recursion or depth limit at {inst.key}")
        self.stats['calls'] += 1
        fid = self.next_frame[0]
        self.next_frame[0] += 1
        fr = Frame(inst, fid, depth, parent_frame)
        st.frames[fid] = {i + 1: a for i, a in enumerate(args)}
        self.stack.append(inst.key)
        try:
            res = self.run_region(fr, [(0, st)], None, None)
        finally:
            self.stack.pop()
        out = []
        for s2 in res['returns']:
            ret = s2.frames[fid].get(0)
            if ret is None:
                ret = self.zst_or_fresh(s2, inst.locals[0])
            if fr.memo_pos is not None:
                from . import mm
                mm.on_memo_return(self, fr, s2, ret)
            del s2.frames[fid]
            out.append((s2, ret))
        return out

    def zst_or_fresh(self, st, tid):
        ty = self.P.types[tid]
        if ty.get('size') == 0:
            return self.zst_value(tid)
        return self.fresh_of_type(st, tid, 'ret')

    def run_region(self, fr, entries, region, head):
        """priority-worklist execution inside `region` (None = whole function).
        Returns {'returns': [state], 'exits': [(block, state)], 'back': [state]}"""
        pending = {}
        returns, exits, back = [], [], []

        trail = self.opts.get('trace_loops') == '2'

        def route(nb, ns):
            if trail and len(self.stack) <= 6:
                ns.ghost['trail'] = (ns.ghost.get('trail', ()) + ((len(self.stack), nb),))[-40:]
            if nb == 'return':
                returns.append(ns)
            elif head is not None and nb == head:
                back.append(ns)
            elif region is not None and nb not in region:
                exits.append((nb, ns))
            else:
                pending.setdefault(nb, []).append(ns)

        for b, s in entries:
            route(b, s)
        while pending:
            if self.deadline and time.process_time() > self.deadline:
                raise Unsupported('time budget exceeded')
            b = min(pending, key=lambda x: fr.rpo_idx.get(x, 1 << 30))
            states = pending.pop(b)
            if b in fr.loops and b != head:
                r = self.exec_loop(fr, b, states)
                for nb, ns in r['exits']:
                    route(nb, ns)
                for ns in r['returns']:
                    returns.append(ns)
                continue
            if len(states) > STATES_CAP:
                states = self.merge_by_shape(fr, b, states)
            for s in states:
                for nb, ns in self.exec_block(fr, b, s):
                    route(nb, ns)
        return {'returns': returns, 'exits': exits, 'back': back}

    # ---- blocks
    def exec_block(self, fr, b, st):
        """returns list of (next_block | 'return', state)"""
        self.stats['blocks'] += 1
        inst = fr.inst
        if b in fr.noret:
            self.panic_site(fr, b, st)
            return []
        blk = inst.blocks[b]
        states = [st]
        for s in blk['stmts']:
            nxt = []
            for cur in states:
                nxt.extend(self.exec_stmt(fr, cur, s))
            states = nxt
            if not states:
                return []
        out = []
        for cur in states:
            out.extend(self.exec_term(fr, b, cur, blk['term']))
        return out

    def exec_stmt(self, fr, st, s):
        self.cur_state = st
        k = s['k']
        if k == 'assign':
            loc = s['loc']
            res = self.rvalue(fr, st, s['rv'], loc)
            out = []
            for s2, v in res:
                if fr.memo_pos is not None and s['p']['l'] == fr.memo_pos and not s['p']['pr'] and isinstance(v, IntV):
                    old = s2.frames.get(fr.fid, {}).get(fr.memo_pos)
                    if isinstance(old, IntV):
                        s2.ghost['memo_step'] = (fr.fid, s2.store.nf(v.e - old.e))      # size of the last move of `pos`
                lv, tid = self.lv_of_place(fr, s2, s['p'], for_write=True)
                self.store_lv(fr, s2, lv, v, tid, loc)
                out.append(s2)
            return out
        if k == 'setdiscr':
            lv, tid = self.lv_of_place(fr, st, s['p'], for_write=True)
            cur = self.load(fr, st, lv, tid)
            ty = self.P.types[tid]
            if ty.get('kind') == 'adt':
                fs = [self.fresh_of_type(st, f['ty'], f['name']) for f in ty['variants'][s['v']]['fields']]
                self.store_lv(fr, st, lv, AdtV(tid, s['v'], fs), tid)
            return [st]
        if k == 'assume':
            v = self.operand(fr, st, s['op'], s['loc'])
            if not self.assume(st, self.truth_atom(st, v)):
                return []
            return [st]
        if k == 'copy_nonoverlapping':
            self.ob('WRITE', fr, s['loc'], 'copy_nonoverlapping', False, 'raw memory copy')
            return [st]
        return [st]

    def panic_site(self, fr, b, st, pruned=False):
        """record the PANIC obligation of the panic-only region entered at block b"""
        inst = fr.inst
        # find the diverging call to describe the site
        x, seen = b, set()
        desc, loc, macros = 'panic', inst.term(b).get('loc', inst.loc), []
        while x not in seen:
            seen.add(x)
            t = inst.term(x)
            if t['k'] == 'call':
                cp = t['callee'].get('path', '')
                if t['t'] is None or 'panick' in cp or 'panic' in cp:
                    desc, loc, macros = cp, t['loc'], t.get('macros', [])
                    if t['t'] is None:
                        break
            ss = inst.succ(x)
            if not ss:
                if t['k'] not in ('call',):
                    desc = desc if desc != 'panic' else t['k']
                break
            x = ss[0]
        kind = 'PANIC'
        if desc == 'unreachable' or 'unreachable_unchecked' in desc:
            kind = 'UB'
        mac = [m for m in macros if m in ('debug_assert!', 'debug_assert_eq!', 'debug_assert_ne!', 'assert!', 'assert_eq!', 'assert_ne!',
                                          'unreachable!', 'panic!', 'unimplemented!', 'todo!')]
        role = (mac[0] if mac else desc.rsplit('::', 1)[-1])
        if pruned:
            self.ob(kind, fr, loc, role, True, 'unreachable: branch condition refuted', macros)
        else:
            sat = st.store.check_sat()
            self.cur_state = st
            self.ob(kind, fr, loc, role, not sat, 'panic site reachable' if sat else 'unreachable (state unsatisfiable)', macros)

    def exec_term(self, fr, b, st, t):
        self.cur_state = st
        k = t['k']
        inst = fr.inst
        if k == 'goto':
            return [(t['t'], st)]
        if k == 'return':
            return [('return', st)]
        if k == 'drop':
            return [(t['t'], st)]
        if k == 'unreachable':
            sat = st.store.check_sat()
            self.ob('UB', fr, t['loc'], 'unreachable', not sat, 'MIR unreachable terminator reached' if sat else '')
            return []
        if k == 'switch':
            return self.exec_switch(fr, b, st, t)
        if k == 'assert':
            v = self.operand(fr, st, t['cond'], t['loc'])
            atom = self.truth_atom(st, v)
            if not t['expected']:
                atom = negate(atom)
            ok = self.entailed(st, atom)
            self.ob('PANIC', fr, t['loc'], t['msg'], ok,
                    '' if ok else f"cannot prove the {t['msg']} check passes", t.get('macros'))
            if not self.assume(st, atom):
                return []
            return [(t['t'], st)]
        if k == 'call':
            return self.exec_call(fr, b, st, t)
        if k in ('resume', 'terminate'):
            return []
        raise Unsupported(f"terminator {k} in {inst.key}")

    def exec_switch(self, fr, b, st, t):
        v = self.operand(fr, st, t['op'], t['loc'])
        inst = fr.inst
        ty = self.P.types[t['ty']]
        out = []
        cases = t['cases']
        if isinstance(v, BoolV) or ty['kind'] == 'bool':
            atom = self.truth_atom(st, v)
            # case values: 0 => false edge
            false_t = [tt for val, tt in cases if val == 0]
            true_t = [tt for val, tt in cases if val != 0]
            other = t['otherwise']
            tt_true = true_t[0] if true_t else other
            tt_false = false_t[0] if false_t else other
            for tgt, at in ((tt_true, atom), (tt_false, negate(atom) if atom[0] != 'unk' else ('unk',))):
                if self.refuted(st, at):
                    if tgt in fr.noret:
                        self.panic_site(fr, tgt, st, pruned=True)
                    continue
                s2 = st.copy()
                if self.assume(s2, at) and s2.store.is_sat():
                    out.append((tgt, s2))
                elif tgt in fr.noret:
                    self.panic_site(fr, tgt, st, pruned=True)
            return out
        e = self.as_int(st, v)
        c = st.store.const_value(e)
        if c is not None:
            tgt = t['otherwise']
            for val, tt in cases:
                if val == c:
                    tgt = tt
            return [(tgt, st)]
        for val, tt in cases:
            if st.store.entails_ne(e - val):
                if tt in fr.noret:
                    self.panic_site(fr, tt, st, pruned=True)
                continue
            s2 = st.copy()
            s2.store.add_eq(e - val)
            if s2.store.is_sat():
                out.append((tt, s2))
        s2 = st.copy()
        for val, tt in cases:
            self.assume(s2, ('ne', e - val))
        if s2.store.is_sat() and s2.store.check_sat():
            out.append((t['otherwise'], s2))
        elif t['otherwise'] in fr.noret:
            self.panic_site(fr, t['otherwise'], st, pruned=True)
        return out

    # ---- calls
    def exec_call(self, fr, b, st, t):
        c = t['callee']
        loc = t['loc']
        args = [self.operand(fr, st, a, loc) for a in t['args']]
        targets = None
        if 'inst' in c:
            targets = [c['inst']]
        elif 'indirect' in c:
            fv = self.operand(fr, st, c['indirect'], loc)
            if isinstance(fv, FnV) and fv.fns is not None:
                targets = sorted(fv.fns)
                fty = self.P.types[c['fty']]
                if fty['kind'] == 'fnptr':
                    self.check_fnptr(fr, st, fv, fty, loc)
            else:
                res = self.models.indirect_unknown(self, fr, st, t, fv, args)
                if res is None:
                    self.ob('FNPTR', fr, loc, 'call-through-unknown-fn-pointer', False,
                            'indirect call whose target set is unknown (cannot be analysed)')
                    res = [(st, self.havoc_call(fr, st, t, args))]
                return self.finish_call(fr, t, res)
        else:
            res = [(st, self.havoc_call(fr, st, t, args))]
            return self.finish_call(fr, t, res)
        results = []
        multi = len(targets) > 1
        for key in targets:
            s_in = st.copy() if multi else st
            a_in = args
            results.extend(self.call_target(fr, s_in, t, key, a_in))
        outs = self.finish_call(fr, t, results)
        if len(outs) > CALL_JOIN and len(targets) == 1 and JOIN_AFTER.search(targets[0]):
            # bookkeeping helpers whose many outcomes differ only in saturating counters: join per shape
            outs = [(t['t'], s2) for s2 in self.merge_by_shape(fr, t['t'], [s2 for _, s2 in outs])]
        return outs

    def call_target(self, fr, st, t, key, args):
        callee = self.P.instances.get(key)
        if key in self.cut_set:
            return self.cut_call(fr, st, t, key, callee, args)
        m = self.models.lookup(self, key, callee)
        if m is not None:
            r = m(self, fr, st, t, args, key)
            if r is not None:
                return r
        if callee is not None and callee.has_body:
            # closures / fn items called through Fn* traits arrive here already resolved to the body;
            # the rust-call ABI passes the arguments as one tuple: spread it
            a = self.adapt_args(callee, args, st)
            return self.call_inst(callee, a, st, fr.depth + 1, fr)
        return [(st, self.havoc_call(fr, st, t, args, key))]

    def cut_call(self, fr, st, t, key, callee, args):
        """call of a *safe public* function that is analysed as a root of its own (for arbitrary
        arguments of its types): not descended into.  Its result is an arbitrary value of the
        result type satisfying the type invariants (plus the declared summary, which the callee's
        own root analysis must prove); everything reachable through `&mut` arguments is havocked."""
        self.cuts[key] = self.cuts.get(key, 0) + 1
        from . import mm
        mm.check_call_pre(self, fr, st, callee, args, t['loc'])
        for i, a in enumerate(args):
            if isinstance(a, RefV) and i < callee.arg_count:
                ty = self.P.types[callee.locals[i + 1]]
                if ty['kind'] == 'ref' and ty['mut']:
                    self.store_lv(fr, st, a.lv, self.fresh_of_type(st, ty['to'], 'cut'), ty['to'])
        outs = []
        for s1, ret in mm.fresh_results(self, st, callee):
            for s2, r2 in mm.assume_call_post(self, fr, s1, callee, args, ret):
                outs += self.models.apply_summary(self, fr, s2, t, key, callee, args, r2)
        return outs

    def adapt_args(self, callee, args, st):
        n = callee.arg_count
        if callee.j.get('def_kind') == 'Closure' and len(args) == 2 and isinstance(args[1], AdtV) \
                and not isinstance(args[1].tid, tuple) and self.P.types[args[1].tid]['kind'] == 'tuple' and args[1].fields is not None:
            # rust-call ABI: the closure's own parameters arrive packed in one tuple
            if not (n == 2 and callee.locals[2] == args[1].tid):
                spread = [args[0]] + list(args[1].fields)
                if len(spread) == n:
                    return spread
        if len(args) == n:
            return args
        # rust-call: (self, (a, b, c)) -> (self, a, b, c)
        if len(args) == 2 and isinstance(args[1], AdtV) and args[1].fields is not None and 1 + len(args[1].fields) == n:
            return [args[0]] + list(args[1].fields)
        if len(args) == 2 and isinstance(args[1], AdtV) and args[1].fields is not None and len(args[1].fields) == n:
            return list(args[1].fields)          # fn item: self is a ZST and not a parameter
        if len(args) == 1 and isinstance(args[0], AdtV) and args[0].fields is not None and len(args[0].fields) == n:
            return list(args[0].fields)
        raise Unsupported(f"argument count mismatch calling {callee.key}: {len(args)} vs {n}")

    def havoc_call(self, fr, st, t, args, key=None):
        """unknown callee: fresh result; objects reachable through &mut arguments are havocked"""
        name = key or t['callee'].get('path') or 'indirect'
        self.note(f"HAVOC call {name}")
        for a, o in zip(args, t['args']):
            if isinstance(a, RefV) and o['k'] in ('copy', 'move'):
                tid = o['p']['pr'][-1]['ty'] if o['p']['pr'] else fr.inst.locals[o['p']['l']]
                ty = self.P.types[tid]
                if ty['kind'] == 'ref' and ty['mut']:
                    self.store_lv(fr, st, a.lv, self.fresh_of_type(st, ty['to'], 'hv'), ty['to'])
        dl = t['dest']
        tid = dl['pr'][-1]['ty'] if dl['pr'] else fr.inst.locals[dl['l']]
        return self.fresh_of_type(st, tid, 'call')

    def finish_call(self, fr, t, results):
        out = []
        if t['t'] is None:
            return []
        for st, ret in results:
            lv, tid = self.lv_of_place(fr, st, t['dest'], for_write=True)
            self.store_lv(fr, st, lv, ret, tid, t['loc'])
            out.append((t['t'], st))
        return out

    # ------------------------------------------------------------------ loops and merging
    from .loops import exec_loop, merge, live_locations, merge_by_shape


def sym(s):
    from .lin import sym_name
    return sym_name(s)
