"""Declared summaries of safe public functions that are cut (not inlined) when called
from another root.  Every summary listed here is ALSO generated as a POST obligation of
the callee's own root analysis (contracts.post_for), so assuming it at a call site is an
assume-guarantee step over an acyclic call graph."""
import re
from .lin import LinExpr, fresh
from .absval import *

V = LinExpr.var
C = LinExpr.const


def apply(I, fr, st, t, key, callee, args, ret):
    """returns list of (state, ret) after assuming the declared summary of `key`"""
    for rx, fn in TABLE:
        if rx.search(callee.path):
            r = fn(I, fr, st, t, callee, args, ret)
            if r is not None:
                return r
    return [(st, ret)]


TABLE = []
