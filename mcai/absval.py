"""Abstract values and machine state of the E2 interpreter."""
from .lin import LinExpr, Store, fresh, ZERO


class Val:
    __slots__ = ()


class IntV(Val):
    __slots__ = ('e',)

    def __init__(self, e):
        self.e = e if isinstance(e, LinExpr) else LinExpr.const(e)

    def key(self, st):
        return ('i', st.nf(self.e))

    def __repr__(self):
        return f"Int({self.e})"


class PtrV(Val):
    """raw or thin pointer into region `r` at byte offset `off`"""
    __slots__ = ('r', 'off')

    def __init__(self, r, off):
        self.r, self.off = r, off

    def key(self, st):
        return ('p', self.r, st.nf(self.off))

    def __repr__(self):
        return f"Ptr(r{self.r}+{self.off})"


class SliceV(Val):
    """fat pointer: `n` elements of size `esz` starting at ptr"""
    __slots__ = ('ptr', 'n', 'esz')

    def __init__(self, ptr, n, esz=1):
        self.ptr, self.n, self.esz = ptr, n, esz

    def key(self, st):
        return ('s', self.ptr.key(st), st.nf(self.n), self.esz)

    def __repr__(self):
        return f"Slice({self.ptr}, n={self.n})"


class BoolV(Val):
    """atom: ('le', e) e<=0 | ('eq', e) | ('ne', e) | ('c', bool) | ('pred', positive, name, args) |
             ('and', a, b) | ('or', a, b)"""
    __slots__ = ('a',)

    def __init__(self, a):
        self.a = a

    def key(self, st):
        return ('b', atom_key(self.a, st))

    def __repr__(self):
        return f"Bool{self.a}"


def atom_key(a, st):
    k = a[0]
    if k in ('le', 'eq', 'ne'):
        return (k, st.nf(a[1]))
    if k in ('and', 'or'):
        return (k, atom_key(a[1], st), atom_key(a[2], st))
    return a


def negate(a):
    k = a[0]
    if k == 'le':
        return ('le', -a[1] + 1)          # not(e<=0) = e>=1 = -e+1<=0
    if k == 'eq':
        return ('ne', a[1])
    if k == 'ne':
        return ('eq', a[1])
    if k == 'c':
        return ('c', not a[1])
    if k == 'pred':
        return ('pred', not a[1]) + tuple(a[2:])
    if k == 'and':
        return ('or', negate(a[1]), negate(a[2]))
    if k == 'or':
        return ('and', negate(a[1]), negate(a[2]))
    if k == 'unk':
        return ('unk',)
    raise ValueError(a)


class RefV(Val):
    """reference / pointer to an abstract location (a local slot or heap object)"""
    __slots__ = ('lv',)

    def __init__(self, lv):
        self.lv = lv

    def key(self, st):
        return ('r', self.lv.key())

    def __repr__(self):
        return f"Ref({self.lv})"


class AdtV(Val):
    """struct / enum variant / tuple / closure value.  variant None = unknown enum variant."""
    __slots__ = ('tid', 'variant', 'fields')

    def __init__(self, tid, variant, fields):
        self.tid, self.variant, self.fields = tid, variant, tuple(fields) if fields is not None else None

    def key(self, st):
        return ('a', self.tid, self.variant, tuple(f.key(st) for f in self.fields) if self.fields is not None else None)

    def with_field(self, i, v):
        fs = list(self.fields)
        fs[i] = v
        return AdtV(self.tid, self.variant, fs)

    def __repr__(self):
        return f"Adt(t{self.tid} v{self.variant} {list(self.fields) if self.fields is not None else '?'})"


class UnionV(Val):
    __slots__ = ('tid', 'active', 'val')

    def __init__(self, tid, active, val):
        self.tid, self.active, self.val = tid, active, val

    def key(self, st):
        return ('u', self.tid, self.active, self.val.key(st) if self.val is not None else None)

    def __repr__(self):
        return f"Union(t{self.tid} active={self.active} {self.val})"


class FnV(Val):
    """function item / pointer: set of instance keys (None = unknown)"""
    __slots__ = ('fns',)

    def __init__(self, fns):
        self.fns = frozenset(fns) if fns is not None else None

    def key(self, st):
        return ('f', self.fns)

    def __repr__(self):
        return f"Fn({sorted(self.fns) if self.fns is not None else '?'})"


class TermV(Val):
    """uninterpreted term (vector values, masks, bytes read from memory ...)"""
    __slots__ = ('t',)

    def __init__(self, t):
        self.t = t

    def key(self, st):
        return ('t', term_key(self.t, st))

    def __repr__(self):
        return f"Term{self.t}"


def term_key(t, st):
    if isinstance(t, tuple):
        return tuple(term_key(x, st) for x in t)
    if isinstance(t, LinExpr):
        return st.nf(t)
    return t


class TopV(Val):
    __slots__ = ('tid',)

    def __init__(self, tid=None):
        self.tid = tid

    def key(self, st):
        return ('top', id(self))

    def __repr__(self):
        return "Top"


class ArrV(Val):
    """array with abstract (unknown) contents; `n` elements"""
    __slots__ = ('tid', 'n', 'uid')

    def __init__(self, tid, n, uid=None):
        self.tid, self.n, self.uid = tid, n, uid if uid is not None else fresh('arr')

    def key(self, st):
        return ('arr', self.uid)

    def __repr__(self):
        return f"Arr[{self.n}]"


# ---------------------------------------------------------------- lvalues
class LV:
    __slots__ = ()


class LVLocal(LV):
    __slots__ = ('frame', 'local', 'path')

    def __init__(self, frame, local, path=()):
        self.frame, self.local, self.path = frame, local, tuple(path)

    def key(self):
        return ('L', self.frame, self.local, self.path)

    def ext(self, step):
        return LVLocal(self.frame, self.local, self.path + (step,))

    def __repr__(self):
        return f"f{self.frame}._{self.local}{''.join('.' + str(p) for p in self.path)}"


class LVObj(LV):
    __slots__ = ('obj', 'path')

    def __init__(self, obj, path=()):
        self.obj, self.path = obj, tuple(path)

    def key(self):
        return ('O', self.obj, self.path)

    def ext(self, step):
        return LVObj(self.obj, self.path + (step,))

    def __repr__(self):
        return f"obj{self.obj}{''.join('.' + str(p) for p in self.path)}"


class LVMem(LV):
    """raw memory at a pointer; tid = type of the place"""
    __slots__ = ('ptr', 'tid')

    def __init__(self, ptr, tid):
        self.ptr, self.tid = ptr, tid

    def key(self):
        return ('M', self.ptr.r, self.ptr.off, self.tid)

    def __repr__(self):
        return f"mem[{self.ptr}]"


class LVSlice(LV):
    """the unsized slice behind a fat pointer"""
    __slots__ = ('s',)

    def __init__(self, s):
        self.s = s

    def key(self):
        return ('S', id(self.s))


class LVElem(LV):
    __slots__ = ('s', 'idx', 'tid')

    def __init__(self, s, idx, tid):
        self.s, self.idx, self.tid = s, idx, tid

    def key(self):
        return ('E', id(self.s), self.idx)


class LVUnknown(LV):
    __slots__ = ('tid',)

    def __init__(self, tid=None):
        self.tid = tid

    def key(self):
        return ('?', id(self))


# ---------------------------------------------------------------- state
class Region:
    """a memory region: symbolic base address A and byte length L"""
    __slots__ = ('rid', 'A', 'L', 'kind', 'name')

    def __init__(self, rid, A, L, kind, name):
        self.rid, self.A, self.L, self.kind, self.name = rid, A, L, kind, name


class State:
    __slots__ = ('store', 'frames', 'heap', 'ghost', 'dead')

    def __init__(self):
        self.store = Store()
        self.frames = {}     # frame id -> dict local -> Val
        self.heap = {}       # obj id -> Val
        self.ghost = {}      # E3 facts
        self.dead = False

    def copy(self):
        s = State()
        s.store = self.store.copy()
        s.frames = {f: dict(l) for f, l in self.frames.items()}
        s.heap = dict(self.heap)
        s.ghost = {k: (v.copy() if hasattr(v, 'copy') else v) for k, v in self.ghost.items()}
        s.dead = self.dead
        return s
