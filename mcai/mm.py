"""The substring (memmem) layer: relational invariants between a searcher value and the
needle it was built from (REL), the documented preconditions of the public building
blocks (D-table), and the summaries assumed where one public function calls another.

Everything here follows one discipline (assume-guarantee over the acyclic public call graph):

  * a REL fact is ASSUMED for the arguments of a root (the documented precondition "the needle
    must be the one given to the constructor", or the private invariant of memmem::Finder & co),
  * it is CHECKED at every call of such a function from another root (REL-PRE),
  * it is CHECKED for the value a constructor root returns (REL-POST), and
  * it is ASSUMED for the value returned by a constructor that is cut at a call site.

REL facts are guarded linear facts `guard => atom` over the abstract values' integer leaves."""
import re
from .lin import LinExpr, fresh
from .absval import *

V = LinExpr.var
C = LinExpr.const

TW_FWD = 'arch::all::twoway::Finder'
TW_REV = 'arch::all::twoway::FinderRev'
PAIR = 'arch::all::packedpair::Pair'
PP_ALL = 'arch::all::packedpair::Finder'
PP_GEN = 'arch::generic::packedpair::Finder'
PP_ARCH = re.compile(r'^arch::(x86_64::sse2|x86_64::avx2|aarch64::neon|wasm32::simd128)::packedpair::Finder$')
SEARCHER = 'memmem::searcher::Searcher'
SEARCHER_REV = 'memmem::searcher::SearcherRev'
PREFILTER = 'memmem::searcher::Prefilter'
TWPF = 'memmem::searcher::TwoWayWithPrefilter'
MM_FWD = 'memmem::Finder'
MM_REV = 'memmem::FinderRev'
COW = 'cow::CowBytes'
EXPAND = ('arch::all::twoway::Shift', 'cow::Imp', 'memmem::searcher::SearcherRevKind')


class Fact:
    """guard => atom.  domain=True marks the documented panic condition of the function (the
    caller must establish it; the function is analysed on both sides of it)"""
    __slots__ = ('guard', 'atom', 'label', 'domain')

    def __init__(self, guard, atom, label, domain=False):
        self.guard, self.atom, self.label, self.domain = guard, atom, label, domain


def tpath(I, v):
    if isinstance(v, AdtV) and not isinstance(v.tid, tuple):
        return I.P.types[v.tid].get('path')
    if isinstance(v, UnionV) and not isinstance(v.tid, tuple):
        return I.P.types[v.tid].get('path')
    return None


def follow(I, st, v):
    """dereference references to tracked objects"""
    for _ in range(4):
        if isinstance(v, RefV) and isinstance(v.lv, (LVObj, LVLocal)):
            if isinstance(v.lv, LVObj):
                base = st.heap.get(v.lv.obj)
            else:
                base = st.frames.get(v.lv.frame, {}).get(v.lv.local)
            v = I.nav(base, v.lv.path) if base is not None else None
        else:
            break
    return v


def ge1(n):
    return ('le', C(1) - n)         # 1 - n <= 0


def le(a, b):
    return ('le', a - b)


def cow_len(I, st, v):
    """length of the bytes held by a CowBytes value (either variant), or None"""
    v = follow(I, st, v)
    for _ in range(6):
        if isinstance(v, SliceV):
            return v.n
        if isinstance(v, AdtV) and v.fields is not None and v.variant is not None and len(v.fields) >= 1:
            v = follow(I, st, v.fields[0])
            continue
        return None
    return None


class Shape(Exception):
    pass


def rel_twoway(I, st, finder, n, fwd, out, guard=()):
    tw = finder.fields[0] if isinstance(finder, AdtV) and finder.fields else None
    if not (isinstance(tw, AdtV) and tw.fields is not None and len(tw.fields) == 3):
        raise Shape('two-way searcher value not tracked')
    crit, shift = tw.fields[1], tw.fields[2]
    if not isinstance(crit, IntV):
        raise Shape('critical_pos not tracked')
    g1 = guard + (ge1(n),)
    tag = 'I-TW' + ('' if fwd else '-rev')
    out.append(Fact(guard, le(crit.e, n), f'{tag}: critical_pos <= needle.len()'))
    if fwd:
        out.append(Fact(g1, le(crit.e + 1, n), f'{tag}: critical_pos < needle.len() for a non-empty needle'))
    else:
        out.append(Fact(g1, ('le', C(1) - crit.e), f'{tag}: critical_pos >= 1 for a non-empty needle'))
    if not (isinstance(shift, AdtV) and shift.variant is not None and shift.fields and isinstance(shift.fields[0], IntV)):
        raise Shape('shift variant not known')
    x = shift.fields[0].e
    what = 'period' if shift.variant == 0 else 'shift'
    out.append(Fact(g1, ('le', C(1) - x), f'{tag}: {what} >= 1 for a non-empty needle'))
    out.append(Fact(guard if shift.variant == 1 else g1, le(x, n), f'{tag}: {what} <= needle.len()'))
    if shift.variant == 1:
        # (the large-period searcher moves by at least half the needle after a failed left part: the linear-work bound)
        out.append(Fact(guard, ('le', n - x * 2), f'{tag}: 2 * shift >= needle.len() (shift = max(critical_pos, len - critical_pos))'))


def rel_pair(I, st, pair, n, out, guard=()):
    if not (isinstance(pair, AdtV) and pair.fields is not None and len(pair.fields) == 2 and all(isinstance(f, IntV) for f in pair.fields)):
        raise Shape('pair value not tracked')
    i1, i2 = pair.fields[0].e, pair.fields[1].e
    out.append(Fact(guard, le(i1 + 1, n), 'I-PAIR: index1 < needle.len()'))
    out.append(Fact(guard, le(i2 + 1, n), 'I-PAIR: index2 < needle.len()'))
    out.append(Fact(guard, ('ne', i1 - i2), 'I-PAIR: index1 != index2'))


def rel_generic(I, st, f, n, out, guard=()):
    """generic::packedpair::Finder<V> {pair, v1, v2, min_haystack_len} built from a needle of length n:
    min_haystack_len = max(n, max(index1, index2) + V::BYTES), of which the search needs the consequence
    min_haystack_len - V::BYTES < n (the bytes left after the last full vector cannot hold the needle)"""
    rel_pair(I, st, f.fields[0], n, out, guard)
    ty = I.P.types[f.tid]
    vbytes = None
    for fd in ty['variants'][0]['fields']:
        ft = I.P.types[fd['ty']]
        if ft['kind'] == 'adt' and ft.get('simd'):
            vbytes = ft.get('size')
    mhl = f.fields[3] if len(f.fields) == 4 else None
    if vbytes is None or not isinstance(mhl, IntV):
        raise Shape('generic packed-pair finder: min_haystack_len / vector size not tracked')
    out.append(Fact(guard, le(mhl.e - vbytes + 1, n), 'I-PP-REL: min_haystack_len - V::BYTES < needle.len()'))
    out.append(Fact(guard, le(n, mhl.e), 'I-PP-REL: needle.len() <= min_haystack_len'))


def rel_packed(I, st, f, n, out, guard=()):
    """any packed-pair finder (portable, generic<V>, or an arch wrapper around generic ones)"""
    p = tpath(I, f)
    if p == PP_ALL:
        rel_pair(I, st, f.fields[0], n, out, guard)
        return
    if p == PP_GEN:
        rel_generic(I, st, f, n, out, guard)
        return
    if p is not None and PP_ARCH.match(p) and f.fields:
        for x in f.fields:
            if tpath(I, x) == PP_GEN:
                rel_generic(I, st, x, n, out, guard)
        return
    raise Shape(f'packed-pair finder value not tracked ({p})')


def rel_prefilter(I, st, pf, n, out, guard=()):
    if not (isinstance(pf, AdtV) and pf.fields is not None):
        raise Shape('prefilter not tracked')
    kind = pf.fields[1]
    if not (isinstance(kind, UnionV) and kind.active is not None and kind.val is not None):
        raise Shape('prefilter kind: active field unknown')
    rel_packed(I, st, kind.val, n, out, guard)


def rel_searcher(I, st, s, n, out):
    if not (isinstance(s, AdtV) and s.fields is not None and len(s.fields) == 3):
        raise Shape('searcher not tracked')
    kind = s.fields[1]
    if not (isinstance(kind, UnionV) and kind.active is not None):
        raise Shape('searcher kind: active field unknown')
    uty = I.P.types[kind.tid]
    fname = uty['variants'][0]['fields'][kind.active]['name']
    val = kind.val
    if fname == 'empty':
        out.append(Fact((), ('eq', n), 'I-MM: empty searcher <=> empty needle'))
    elif fname == 'one_byte':
        out.append(Fact((), ('eq', n - 1), 'I-MM: one-byte searcher <=> needle.len() == 1'))
    else:
        out.append(Fact((), ('le', C(2) - n), f'I-MM: {fname} searcher => needle.len() >= 2'))
        p = tpath(I, val)
        if p == TW_FWD:
            rel_twoway(I, st, val, n, True, out)
        elif p == TWPF:
            rel_twoway(I, st, val.fields[0], n, True, out)
            rel_prefilter(I, st, val.fields[1], n, out)
        else:
            # (the cap itself is a tuning constant -- 32 today; what the linear-work argument needs is that SOME constant caps it)
            out.append(Fact((), ('bounded', n, 1 << 12), f'I-MM: {fname} (memcmp-confirming vector) searcher => needle.len() is capped by a constant'))
            rel_packed(I, st, val, n, out)


def rel_searcher_rev(I, st, s, n, out):
    if not (isinstance(s, AdtV) and s.fields is not None and len(s.fields) == 2):
        raise Shape('reverse searcher not tracked')
    kind = s.fields[0]
    if not (isinstance(kind, AdtV) and kind.variant is not None):
        raise Shape('reverse searcher kind unknown')
    if kind.variant == 0:
        out.append(Fact((), ('eq', n), 'I-MM: empty reverse searcher <=> empty needle'))
    elif kind.variant == 1:
        out.append(Fact((), ('eq', n - 1), 'I-MM: one-byte reverse searcher <=> needle.len() == 1'))
    else:
        out.append(Fact((), ('le', C(2) - n), 'I-MM: two-way reverse searcher => needle.len() >= 2'))
        rel_twoway(I, st, kind.fields[0], n, False, out)


def auto_rel(I, st, v, out, errs, depth=0, seen=None):
    """REL facts carried by a value on its own (a memmem::Finder holds both the needle and the searcher)"""
    seen = set() if seen is None else seen
    if depth > 14 or v is None:
        return
    if isinstance(v, RefV):
        if isinstance(v.lv, LVObj) and not isinstance(v.lv.obj, tuple):
            k = (v.lv.obj, v.lv.path)
            if k in seen:
                return
            seen.add(k)
        auto_rel(I, st, follow(I, st, v), out, errs, depth + 1, seen)
        return
    if isinstance(v, AdtV) and v.fields is not None:
        p = tpath(I, v)
        if p in (MM_FWD, MM_REV):
            n = cow_len(I, st, v.fields[0])
            try:
                if n is None:
                    raise Shape('needle of the finder not tracked')
                (rel_searcher if p == MM_FWD else rel_searcher_rev)(I, st, v.fields[1], n, out)
            except Shape as e:
                errs.append(f'{p}: {e}')
            # invariants of the values nested in the searcher (independent of the needle)
            auto_rel(I, st, v.fields[1], out, errs, depth + 1, seen)
            return
        if p == 'memmem::FindRevIter' and len(v.fields) == 3:
            h, pos = v.fields[0], v.fields[2]
            if isinstance(h, SliceV) and isinstance(pos, AdtV) and pos.variant == 1 and isinstance(pos.fields[0], IntV):
                out.append(Fact((), le(pos.fields[0].e, h.n), 'I-REVITER: pos = Some(p) => p <= haystack.len()'))
            elif not (isinstance(pos, AdtV) and pos.variant == 0):
                errs.append(f'{p}: window (haystack, pos) not tracked')
        if p == 'arch::all::shiftor::Finder' and len(v.fields) == 2:
            if isinstance(v.fields[1], IntV):
                out.append(Fact((), ('le', v.fields[1].e - 15), 'I-SO: needle_len <= 15 (one bit of the u16 mask per needle byte, plus the match bit)'))
            else:
                errs.append(f'{p}: needle_len not tracked')
            return
        if p == 'arch::x86_64::avx2::packedpair::Finder' and len(v.fields) == 2:
            a, b = v.fields
            try:
                if not (tpath(I, a) == PP_GEN and tpath(I, b) == PP_GEN and all(isinstance(x.fields[3], IntV) for x in (a, b))):
                    raise Shape('avx2 packed-pair finder not tracked')
                out.append(Fact((), le(a.fields[3].e, b.fields[3].e), 'I-AVX2PP: sse2.min_haystack_len <= avx2.min_haystack_len'))
                for k in (0, 1):
                    x, y = a.fields[0].fields[k], b.fields[0].fields[k]
                    if not (isinstance(x, IntV) and isinstance(y, IntV)):
                        raise Shape('avx2 packed-pair finder: pair not tracked')
                    out.append(Fact((), ('eq', x.e - y.e), f'I-AVX2PP: both halves use the same pair (index{k + 1})'))
            except (Shape, AttributeError, TypeError, IndexError) as e:
                errs.append(f'{p}: {e}')
            return
        for f in v.fields:
            auto_rel(I, st, f, out, errs, depth + 1, seen)
    elif isinstance(v, UnionV) and v.val is not None:
        auto_rel(I, st, v.val, out, errs, depth + 1, seen)


# ------------------------------------------------------------------ the D-table
# (regex on the instance path) -> how the searcher argument relates to the needle argument
def _tw_fwd(I, st, args, out):
    rel_twoway(I, st, follow(I, st, args[0]), args[2].n, True, out)


def _tw_rev(I, st, args, out):
    rel_twoway(I, st, follow(I, st, args[0]), args[2].n, False, out)


def pp_min_len(I, st, f):
    """`min_haystack_len()` of an arch packed-pair finder: that of its first generic finder"""
    p = tpath(I, f)
    if p == PP_GEN:
        return f.fields[3].e if isinstance(f.fields[3], IntV) else None
    if p is not None and PP_ARCH.match(p) and f.fields:
        for x in f.fields:
            if tpath(I, x) == PP_GEN:
                return x.fields[3].e if isinstance(x.fields[3], IntV) else None
    return None


def _pp_domain(I, st, args, out):
    f = follow(I, st, args[0])
    m = pp_min_len(I, st, f)
    if m is None or not isinstance(args[1], SliceV):
        raise Shape('min_haystack_len / haystack not tracked')
    out.append(Fact((), le(m, args[1].n), 'documented panic: haystack.len() >= min_haystack_len()', domain=True))


def _pp_find(I, st, args, out):
    rel_packed(I, st, follow(I, st, args[0]), args[2].n, out)
    _pp_domain(I, st, args, out)


def _with_pair(I, st, args, out):
    rel_pair(I, st, args[1], args[0].n, out)


def _pre_prefilter_ctor(I, st, args, out):
    rel_packed(I, st, args[0], args[1].n, out)


def _pre_prefilter_fallback(I, st, args, out):
    rel_pair(I, st, args[1], args[2].n, out)


PRE_TABLE = [
    (re.compile(r'^memmem::searcher::Prefilter::(sse2|avx2|neon|simd128)$'), _pre_prefilter_ctor,
     'Prefilter::<vector>(finder, needle): private; every caller passes the finder it just built from this needle'),
    (re.compile(r'^memmem::searcher::Prefilter::fallback(::<.*>)?$'), _pre_prefilter_fallback,
     'Prefilter::fallback(ranker, pair, needle): private; the pair was selected for this needle'),
    (re.compile(r'^arch::all::twoway::Finder::find$'), _tw_fwd,
     'twoway::Finder::find: "The needle given must be the same as the needle provided to Finder::new"'),
    (re.compile(r'^arch::all::twoway::FinderRev::rfind$'), _tw_rev,
     'twoway::FinderRev::rfind: "The needle given must be the same as the needle provided to FinderRev::new"'),
    (re.compile(r'^arch::(x86_64::sse2|x86_64::avx2|aarch64::neon|wasm32::simd128)::packedpair::Finder::find$'), _pp_find,
     'packedpair::Finder::find: the needle is the one the finder was built from'),
    (re.compile(r'^arch::(x86_64::sse2|x86_64::avx2|aarch64::neon|wasm32::simd128)::packedpair::Finder::find_prefilter$'), _pp_domain,
     'packedpair::Finder::find_prefilter: "Panics when haystack.len() is less than Finder::min_haystack_len"'),
    (re.compile(r'^arch::(all|x86_64::sse2|x86_64::avx2|aarch64::neon|wasm32::simd128)::packedpair::Finder::with_pair$'), _with_pair,
     'packedpair::Finder::with_pair: the pair was selected for (is valid for) this needle'),
]


def _ret_some(ret):
    """payload of Option::Some, or None"""
    if isinstance(ret, AdtV) and ret.variant == 1 and ret.fields:
        return ret.fields[0]
    if not (isinstance(ret, AdtV) and ret.variant == 0):
        raise Shape('Option result of unknown variant')
    return None


def _post_tw_fwd(I, st, args, ret, out):
    rel_twoway(I, st, ret, args[0].n, True, out)


def _post_tw_rev(I, st, args, ret, out):
    rel_twoway(I, st, ret, args[0].n, False, out)


def _post_pair(I, st, args, ret, out):
    p = _ret_some(ret)
    if p is not None:
        rel_pair(I, st, p, args[0].n, out)


def _post_pair_ranker(I, st, args, ret, out):
    """Pair::new / with_ranker: None exactly when the needle has fewer than 2 bytes; offsets at most 254"""
    p = _ret_some(ret)
    n = args[0].n
    if p is None:
        out.append(Fact((), ('le', n - 1), 'None => needle.len() < 2'))
        return
    rel_pair(I, st, p, n, out)
    out.append(Fact((), ('le', C(2) - n), 'Some => needle.len() >= 2'))
    for k in (0, 1):
        out.append(Fact((), ('le', p.fields[k].e - 254), f'Some => index{k + 1} <= 254'))


def _post_packed(I, st, args, ret, out):
    f = _ret_some(ret)
    if f is not None:
        rel_packed(I, st, f, args[0].n, out)


def _post_index(hidx, nfun, what):
    """`Some(i)` is an index at which `n` bytes fit into the haystack argument"""
    def f(I, st, args, ret, out):
        i = _ret_some(ret)
        if i is None:
            return
        h = args[hidx]
        if not isinstance(i, IntV) or not isinstance(h, SliceV):
            raise Shape('index result / haystack not tracked')
        n = nfun(I, st, args)
        if n is None:
            raise Shape('needle length not tracked')
        out.append(Fact((), le(i.e + n, h.n), what))
    return f


def _n_one(I, st, args):
    return C(1)


def _n_arg(k):
    def f(I, st, args):
        return args[k].n if isinstance(args[k], SliceV) else None
    return f


def _n_cow_self(I, st, args):
    v = follow(I, st, args[0])
    if isinstance(v, AdtV) and v.fields:
        return cow_len(I, st, v.fields[0])
    return None


def _n_shiftor(I, st, args):
    v = follow(I, st, args[0])
    if isinstance(v, AdtV) and v.fields and len(v.fields) == 2 and isinstance(v.fields[1], IntV):
        return v.fields[1].e
    return None


def _post_same_needle(k):
    def f(I, st, args, ret, out):
        n = cow_len(I, st, ret.fields[0]) if isinstance(ret, AdtV) and ret.fields else None
        if n is None or not isinstance(args[k], SliceV):
            raise Shape('needle of the returned finder not tracked')
        out.append(Fact((), ('eq', n - args[k].n), 'the returned finder holds a needle of the same length as the argument'))
    return f


_FITS = 'Some(i) => i + needle.len() <= haystack.len()'
_INB = 'Some(i) => i < haystack.len()'
_ARCH = r'(all|x86_64::sse2|x86_64::avx2|aarch64::neon|wasm32::simd128)'

POST_TABLE = [
    (re.compile(r'^arch::all::twoway::Finder::new$'), _post_tw_fwd),
    (re.compile(r'^arch::all::twoway::FinderRev::new$'), _post_tw_rev),
    (re.compile(r'^arch::all::packedpair::Pair::(new|with_ranker(::<.*>)?)$'), _post_pair_ranker),
    (re.compile(r'^arch::all::packedpair::Pair::with_indices$'), _post_pair),
    (re.compile(r'^arch::' + _ARCH + r'::packedpair::Finder::(new|with_pair)$'), _post_packed),
    # index results (assumed where the function is cut, proved at its own root)
    (re.compile(r'^memchr::memr?chr$'), _post_index(1, _n_one, _INB)),
    (re.compile(r'^memchr::memr?chr2$'), _post_index(2, _n_one, _INB)),
    (re.compile(r'^memchr::memr?chr3$'), _post_index(3, _n_one, _INB)),
    (re.compile(r'^arch::' + _ARCH + r'::memchr::(One|Two|Three)::r?find$'), _post_index(1, _n_one, _INB)),
    (re.compile(r'^arch::' + _ARCH + r'::packedpair::Finder::find_prefilter$'), _post_index(1, _n_one, _INB)),
    (re.compile(r'^arch::' + _ARCH + r'::packedpair::Finder::find$'), _post_index(1, _n_arg(2), _FITS)),
    (re.compile(r'^arch::all::(twoway|rabinkarp)::(Finder::find|FinderRev::rfind)$'), _post_index(1, _n_arg(2), _FITS)),
    (re.compile(r'^arch::all::shiftor::Finder::find$'), _post_index(1, _n_shiftor, _FITS)),
    (re.compile(r"^memmem::(Finder::<'.*>::find|FinderRev::<'.*>::rfind)(::<.*>)?$"), _post_index(1, _n_cow_self, _FITS)),
    (re.compile(r'^memmem::r?find$'), _post_index(0, _n_arg(1), _FITS)),
    # the finder returned by a constructor holds (a copy of) the needle argument
    (re.compile(r"^memmem::(Finder|FinderRev)::<'.*>::new(::<.*>)?$"), _post_same_needle(0)),
    (re.compile(r'^memmem::FinderBuilder::(build_forward|build_reverse)(::<.*>)?$'), _post_same_needle(1)),
    (re.compile(r'^memmem::FinderBuilder::build_forward_with_ranker(::<.*>)?$'), _post_same_needle(2)),
]


RAW_RANGE = re.compile(r'::(find_raw|rfind_raw|count_raw)$')
SPLIT_EMPTY = [(re.compile(r'^arch::all::twoway::(Finder|FinderRev)::new$'),)]


def lookup(table, path):
    for row in table:
        if row[0].search(path):
            return row
    return None


# ------------------------------------------------------------------ expansion of unknown enum variants
def expand(I, st, v, depth=0):
    """[(state, value)]: every way of fixing the variant of the (few) enums REL talks about"""
    if depth > 16 or v is None:
        return [(st, v)]
    if isinstance(v, RefV) and isinstance(v.lv, LVObj) and not v.lv.path and not isinstance(v.lv.obj, tuple):
        inner = st.heap.get(v.lv.obj)
        alts = expand(I, st, inner, depth + 1)
        for s2, nv in alts:
            s2.heap[v.lv.obj] = nv
        return [(s2, v) for s2, _ in alts]
    if isinstance(v, UnionV) and v.val is not None:
        return [(s2, UnionV(v.tid, v.active, nv)) for s2, nv in expand(I, st, v.val, depth + 1)]
    if isinstance(v, AdtV) and not isinstance(v.tid, tuple):
        ty = I.P.types[v.tid]
        if v.fields is None and v.variant is None and ty.get('path') in EXPAND:
            outs = []
            for vi, var in enumerate(ty['variants']):
                s2 = st.copy()
                fs = [I.fresh_of_type(s2, f['ty'], f['name']) for f in var['fields']]
                outs.extend(expand(I, s2, AdtV(v.tid, vi, fs), depth + 1))
            return outs
    if isinstance(v, AdtV) and v.fields is not None:
        if tpath(I, v) == 'memmem::FindRevIter' and len(v.fields) == 3 and isinstance(v.fields[2], AdtV) and v.fields[2].variant is None:
            o = v.fields[2]
            oty = I.P.types[o.tid]
            s1 = st.copy()
            some = AdtV(o.tid, 1, [I.fresh_of_type(s1, f['ty'], 'pos') for f in oty['variants'][1]['fields']])
            return (expand(I, st, AdtV(v.tid, v.variant, list(v.fields[:2]) + [AdtV(o.tid, 0, [])]), depth + 1)
                    + expand(I, s1, AdtV(v.tid, v.variant, list(v.fields[:2]) + [some]), depth + 1))
        alts = [(st, [])]
        for f in v.fields:
            nxt = []
            for s, fs in alts:
                for s2, nf in expand(I, s, f, depth + 1):
                    nxt.append((s2, fs + [nf]))
            alts = nxt
        return [(s, AdtV(v.tid, v.variant, fs)) for s, fs in alts]
    return [(st, v)]


def expand_args(I, st, args):
    alts = [(st, [])]
    for a in args:
        nxt = []
        for s, xs in alts:
            for s2, na in expand(I, s, a):
                nxt.append((s2, xs + [na]))
        alts = nxt
    return alts


# ------------------------------------------------------------------ assume / check
def add_atom(st, atom):
    k = atom[0]
    if k == 'bounded':
        return              # check-only: nothing downstream relies on the particular constant
    if k == 'le':
        st.store.add_le(atom[1])
    elif k == 'eq':
        st.store.add_eq(atom[1])
    elif k == 'ne':
        st.store.add_ne(atom[1])


def entails(st, atom):
    k = atom[0]
    if k == 'bounded':
        lb = st.store.lower_bound(-atom[1], -atom[2], 0)
        return lb is not None
    if k == 'le':
        return st.store.entails_le(atom[1])
    if k == 'eq':
        return st.store.entails_eq(atom[1])
    if k == 'ne':
        return st.store.entails_ne(atom[1])
    return False


def neg(atom):
    return negate(atom)


def assume_facts(st, facts):
    """[states]: facts assumed; one fork per guard that the store does not decide"""
    states = [st]
    guards = []
    for f in facts:
        for g in f.guard:
            if g not in guards:
                guards.append(g)
    for g in guards:
        nxt = []
        for s in states:
            if entails(s, g):
                nxt.append(s)
            elif entails(s, neg(g)):
                s.ghost.setdefault('mm_not', []).append(g)
                nxt.append(s)
            else:
                s_no = s.copy()
                add_atom(s, g)
                add_atom(s_no, neg(g))
                s_no.ghost.setdefault('mm_not', []).append(g)
                nxt += [s, s_no]
        states = nxt
    out = []
    for s in states:
        dead = s.ghost.get('mm_not', [])
        for f in facts:
            if any(g in dead for g in f.guard):
                continue
            add_atom(s, f.atom)
        s.ghost.pop('mm_not', None)
        if s.store.is_sat() and s.store.check_sat():
            out.append(s)
    return out


def check_facts(I, fr, st, loc, kind, facts, prefix=''):
    for f in facts:
        s = st
        if f.guard:
            s = st.copy()
            for g in f.guard:
                add_atom(s, g)
            if not (s.store.is_sat() and s.store.check_sat()):
                I.ob(kind, fr, loc, prefix + f.label, True)
                continue
        ok = entails(s, f.atom)
        I.ob(kind, fr, loc, prefix + f.label, ok, '' if ok else f"cannot prove {f.atom[0]} {s.store.nf(f.atom[1])} {'<= 0' if f.atom[0] == 'le' else ''}")


class _Fr:
    def __init__(self, inst):
        self.inst = inst


# ------------------------------------------------------------------ entry points used by the engine
def root_states(I, inst, st, args):
    """REL assumed for the arguments of a root: [(state, args)]"""
    row = lookup(PRE_TABLE, inst.path)
    alts = expand_args(I, st, args)
    if RAW_RANGE.search(inst.path) and len(args) >= 2 and isinstance(args[-1], PtrV) and isinstance(args[-2], PtrV) and args[-1].r == args[-2].r:
        # raw range roots ("callers may pass start >= end"): the empty / inverted window apart from the proper one, so that
        # the proper one can use start < end whether or not the code tests it up front
        nxt = []
        for s, a in alts:
            s0 = s.copy()
            add_atom(s, ('le', a[-2].off + 1 - a[-1].off))
            add_atom(s0, ('le', a[-1].off - a[-2].off))
            nxt += [(s, a), (s0, a)]
        alts = nxt
    if lookup(SPLIT_EMPTY, inst.path) and args and isinstance(args[0], SliceV):
        # constructors whose REL-POST is conditional on a non-empty needle: analyse both cases apart
        nxt = []
        for s, a in alts:
            s0 = s.copy()
            add_atom(s, ge1(a[0].n))
            add_atom(s0, ('eq', a[0].n))
            nxt += [(s, a), (s0, a)]
        alts = nxt
    out = []
    for s, a in alts:
        facts, errs = [], []
        for x in a:
            auto_rel(I, s, x, facts, errs)
        if row:
            try:
                row[1](I, s, a, facts)
            except (Shape, AttributeError) as e:
                errs.append(str(e))
        for e in errs:
            I.note(f'REL not assumed at root {inst.path}: {e}')
        record_iter_entry(I, inst, s, a)
        dom = [f for f in facts if f.domain]
        if dom and I.opts.get('mm_domain') == 'out':
            # outside the documented domain (one analysis per violated condition)
            rest = [f for f in facts if not f.domain]
            for d in dom:
                s3 = s.copy()
                add_atom(s3, neg(d.atom))
                for s2 in assume_facts(s3, rest):
                    s2.ghost['root_args'] = tuple(a)
                    out.append((s2, a))
            continue
        for s2 in assume_facts(s, facts):
            s2.ghost['root_args'] = tuple(a)
            out.append((s2, a))
    return out


def _args_of(st, args):
    """the argument values of the alternative this outcome belongs to (enums expanded)"""
    return list(st.ghost.get('root_args', args))


def has_domain(inst):
    row = lookup(PRE_TABLE, inst.path)
    return bool(row) and row[1] in (_pp_find, _pp_domain)


def check_call_pre(I, fr, st, callee, args, loc):
    """REL-PRE at a call of a cut public function"""
    facts, errs = [], []
    for x in args:
        auto_rel(I, st, x, facts, errs)
    row = lookup(PRE_TABLE, callee.path)
    if row:
        try:
            row[1](I, st, args, facts)
        except (Shape, AttributeError) as e:
            errs.append(str(e))
    facts = [f for f in facts if f.atom[0] != 'bounded']
    name = callee.path.split('::<')[0].rsplit('::', 2)
    name = '::'.join(name[-2:])
    for e in errs:
        I.ob('REL-PRE', fr, loc, f'call {name}: searcher/needle relation', False, f'value shape not tracked: {e}')
    check_facts(I, fr, st, loc, 'REL-PRE', facts, f'call {name}: ')


def fresh_results(I, st, callee):
    """[(state, value)]: arbitrary results of a cut call; a result that carries a (function pointer,
    union) pairing is one fork per pairing alternative (I-SRCH / I-PRE hold for every value of the type)"""
    from . import contracts
    P = I.P
    pairs = contracts.pair_alternatives(P)
    mentioned = contracts.type_mentions(P, callee.locals[0], set(pairs)) - set(I.models.alts)
    if not mentioned:
        return [(st, I.fresh_of_type(st, callee.locals[0], 'cut'))]
    outs = []
    saved = dict(I.models.alts)
    try:
        for combo in contracts.alt_combos(P, mentioned):
            s2 = st.copy()
            I.models.alts = dict(saved, **combo)
            outs.append((s2, I.fresh_of_type(s2, callee.locals[0], 'cut')))
    finally:
        I.models.alts = saved
    return outs


def expand_option(I, st, ret):
    """an Option result of unknown variant: both variants"""
    if isinstance(ret, AdtV) and ret.variant is None and not isinstance(ret.tid, tuple):
        ty = I.P.types[ret.tid]
        if ty.get('path') == 'core::option::Option':
            s1 = st.copy()
            fs = [I.fresh_of_type(s1, f['ty'], f['name']) for f in ty['variants'][1]['fields']]
            return [(st, AdtV(ret.tid, 0, [])), (s1, AdtV(ret.tid, 1, fs))]
    return [(st, ret)]


def assume_call_post(I, fr, st, callee, args, ret):
    """REL assumed for the result of a cut constructor: [(state, ret)]"""
    outs = []
    starts = expand_option(I, st, ret) if lookup(POST_TABLE, callee.path) else [(st, ret)]
    for s0, r0 in starts:
        outs += _assume_post1(I, fr, s0, callee, args, r0)
    return outs


MEMCHR1 = re.compile(r'^memchr::memchr$|^arch::' + r'(all|x86_64::sse2|x86_64::avx2|aarch64::neon|wasm32::simd128)' + r'::memchr::One::find$')


def e3_summary(I, st, callee, args, ret):
    """scan-coverage summary of a cut single-byte forward search (what C01 proves at its root): None => no
    byte of the haystack equals the needle; Some(i) => none before i does, and the byte at i does"""
    if 'search' not in st.ghost or not MEMCHR1.match(callee.path):
        return
    from . import e3
    hs = args[-1]
    nb = args[0]
    if callee.path != 'memchr::memchr':
        v = follow(I, st, nb)
        bs = []
        from .specs import collect_u8
        ty = I.P.types[callee.locals[1]]
        collect_u8(I, st, v, ty.get('to', callee.locals[1]), bs)
        nb = IntV(bs[0]) if len(bs) == 1 else None
    if not (isinstance(hs, SliceV) and isinstance(nb, IntV) and isinstance(ret, AdtV) and ret.variant is not None):
        return
    r, a = hs.ptr.r, hs.ptr.off
    if ret.variant == 0:
        e3.reject_batch(I, st, [(nb.e, r, a, a + hs.n)])
    elif isinstance(ret.fields[0], IntV):
        i = ret.fields[0].e
        e3.reject_batch(I, st, [(nb.e, r, a, a + i)])
        b = I.byte_at(st, PtrV(r, a + i))
        st.store.add_eq(b.e - nb.e)


PAIRPRE_CALLEE = re.compile(r'^arch::' + r'(all|x86_64::sse2|x86_64::avx2|aarch64::neon|wasm32::simd128)' + r'::packedpair::Finder::find_prefilter$')


def pairpre_summary(I, st, callee, args, ret):
    """candidate-coverage summary of a cut packed-pair prefilter (what C11 proves at its root), usable when the
    caller's pair specification talks about the same pair: None => every position where the needle fits was
    rejected; Some(c) => every position before c was, and both pair bytes are at c"""
    ps, sr = st.ghost.get('pairspec'), st.ghost.get('search')
    if not ps or not sr or not PAIRPRE_CALLEE.match(callee.path):
        return
    from . import e3
    f = follow(I, st, args[0])
    hs = args[1]
    prs = []
    _find_pairs(I, f, prs)
    if not (prs and isinstance(hs, SliceV) and isinstance(ret, AdtV) and ret.variant is not None and hs.ptr.r == sr['region']):
        return
    s = st.store
    if not all(isinstance(p.fields[k], IntV) for p in prs for k in (0, 1)):
        return
    if not all(s.entails_eq(p.fields[0].e - ps['i1']) and s.entails_eq(p.fields[1].e - ps['i2']) for p in prs):
        return
    a = hs.ptr.off
    if ret.variant == 0:
        e3.reject_batch(I, st, [(ps['sym'], hs.ptr.r, a, a + hs.n - ps['n'] + 1)])
    elif isinstance(ret.fields[0], IntV):
        c = ret.fields[0].e
        e3.reject_batch(I, st, [(ps['sym'], hs.ptr.r, a, a + c)])
        for idx, b in ((ps['i1'], ps['b1']), (ps['i2'], ps['b2'])):
            x = I.byte_at(st, PtrV(hs.ptr.r, a + c + idx))
            s.add_eq(x.e - b)


AFFIX = re.compile(r'^arch::all::is_(suffix|prefix)$')


def _assume_post1(I, fr, st, callee, args, ret):
    outs = []
    m = AFFIX.match(callee.path)
    if m and len(args) == 2 and all(isinstance(a, SliceV) for a in args):
        # the answer of a cut is_suffix / is_prefix call: an uninterpreted truth value that remembers WHICH ranges were
        # compared (the Two-Way period classification is checked against it: PERIOD-TEST)
        h, n = args
        s_ = st.store
        ret = BoolV(('pred', True, 'affix', (m.group(1), h.ptr.r, s_.nf(h.ptr.off), s_.nf(h.n), n.ptr.r, s_.nf(n.ptr.off), s_.nf(n.n))))
        return [(st, ret)]
    for s, r in expand(I, st, ret):
        e3_summary(I, s, callee, args, r)
        pairpre_summary(I, s, callee, args, r)
        verified_summary(I, s, callee, args, r)
        facts, errs = [], []
        auto_rel(I, s, r, facts, errs)
        row = lookup(POST_TABLE, callee.path)
        if row:
            try:
                row[1](I, s, args, r, facts)
            except (Shape, AttributeError) as e:
                errs.append(str(e))
        for e in errs:
            I.note(f'REL not assumed for result of {callee.path}: {e}')
        for s2 in assume_facts(s, facts):
            outs.append((s2, r))
    return outs


CAP_ROOT = re.compile(r'^memmem::FinderBuilder::build_forward_with_ranker')


def check_root_post(I, inst, results, args):
    """REL-POST: what a root returns (and leaves behind its &mut arguments) satisfies REL"""
    fr = _Fr(inst)
    row = lookup(POST_TABLE, inst.path)
    for st, ret in results:
        if not (st.store.is_sat() and st.store.check_sat()):
            continue
        facts, errs = [], []
        auto_rel(I, st, ret, facts, errs)
        fa = []
        for a in args:
            if isinstance(a, RefV):
                auto_rel(I, st, a, fa, errs)
        # (check-only facts -- "capped by SOME constant" -- are established by constructors, not re-derivable for an argument)
        facts += [f for f in fa if f.atom[0] != 'bounded']
        if not CAP_ROOT.match(inst.path):
            # "the vector searcher's needle length is capped by a constant" is decided where the searcher is actually
            # chosen (Searcher::new, inlined into build_forward_with_ranker); everything else only passes finders on
            facts = [f for f in facts if f.atom[0] != 'bounded']
        if row:
            try:
                row[1](I, st, args, ret, facts)
            except (Shape, AttributeError) as e:
                errs.append(str(e))
        for e in errs:
            I.ob('REL-POST', fr, inst.loc, 'result: searcher/needle relation', False, f'value shape not tracked: {e}')
        check_facts(I, fr, st, inst.loc, 'REL-POST', facts, 'result: ')


def check_domain(I, inst, vname, results):
    """DOC-PANIC: outside its documented domain the function must panic (never return normally)"""
    if not vname.endswith('|out-of-domain'):
        return
    fr = _Fr(inst)
    live = [1 for st, _ in results if st.store.is_sat() and st.store.check_sat()]
    I.ob('DOC-PANIC', fr, inst.loc, 'outside the documented domain the call panics (no normal return)', not live,
         '' if not live else f'{len(live)} path(s) return normally although haystack.len() < min_haystack_len()')


# ------------------------------------------------------------------ C19: exactness of pair selection / accessors
def _ent(st, atom):
    return entails(st, atom)


def _spec_ranker(I, st, args, ret):
    """Pair::new / with_ranker: None exactly when the needle has fewer than 2 bytes; offsets at most 254"""
    n = args[0].n if isinstance(args[0], SliceV) else None
    if n is None or not isinstance(ret, AdtV) or ret.variant is None:
        return [('result and needle tracked', False, 'Option variant / needle length not tracked')]
    if ret.variant == 0:
        ok = _ent(st, ('le', n - 1))
        return [('None => needle.len() < 2', ok, '' if ok else f'None returned although needle.len() <= 1 is not entailed (n = {st.store.nf(n)})')]
    p = ret.fields[0]
    out = [('Some => needle.len() >= 2', _ent(st, ('le', C(2) - n)), '')]
    for k in (0, 1):
        x = p.fields[k]
        ok = isinstance(x, IntV) and _ent(st, ('le', x.e - 254))
        out.append((f'Some => index{k + 1} <= 254', ok, '' if ok else f'index{k + 1} = {x}'))
    return out


def _spec_indices(I, st, args, ret):
    """Pair::with_indices(needle, i1, i2): accepts exactly the distinct in-range pairs, and returns them unchanged"""
    if not (isinstance(args[0], SliceV) and isinstance(args[1], IntV) and isinstance(args[2], IntV) and isinstance(ret, AdtV) and ret.variant is not None):
        return [('result and arguments tracked', False, 'not tracked')]
    n, i1, i2 = args[0].n, args[1].e, args[2].e
    if ret.variant == 0:
        reasons = [('eq', i1 - i2), ('le', n - i1), ('le', n - i2)]
        ok = any(_ent(st, r) for r in reasons)
        return [('None => index1 == index2, or an index is outside the needle', ok, '' if ok else 'None returned on a path where the pair is not known to be invalid')]
    p = ret.fields[0]
    ok = all(isinstance(p.fields[k], IntV) for k in (0, 1)) and _ent(st, ('eq', p.fields[0].e - i1)) and _ent(st, ('eq', p.fields[1].e - i2))
    return [('Some => the pair holds exactly the offsets given', ok, '' if ok else f'pair {p} vs ({st.store.nf(i1)}, {st.store.nf(i2)})')]


def _find_pairs(I, v, out, depth=0):
    if depth > 4 or not isinstance(v, AdtV) or v.fields is None:
        return
    if tpath(I, v) == PAIR:
        out.append(v)
        return
    for f in v.fields:
        _find_pairs(I, f, out, depth + 1)


def _spec_with_pair(I, st, args, ret):
    """packedpair::Finder::with_pair(needle, pair): the finder built reports the pair it was given"""
    if not (isinstance(ret, AdtV) and ret.variant is not None):
        return [('result tracked', False, 'Option variant not tracked')]
    if ret.variant == 0:
        return []
    ps = []
    _find_pairs(I, ret.fields[0], ps)
    given = args[1]
    ok = bool(ps) and all(isinstance(p.fields[k], IntV) and isinstance(given.fields[k], IntV) and _ent(st, ('eq', p.fields[k].e - given.fields[k].e))
                          for p in ps for k in (0, 1))
    return [('Some(finder) => every pair stored in the finder is the pair given', ok, '' if ok else f'{len(ps)} stored pair(s) {ps} vs given {given}')]


def _spec_pair_accessor(I, st, args, ret):
    """Finder::pair(&self) returns a reference to a pair stored in self that equals the stored pair"""
    f = follow(I, st, args[0])
    p = follow(I, st, ret)
    ps = []
    _find_pairs(I, f, ps)
    ok = tpath(I, p) == PAIR and bool(ps) and all(isinstance(p.fields[k], IntV) and _ent(st, ('eq', p.fields[k].e - ps[0].fields[k].e)) for k in (0, 1))
    return [('pair() returns the stored pair', ok, '' if ok else f'returned {p}, stored {ps[:1]}')]


def _spec_index_accessor(k):
    def f(I, st, args, ret):
        p = follow(I, st, args[0])
        ok = tpath(I, p) == PAIR and isinstance(ret, IntV) and isinstance(p.fields[k], IntV) and _ent(st, ('eq', ret.e - p.fields[k].e))
        return [(f'index{k + 1}() returns the stored offset', ok, '' if ok else f'returned {ret}, stored {p}')]
    return f


def _spec_min_len(I, st, args, ret):
    f = follow(I, st, args[0])
    m = pp_min_len(I, st, f)
    ok = m is not None and isinstance(ret, IntV) and _ent(st, ('eq', ret.e - m))
    return [('min_haystack_len() returns the stored minimum of the first vector finder', ok, '' if ok else f'returned {ret}')]


def _byte_is(I, st, x, region, off):
    """is the abstract byte x the content of (region, off)?"""
    from . import eqg
    if isinstance(x, TermV) and isinstance(x.t, tuple) and x.t and x.t[0] == 'splat':
        e = x.t[1]
    elif isinstance(x, IntV):
        e = x.e
    else:
        return False
    e = st.store.nf(e)
    if e.k != 0 or len(e.t) != 1 or e.t[0][1] != 1:
        return False
    o = eqg.byte_origin(st, e.t[0][0])
    return o is not None and o[0] == region and st.store.entails_eq(o[1] - off)


def _spec_content_packed(I, st, args, ret):
    """packedpair::Finder::with_pair(needle, pair): the stored comparison bytes are needle[index1], needle[index2]"""
    if not (isinstance(ret, AdtV) and ret.variant is not None and isinstance(args[0], SliceV)):
        return [('result tracked', False, 'Option variant / needle not tracked')]
    out = _spec_with_pair(I, st, args, ret)
    if ret.variant == 0:
        return out
    f = ret.fields[0]
    nd = args[0]
    gens = []
    if tpath(I, f) == PP_ALL:
        gens = [(f.fields[0], f.fields[1], f.fields[2])]
    else:
        for x in ([f] if tpath(I, f) == PP_GEN else f.fields):
            if tpath(I, x) == PP_GEN:
                gens.append((x.fields[0], x.fields[1], x.fields[2]))
    ok = bool(gens)
    for pair, x1, x2 in gens:
        ok = ok and _byte_is(I, st, x1, nd.ptr.r, nd.ptr.off + pair.fields[0].e) and _byte_is(I, st, x2, nd.ptr.r, nd.ptr.off + pair.fields[1].e)
    out.append(('Some(finder) => the finder compares against needle[index1] and needle[index2]', ok,
                '' if ok else f'stored bytes {[(str(a), str(b)) for _, a, b in gens]} are not the needle bytes at the pair offsets'))
    return out


def _spec_prefilter_ctor(needle_idx, finder_idx):
    def f(I, st, args, ret):
        pf = ret
        if isinstance(ret, AdtV) and tpath(I, ret) == 'core::option::Option':
            if ret.variant == 0:
                return []
            pf = ret.fields[0] if ret.variant == 1 else None
        nd = args[needle_idx]
        if not (isinstance(pf, AdtV) and tpath(I, pf) == PREFILTER and isinstance(nd, SliceV)):
            return [('result tracked', False, 'prefilter / needle not tracked')]
        rb, ro = pf.fields[2], pf.fields[3]
        ps = []
        _find_pairs(I, pf.fields[1].val if isinstance(pf.fields[1], UnionV) else None, ps)
        ok_off = bool(ps) and isinstance(ro, IntV) and all(_ent(st, ('eq', ro.e - p.fields[0].e)) for p in ps)
        ok_byte = isinstance(ro, IntV) and _byte_is(I, st, rb, nd.ptr.r, nd.ptr.off + ro.e)
        return [('rarest_offset is index1 of the finder stored in the prefilter', ok_off, '' if ok_off else f'rarest_offset {ro}, pairs {ps}'),
                ('rarest_byte is needle[rarest_offset]', ok_byte, '' if ok_byte else f'rarest_byte {rb}')]
    return f


def _same_slice(st, a, b):
    return (isinstance(a, SliceV) and isinstance(b, SliceV) and a.ptr.r == b.ptr.r
            and st.store.entails_eq(a.ptr.off - b.ptr.off) and st.store.entails_eq(a.n - b.n))


def _same_opt(st, a, b):
    if not (isinstance(a, AdtV) and isinstance(b, AdtV)) or a.variant is None or a.variant != b.variant:
        return False
    return a.variant == 0 or (isinstance(a.fields[0], IntV) and isinstance(b.fields[0], IntV) and st.store.entails_eq(a.fields[0].e - b.fields[0].e))


def _spec_iter_into_owned(I, st, args, ret):
    """into_owned of an iterator changes only who owns the needle: same haystack window, same position"""
    a = args[0]
    p = tpath(I, a)
    if p != tpath(I, ret) or p not in (FIND_ITER, FIND_REV_ITER):
        return [('iterator values tracked', False, f'{a} -> {ret}')]
    out = [('into_owned keeps the haystack', _same_slice(st, a.fields[0], ret.fields[0]), '')]
    if p == FIND_ITER:
        ok = isinstance(a.fields[3], IntV) and isinstance(ret.fields[3], IntV) and st.store.entails_eq(a.fields[3].e - ret.fields[3].e)
        nl = (cow_len(I, st, a.fields[2].fields[0]), cow_len(I, st, ret.fields[2].fields[0]))
    else:
        ok = _same_opt(st, a.fields[2], ret.fields[2])
        nl = (cow_len(I, st, a.fields[1].fields[0]), cow_len(I, st, ret.fields[1].fields[0]))
    out.append(('into_owned keeps the position', ok, '' if ok else f'{a} -> {ret}'))
    okn = nl[0] is not None and nl[1] is not None and st.store.entails_eq(nl[0] - nl[1])
    out.append(('into_owned keeps the needle length', okn, ''))
    return out


def _spec_iter_new(hidx, rev):
    def f(I, st, args, ret):
        hs = args[hidx]
        p = tpath(I, ret)
        if p not in (FIND_ITER, FIND_REV_ITER) or not isinstance(hs, SliceV):
            return [('iterator value tracked', False, f'{ret}')]
        out = [('the iterator searches the haystack given', _same_slice(st, hs, ret.fields[0]), '')]
        if not rev:
            ok = isinstance(ret.fields[3], IntV) and st.store.entails_eq(ret.fields[3].e)
            out.append(('a new forward iterator starts at pos = 0', ok, '' if ok else f'{ret.fields[3]}'))
        else:
            pos = ret.fields[2]
            ok = isinstance(pos, AdtV) and pos.variant == 1 and isinstance(pos.fields[0], IntV) and st.store.entails_eq(pos.fields[0].e - hs.n)
            out.append(('a new reverse iterator starts at pos = Some(haystack.len())', ok, '' if ok else f'{pos}'))
        return out
    return f


def _spec_shiftor_new(I, st, args, ret):
    n = args[0].n if isinstance(args[0], SliceV) else None
    if n is None or not isinstance(ret, AdtV) or ret.variant is None:
        return [('result tracked', False, '')]
    if ret.variant == 0:
        ok = _ent(st, ('le', C(16) - n))
        return [('shiftor::Finder::new: None => needle.len() > 15', ok, '')]
    f = ret.fields[0]
    ok = isinstance(f, AdtV) and len(f.fields) == 2 and isinstance(f.fields[1], IntV) and _ent(st, ('eq', f.fields[1].e - n)) and _ent(st, ('le', n - 15))
    return [('shiftor::Finder::new: Some(f) => needle.len() <= 15 and f remembers that length', ok, '' if ok else f'{f}')]


SPEC_TABLE = [
    (re.compile(r"^arch::all::shiftor::Finder::new$"), _spec_shiftor_new),
    (re.compile(r"^memmem::(FindIter|FindRevIter)::<.*>::into_owned$"), _spec_iter_into_owned),
    (re.compile(r"^memmem::find_iter(::<.*>)?$"), _spec_iter_new(0, False)),
    (re.compile(r"^memmem::rfind_iter(::<.*>)?$"), _spec_iter_new(0, True)),
    (re.compile(r"^memmem::Finder::<.*>::find_iter$"), _spec_iter_new(1, False)),
    (re.compile(r"^memmem::FinderRev::<.*>::rfind_iter$"), _spec_iter_new(1, True)),
    (re.compile(r'^memmem::searcher::Prefilter::(sse2|avx2|neon|simd128)$'), _spec_prefilter_ctor(1, 0)),
    (re.compile(r'^memmem::searcher::Prefilter::fallback(::<.*>)?$'), _spec_prefilter_ctor(2, None)),
    (re.compile(r'^arch::all::packedpair::Pair::with_indices$'), _spec_indices),
    (re.compile(r'^arch::' + _ARCH + r'::packedpair::Finder::with_pair$'), _spec_content_packed),
    (re.compile(r'^arch::' + _ARCH + r'::packedpair::Finder::pair$'), _spec_pair_accessor),
    (re.compile(r'^arch::all::packedpair::Pair::index1$'), _spec_index_accessor(0)),
    (re.compile(r'^arch::all::packedpair::Pair::index2$'), _spec_index_accessor(1)),
    (re.compile(r'^arch::(x86_64::sse2|x86_64::avx2|aarch64::neon|wasm32::simd128)::packedpair::Finder::min_haystack_len$'), _spec_min_len),
]


def check_spec_post(I, inst, results, args):
    row = lookup(SPEC_TABLE, inst.path)
    if not row:
        return
    fr = _Fr(inst)
    seen_variants = set()
    for st, ret in results:
        if not (st.store.is_sat() and st.store.check_sat()):
            continue
        if isinstance(ret, AdtV) and ret.variant is not None:
            seen_variants.add(ret.variant)
        try:
            items = row[1](I, st, _args_of(st, args), ret)
        except (AttributeError, TypeError, IndexError) as e:
            items = [('values tracked', False, f'{type(e).__name__}: {e}')]
        for label, ok, det in items:
            I.ob('SPEC-POST', fr, inst.loc, label, ok, det)


# ------------------------------------------------------------------ Two-Way small period: the shift memory
# find_small_imp / rfind_small_imp remember in `shift` how much of the needle is already known to match at the
# NEXT position.  That knowledge exists only right after moving by exactly `period` from the position at which
# the comparisons were made (the needle overlaps itself there), and covers at most needle.len() - period bytes.
# Per loop iteration (transfer obligation on every back edge, `step` = size of the LAST move of `pos` on the path):
#   forward:  shift' == 0             or  (step == +period  and  shift' + period <= needle.len())
#   reverse:  shift' == needle.len()  or  (step == -period  and  shift' >= period)
# Every violation makes the searcher skip comparisons of bytes it knows nothing about.
MEMO_LOOPS = [
    (re.compile(r'^arch::all::twoway::Finder::find_small_imp$'), 'fwd'),
    (re.compile(r'^arch::all::twoway::FinderRev::rfind_small_imp$'), 'rev'),
]


_ROLES = {}


def memo_roles(inst):
    if inst.key not in _ROLES:
        r = _memo_roles(inst)
        if r is None:
            nm = _named_locals(inst)
            r = {k: nm[k] for k in ('pos', 'shift', 'period', 'needle')} if all(k in nm for k in ('pos', 'shift', 'period', 'needle')) else None
        _ROLES[inst.key] = r
    return _ROLES[inst.key]


def on_memo_return(I, fr, st, ret):
    """a small-period Two-Way loop returns: remember how much of the needle its shift memory vouched for"""
    roles = memo_roles(fr.inst)
    if not roles or not (isinstance(ret, AdtV) and ret.variant == 1):
        return
    sh = st.frames.get(fr.fid, {}).get(roles['shift'])
    if isinstance(sh, IntV):
        st.ghost['memo_ret_shift'] = (lookup(MEMO_LOOPS, fr.inst.path)[1], st.store.nf(sh.e))


def memo_pos_local(inst):
    if not lookup(MEMO_LOOPS, inst.path):
        return None
    r = memo_roles(inst)
    return r['pos'] if r else None


def _named_locals(inst):
    out = {}
    for d in inst.j.get('debug', []):
        if not d['p']['pr']:
            out.setdefault(d['name'], d['p']['l'])
    return out


def _memo_roles(inst):
    """locals playing the roles pos / shift / period / needle in a small-period Two-Way loop.  Identified by
    STRUCTURE (so that renaming a variable is not an alarm): `period` is the last argument, `needle` the slice
    argument before it, `shift` is the local combined with critical_pos by cmp::max / cmp::min, `pos` is the other
    integer local that is carried around the outer loop (assigned in the loop from its own previous value)."""
    from .prog import sources
    n = inst.arg_count
    roles = {'period': n, 'needle': n - 1}
    shift = None
    for b, t in inst.calls():
        cp = t['callee'].get('path', '')
        if re.match(r'^core::cmp::(max|min)(::<.*>)?$', cp) and len(t['args']) == 2:
            locs = []
            for a in t['args']:
                srcs = sources(inst, a)
                if srcs and all(x[0] == 'proj' and x[1]['l'] <= inst.arg_count for x in srcs):
                    continue            # a field of an argument (self.0.critical_pos)
                if a['k'] in ('copy', 'move') and not a['p']['pr']:
                    # follow plain copies back to the user variable
                    l = a['p']['l']
                    for _ in range(4):
                        defs = [d for (bb, i, d) in inst.assignments_to(l) if i != 'term' and d['k'] == 'use' and d['op']['k'] in ('copy', 'move') and not d['op']['p']['pr']]
                        if len(defs) == 1 and len(inst.assignments_to(l)) == 1:
                            l = defs[0]['op']['p']['l']
                        else:
                            break
                    locs.append(l)
            if len(locs) == 1:
                shift = locs[0]
    if shift is None:
        return None
    roles['shift'] = shift
    # pos: an integer local updated from itself (pos = pos +/- x) other than shift, declared outside the loops
    usize = None
    cands = {}
    for b, i, s_ in inst.stmts():
        if s_['k'] != 'assign' or s_['p']['pr']:
            continue
        l = s_['p']['l']
        if l == shift or l <= inst.arg_count:
            continue
        rv = s_['rv']
        if rv['k'] == 'use' and rv['op']['k'] in ('copy', 'move') and rv['op']['p']['pr'] and rv['op']['p']['pr'][0]['k'] == 'field':
            # pos = move (_t.0) of a checked add/sub on pos
            t_l = rv['op']['p']['l']
            for (bb, ii, d) in inst.assignments_to(t_l):
                if ii != 'term' and d['k'] in ('bin', 'checked_bin') and any(o['k'] in ('copy', 'move') and not o['p']['pr'] and o['p']['l'] == l for o in (d['a'], d['b'])):
                    cands[l] = cands.get(l, 0) + 1
        elif rv['k'] in ('bin', 'checked_bin') and any(o['k'] in ('copy', 'move') and not o['p']['pr'] and o['p']['l'] == l for o in (rv['a'], rv['b'])):
            cands[l] = cands.get(l, 0) + 1
    named = set(_named_locals(inst).values())
    best = sorted((l for l in cands if l in named or not named), key=lambda l: -cands[l])
    if not best:
        return None
    roles['pos'] = best[0]
    return roles


SUFFIX_LOOPS = re.compile(r'^arch::all::twoway::Suffix::(forward|reverse)$')


def suffix_transfer(I, fr, h, body, H, backs):
    """maximal/minimal suffix computation: per iteration either the comparison offset advances by one with the candidate
    unchanged, or the candidate start moves and the comparison restarts at offset 0"""
    names = _named_locals(fr.inst)
    if 'candidate_start' not in names or 'offset' not in names:
        I.ob('SUFFIX-STEP', fr, fr.inst.loc, 'suffix scan: variables candidate_start / offset identified', False, f'debug names: {sorted(names)}')
        return
    hl = H.frames.get(fr.fid, {})
    csH, ofH = hl.get(names['candidate_start']), hl.get(names['offset'])
    if not (isinstance(csH, IntV) and isinstance(ofH, IntV)):
        I.ob('SUFFIX-STEP', fr, fr.inst.loc, 'suffix scan: loop state tracked', False, '')
        return
    fwd = fr.inst.path.endswith('::forward')
    label = ('suffix scan: after an iteration offset\' == offset + 1 with the candidate unchanged, or the candidate start moved '
             + ('forward' if fwd else 'backward') + ' and offset\' == 0')
    for B in backs:
        if not (B.store.is_sat() and B.store.check_sat()):
            continue
        bl = B.frames.get(fr.fid, {})
        csB, ofB = bl.get(names['candidate_start']), bl.get(names['offset'])
        if not (isinstance(csB, IntV) and isinstance(ofB, IntV)):
            I.ob('SUFFIX-STEP', fr, fr.inst.loc, label, False, 'candidate_start / offset not tracked on a back edge')
            continue
        s = B.store
        same = s.entails_eq(csB.e - csH.e) and s.entails_eq(ofB.e - ofH.e - 1)
        moved = (s.entails_le(csH.e + 1 - csB.e) if fwd else s.entails_le(csB.e + 1 - csH.e)) and s.entails_eq(ofB.e)
        ok = same or moved
        I.ob('SUFFIX-STEP', fr, fr.inst.loc, label, ok,
             '' if ok else f"back edge with candidate_start' - candidate_start = {s.nf(csB.e - csH.e)}, offset' = {s.nf(ofB.e)}, offset = {s.nf(ofH.e)}")
        # linear work of the preprocessing: the potential  2*pos + candidate_start + offset  (mirrored in reverse)
        # strictly increases in every iteration and is bounded by 3 * needle.len()
        sfx = names.get('suffix')
        pH = hl.get(sfx) if sfx is not None else None
        pB = bl.get(sfx) if sfx is not None else None
        try:
            posH, posB = pH.fields[0].e, pB.fields[0].e
        except (AttributeError, IndexError, TypeError):
            I.ob('SUFFIX-RANK', fr, fr.inst.loc, 'suffix scan: the running suffix position is tracked', False, '')
            continue
        if fwd:
            d = (posB * 2 + csB.e + ofB.e) - (posH * 2 + csH.e + ofH.e)
        else:
            d = (-posB * 2 - csB.e + ofB.e) - (-posH * 2 - csH.e + ofH.e)
        okr = s.entails_le(C(1) - d)
        I.ob('SUFFIX-RANK', fr, fr.inst.loc, 'suffix scan: the potential 2*pos + candidate_start + offset (mirrored in reverse) strictly increases per iteration', okr,
             '' if okr else f"potential changes by {s.nf(d)} on a back edge")


def loop_transfer(I, fr, h, body, H, backs):
    if SUFFIX_LOOPS.match(fr.inst.path):
        suffix_transfer(I, fr, h, body, H, backs)
        return
    row = lookup(MEMO_LOOPS, fr.inst.path)
    if not row:
        return
    mode = row[1]
    names = memo_roles(fr.inst)
    if names is None:
        I.ob('MEMO', fr, fr.inst.loc, 'shift memory: variables pos / shift / period / needle identified', False,
             'neither by structure (cmp::max/min with critical_pos; self-updated position) nor by name')
        return
    from .loops import syntactic_modified
    if names['pos'] not in syntactic_modified(I, fr, body, H):
        return                                  # an inner comparison loop: neither pos nor shift changes
    hl = H.frames.get(fr.fid, {})
    posH, per, nd = hl.get(names['pos']), hl.get(names['period']), hl.get(names['needle'])
    if not (isinstance(posH, IntV) and isinstance(per, IntV) and isinstance(nd, SliceV)):
        I.ob('MEMO', fr, fr.inst.loc, 'shift memory: loop state tracked', False, 'pos / period / needle not tracked at the loop head')
        return
    label = ('shift memory (forward): after an iteration shift == 0, or the last move was exactly +period and shift + period <= needle.len()'
             if mode == 'fwd' else
             'shift memory (reverse): after an iteration shift == needle.len(), or the last move was exactly -period and shift >= period')
    for B in backs:
        if not (B.store.is_sat() and B.store.check_sat()):
            continue
        bl = B.frames.get(fr.fid, {})
        posB, shB = bl.get(names['pos']), bl.get(names['shift'])
        if not (isinstance(posB, IntV) and isinstance(shB, IntV)):
            I.ob('MEMO', fr, fr.inst.loc, label, False, 'pos / shift not tracked on a back edge')
            continue
        s = B.store
        ms = B.ghost.get('memo_step')
        step = ms[1] if ms and ms[0] == fr.fid else None
        if mode == 'fwd':
            ok = s.entails_eq(shB.e) or (step is not None and s.entails_eq(step - per.e) and s.entails_le(shB.e + per.e - nd.n))
        else:
            ok = s.entails_eq(shB.e - nd.n) or (step is not None and s.entails_eq(step + per.e) and s.entails_le(per.e - shB.e))
        I.ob('MEMO', fr, fr.inst.loc, label, ok,
             '' if ok else f"back edge with last move of pos = {s.nf(step) if step is not None else '?'}, shift' = {s.nf(shB.e)}, period = {s.nf(per.e)}, needle.len() = {s.nf(nd.n)}")


# ------------------------------------------------------------------ "the returned offset was verified"
VERIFIED_ROOTS = [
    (re.compile(r'^arch::all::rabinkarp::(Finder::find|FinderRev::rfind)$'), None),
    (re.compile(r'^arch::(x86_64::sse2|x86_64::avx2|aarch64::neon|wasm32::simd128)::packedpair::Finder::find$'), None),
    (re.compile(r'^arch::all::twoway::(Finder::find|FinderRev::rfind)$'), 'large-only'),
]
MM_VERIFIED = re.compile(r"^memmem::Finder::<'.*>::find$|^memmem::FinderRev::<'.*>::rfind(::<.*>)?$")


def _tw_is_large(I, st, finder):
    try:
        return finder.fields[0].fields[2].variant == 1
    except (AttributeError, IndexError, TypeError):
        return False


def verified_summary(I, st, callee, args, ret):
    """a cut building-block search returned Some(i): what its own root proves (POST-VERIFIED) is recorded in
    the EQ ghost of the caller -- for Two-Way only when the finder is a large-period one"""
    row = lookup(VERIFIED_ROOTS, callee.path)
    if not row or len(args) < 3 or not (isinstance(args[1], SliceV) and isinstance(args[2], SliceV)):
        return
    if not (isinstance(ret, AdtV) and ret.variant == 1 and isinstance(ret.fields[0], IntV)):
        return
    if row[1] == 'large-only' and not _tw_is_large(I, st, follow(I, st, args[0])):
        return
    from . import eqg
    hs, nd = args[1], args[2]
    eqg.on_equal(I, st, nd.ptr.r, nd.ptr.off, hs.ptr.r, hs.ptr.off + ret.fields[0].e, nd.n)


def _searcher_kind_name(I, st, finder):
    """('two_way', is_large) etc. for a memmem::Finder / FinderRev value"""
    try:
        srch = finder.fields[1]
        if tpath(I, srch) == SEARCHER:
            kind = srch.fields[1]
            name = I.P.types[kind.tid]['variants'][0]['fields'][kind.active]['name']
            val = kind.val
            if name == 'two_way':
                return name, _tw_is_large(I, st, val)
            if name == 'two_way_with_prefilter':
                return name, _tw_is_large(I, st, val.fields[0])
            return name, True
        kind = srch.fields[0]
        if kind.variant == 2:
            return 'two_way', _tw_is_large(I, st, kind.fields[0])
        return ('empty', 'one_byte')[kind.variant], True
    except (AttributeError, IndexError, TypeError, KeyError):
        return None, False


def check_verified_mm(I, inst, results, args):
    """POST-VERIFIED for the meta searcher: whatever strategy answered, Some(i) was verified at offset i of the
    haystack GIVEN TO THIS CALL (a sub-search must be rebased).  Not decided for empty / one-byte needles
    (nothing to compare / C01) and for small-period Two-Way."""
    if not MM_VERIFIED.match(inst.path) or len(args) < 2 or not isinstance(args[1], SliceV):
        return
    from . import eqg
    fr = _Fr(inst)
    hs = args[1]
    for st, ret in results:
        if not (st.store.is_sat() and st.store.check_sat()):
            continue
        if isinstance(ret, AdtV) and ret.variant == 0:
            f0 = follow(I, st, args[0])
            if _searcher_kind_name(I, st, f0)[0] == 'empty':
                I.ob('SPEC-POST', fr, inst.loc, 'the empty needle always matches', False, 'None returned by the empty-needle searcher')
            continue
        if not (isinstance(ret, AdtV) and ret.variant == 1 and isinstance(ret.fields[0], IntV)):
            continue
        f = follow(I, st, args[0])
        name, decidable = _searcher_kind_name(I, st, f)
        if name == 'empty':
            want = C(0) if 'Rev' not in inst.path else hs.n
            ok = st.store.entails_eq(ret.fields[0].e - want)
            I.ob('SPEC-POST', fr, inst.loc, 'the empty needle matches at offset 0 (forward) / haystack.len() (reverse)', ok,
                 '' if ok else f'returned {st.store.nf(ret.fields[0].e)}')
            continue
        if name in (None, 'one_byte') or not decidable:
            continue
        nd = follow(I, st, f.fields[0])
        for _ in range(6):
            if isinstance(nd, AdtV) and nd.fields:
                nd = follow(I, st, nd.fields[0])
        if not isinstance(nd, SliceV):
            I.ob('POST-VERIFIED', fr, inst.loc, f'[{name}] needle of the finder tracked', False, '')
            continue
        i = ret.fields[0].e
        ok = eqg.covered(st, nd.ptr.r, nd.ptr.off, hs.ptr.r, hs.ptr.off + i, nd.n)
        I.ob('POST-VERIFIED', fr, inst.loc, f'[{name}] Some(i) => the needle was compared equal with haystack[i..i+needle.len()] of THIS call', ok,
             '' if ok else f"compared-equal interval {eqg.get(st, *sorted((nd.ptr.r, hs.ptr.r)))} does not cover the needle at offset {st.store.nf(i)}")


def check_verified(I, inst, results, args):
    check_verified_mm(I, inst, results, args)
    _check_verified_leaf(I, inst, results, args)


def _check_verified_leaf(I, inst, results, args):
    """POST-VERIFIED: Some(i) is returned only after every byte of the needle was compared equal with
    haystack[i..i+needle.len()] (EQ ghost).  For Two-Way this is decidable for the large-period searcher only:
    the small-period one skips the bytes its shift memory vouches for (see MEMO)."""
    row = lookup(VERIFIED_ROOTS, inst.path)
    if not row or len(args) < 3 or not (isinstance(args[1], SliceV) and isinstance(args[2], SliceV)):
        return
    from . import eqg
    fr = _Fr(inst)
    hs, nd = args[1], args[2]
    n_some = 0
    for st, ret in results:
        if not (st.store.is_sat() and st.store.check_sat()):
            continue
        if not (isinstance(ret, AdtV) and ret.variant == 1 and isinstance(ret.fields[0], IntV)):
            continue
        if st.store.entails_le(nd.n):
            continue            # empty needle: nothing to compare
        i = ret.fields[0].e
        if row[1] == 'large-only' and not _tw_is_large(I, st, follow(I, st, args[0])):
            # small period: everything the shift memory does NOT vouch for was compared
            ms = st.ghost.get('memo_ret_shift')
            if ms is None:
                I.ob('POST-VERIFIED', fr, inst.loc, 'small period: shift memory at the match recorded', False, 'no small-period return recorded on this path')
                continue
            mode, sh = ms
            if mode == 'fwd':       # memory vouches for needle[..shift]: needle[shift..] must have been compared
                ok = eqg.covered(st, nd.ptr.r, nd.ptr.off + sh, hs.ptr.r, hs.ptr.off + i + sh, nd.n - sh)
                lab = 'small period: Some(i) => needle[shift..] was compared equal with haystack[i+shift..i+needle.len()]'
            else:                   # memory vouches for needle[shift..]: needle[..shift] must have been compared
                ok = eqg.covered(st, nd.ptr.r, nd.ptr.off, hs.ptr.r, hs.ptr.off + i, sh)
                lab = 'small period (reverse): Some(i) => needle[..shift] was compared equal with haystack[i..i+shift]'
            n_some += 1
            I.ob('POST-VERIFIED', fr, inst.loc, lab, ok,
                 '' if ok else f"compared-equal interval {eqg.get(st, *sorted((nd.ptr.r, hs.ptr.r)))} (either orientation), shift = {st.store.nf(sh)}, offset {st.store.nf(i)}")
            continue
        n_some += 1
        ok = eqg.covered(st, nd.ptr.r, nd.ptr.off, hs.ptr.r, hs.ptr.off + i, nd.n)
        I.ob('POST-VERIFIED', fr, inst.loc, 'Some(i) => needle[..] was compared equal with haystack[i..i+needle.len()]', ok,
             '' if ok else f"compared-equal interval {eqg.get(st, *sorted((nd.ptr.r, hs.ptr.r)))} (either orientation) does not cover the needle at offset {st.store.nf(i)}")
    I.ob('POST-VERIFIED', fr, inst.loc, 'a match path exists (non-vacuous)', n_some > 0, f'{n_some} Some(..) path(s) examined')


# ------------------------------------------------------------------ C08: substring iterators (transfer obligations)
FIND_ITER = 'memmem::FindIter'
FIND_REV_ITER = 'memmem::FindRevIter'
IT_ROOTS = re.compile(r"^<memmem::(FindIter|FindRevIter)<.*> as core::iter::Iterator>::(next|size_hint)$")


def record_iter_entry(I, inst, st, args):
    """remember the iterator's window at entry (for the transfer obligations at exit)"""
    if not IT_ROOTS.match(inst.path) or not args:
        return
    it = follow(I, st, args[0])
    p = tpath(I, it)
    if p == FIND_ITER and len(it.fields) == 4 and isinstance(it.fields[0], SliceV) and isinstance(it.fields[3], IntV):
        st.ghost['it_old'] = ('fwd', it.fields[0], it.fields[3].e, cow_len(I, st, it.fields[2].fields[0]))
    elif p == FIND_REV_ITER and len(it.fields) == 3 and isinstance(it.fields[0], SliceV) and isinstance(it.fields[2], AdtV):
        pos = it.fields[2]
        pv = pos.fields[0].e if pos.variant == 1 and isinstance(pos.fields[0], IntV) else None
        st.ghost['it_old'] = ('rev', it.fields[0], (pos.variant, pv), cow_len(I, st, it.fields[1].fields[0]))


def check_iter_post(I, inst, results, args):
    if not IT_ROOTS.match(inst.path) or not args:
        return
    fr = _Fr(inst)
    meth = inst.path.rsplit('::', 1)[-1]
    n_checked = 0
    for st, ret in results:
        if not (st.store.is_sat() and st.store.check_sat()):
            continue
        old = st.ghost.get('it_old')
        it = follow(I, st, args[0])
        if old is None or not isinstance(it, AdtV):
            I.ob('IT-TRANSFER', fr, inst.loc, f'{meth}: iterator state tracked', False, 'iterator value not tracked')
            continue
        s = st.store
        mode, hs, opos, n = old
        if n is None:
            I.ob('IT-TRANSFER', fr, inst.loc, f'{meth}: needle length tracked', False, '')
            continue
        n_checked += 1
        if meth == 'size_hint' and mode == 'fwd':
            lo, hi = ret.fields if isinstance(ret, AdtV) and ret.fields and len(ret.fields) == 2 else (None, None)
            if not (isinstance(lo, IntV) and isinstance(hi, AdtV) and hi.variant is not None):
                I.ob('SIZE-HINT', fr, inst.loc, 'size_hint: result tracked', False, f'{ret}')
                continue
            hv = hi.fields[0].e if hi.variant == 1 and isinstance(hi.fields[0], IntV) else None
            rem = hs.n - opos          # bytes still to be searched
            if s.entails_le(rem + 1):                                   # pos > len: exhausted
                ok = s.entails_eq(lo.e) and hv is not None and s.entails_eq(hv)
                I.ob('SIZE-HINT', fr, inst.loc, 'size_hint: exhausted iterator (pos > haystack.len()) => (0, Some(0))', ok, '' if ok else f'{ret}')
            elif s.entails_le(-rem) and s.entails_eq(n):                # empty needle: exactly len - pos + 1 matches to come
                ok = s.entails_eq(lo.e - (rem + 1)) and hv is not None and s.entails_eq(hv - (rem + 1))
                I.ob('SIZE-HINT', fr, inst.loc, 'size_hint: empty needle => both bounds are haystack.len() - pos + 1', ok, '' if ok else f'{ret}')
            elif s.entails_le(-rem) and s.entails_le(C(1) - n):         # at most floor(rem / n) non-overlapping matches
                dv = st.ghost.get('divs', {})
                ok_lo = s.entails_eq(lo.e)
                ok_hi = hi.variant == 0
                if hv is not None:
                    hn = s.nf(hv)
                    if len(hn.t) == 1 and hn.k == 0 and hn.t[0][1] == 1 and hn.t[0][0] in dv:
                        a, b = dv[hn.t[0][0]]
                        ok_hi = s.entails_eq(a - rem) and s.entails_eq(b - n)
                    cn = s.const_value(n)
                    if not ok_hi and cn:
                        ok_hi = s.entails_le((rem - (cn - 1)) - hv * cn)       # hv >= floor(rem / cn)
                I.ob('SIZE-HINT', fr, inst.loc, 'size_hint: lower bound 0, upper bound floor((haystack.len() - pos) / needle.len()) (or none)', ok_lo and ok_hi,
                     '' if ok_lo and ok_hi else f'{ret}')
            else:
                I.ob('SIZE-HINT', fr, inst.loc, 'size_hint: case determined', False, f'cannot place pos = {s.nf(opos)} relative to len / needle length {s.nf(n)}')
            continue
        if meth != 'next':
            continue
        if not (isinstance(ret, AdtV) and ret.variant is not None):
            I.ob('IT-TRANSFER', fr, inst.loc, 'next: result is a definite Some/None', False, f'{ret}')
            continue
        if mode == 'fwd':
            npos = it.fields[3]
            if not isinstance(npos, IntV):
                I.ob('IT-TRANSFER', fr, inst.loc, 'next: pos tracked at exit', False, '')
                continue
            if ret.variant == 0:
                ok = s.entails_eq(npos.e - opos)
                I.ob('IT-TRANSFER', fr, inst.loc, 'next: None leaves pos unchanged (fused)', ok, '' if ok else f"pos' = {s.nf(npos.e)}, pos = {s.nf(opos)}")
            else:
                x = ret.fields[0]
                if not isinstance(x, IntV):
                    I.ob('IT-TRANSFER', fr, inst.loc, 'next: yielded offset tracked', False, '')
                    continue
                ok1 = s.entails_le(opos - x.e) and s.entails_le(x.e + n - hs.n)
                I.ob('IT-TRANSFER', fr, inst.loc, 'next: Some(i) => pos <= i and i + needle.len() <= haystack.len()', ok1,
                     '' if ok1 else f"i = {s.nf(x.e)}, pos = {s.nf(opos)}")
                if s.entails_le(C(1) - n):
                    ok2 = s.entails_eq(npos.e - (x.e + n))
                elif s.entails_eq(n):
                    ok2 = s.entails_eq(npos.e - (x.e + 1))
                else:
                    ok2 = False
                I.ob('IT-TRANSFER', fr, inst.loc, "next: Some(i) => pos' = i + max(needle.len(), 1)", ok2,
                     '' if ok2 else f"pos' = {s.nf(npos.e)}, i = {s.nf(x.e)}, needle.len() = {s.nf(n)}")
        else:
            npos = it.fields[2]
            ovar, oval = opos
            if not (isinstance(npos, AdtV) and npos.variant is not None):
                I.ob('IT-TRANSFER', fr, inst.loc, 'next (rev): pos tracked at exit', False, '')
                continue
            same = npos.variant == ovar and (ovar == 0 or (isinstance(npos.fields[0], IntV) and s.entails_eq(npos.fields[0].e - oval)))
            if ret.variant == 0:
                I.ob('IT-TRANSFER', fr, inst.loc, 'next (rev): None leaves pos unchanged (fused)', same, '' if same else f"pos' = {npos}")
            else:
                x = ret.fields[0]
                if ovar != 1 or not isinstance(x, IntV):
                    I.ob('IT-TRANSFER', fr, inst.loc, 'next (rev): Some(i) only from a live window', False, f'old pos {opos}, result {ret}')
                    continue
                ok1 = s.entails_le(x.e + n - oval)
                I.ob('IT-TRANSFER', fr, inst.loc, 'next (rev): Some(i) => i + needle.len() <= pos', ok1, '' if ok1 else f"i = {s.nf(x.e)}, pos = {s.nf(oval)}")
                if s.entails_le(C(1) - n) or s.entails_le(x.e + 1 - oval):
                    # a non-empty needle (or any match strictly inside): the window shrinks to end at the match start
                    ok2 = npos.variant == 1 and isinstance(npos.fields[0], IntV) and s.entails_eq(npos.fields[0].e - x.e)
                    lab = "next (rev): Some(i), i < pos => pos' = Some(i)"
                elif s.entails_eq(x.e - oval):
                    # empty match at the very end of the window: step one byte left, or finish at 0
                    if s.entails_eq(oval):
                        ok2 = npos.variant == 0
                    elif s.entails_le(C(1) - oval):
                        ok2 = npos.variant == 1 and isinstance(npos.fields[0], IntV) and s.entails_eq(npos.fields[0].e - (oval - 1))
                    else:
                        ok2 = False
                    lab = "next (rev): Some(i), i == pos (empty needle) => pos' = pos.checked_sub(1)"
                else:
                    ok2, lab = False, 'next (rev): case i < pos / i == pos determined'
                I.ob('IT-TRANSFER', fr, inst.loc, lab, ok2, '' if ok2 else f"pos' = {npos}, i = {s.nf(x.e)}, pos = {s.nf(oval)}")
    I.ob('IT-TRANSFER', fr, inst.loc, f'{meth}: at least one path examined', n_checked > 0, f'{n_checked} path(s)')


# ------------------------------------------------------------------ Two-Way period classification (PERIOD-TEST)
PERIOD_ROOTS = re.compile(r'^arch::all::twoway::(Finder|FinderRev)::new$')


def check_period_test(I, inst, results, args):
    """`Shift::Small { period }` may only be chosen when the needle x = u v really has the period of the chosen suffix,
    which Two-Way decides by ONE comparison: forward  is_suffix(v[..period], u)   with u = x[..crit], v = x[crit..];
    reverse  is_prefix(v[v.len()-period..], u)  with v = x[..crit], u = x[crit..].  Every affix comparison made on the
    path must be that one (a wrong `false` picks the large shift for a periodic needle and skips matches), and a Small
    result needs it answered `true`."""
    if not PERIOD_ROOTS.match(inst.path) or not args or not isinstance(args[0], SliceV):
        return
    fr = _Fr(inst)
    fwd = '::Finder::' in inst.path
    nd = args[0]
    n_small = 0
    for st, ret in results:
        if not (st.store.is_sat() and st.store.check_sat()):
            continue
        try:
            tw = ret.fields[0]
            crit, shift = tw.fields[1].e, tw.fields[2]
        except (AttributeError, IndexError, TypeError):
            I.ob('PERIOD-TEST', fr, inst.loc, 'two-way value tracked', False, f'{ret}')
            continue
        s = st.store
        preds = [(k[1], v) for k, v in st.ghost.get('preds', {}).items() if k[0] == 'affix']
        small = shift.variant == 0
        per = shift.fields[0].e if small else None

        def expected(a, period):
            kind, hr, ho, hn, nr, no, nn = a
            if hr != nd.ptr.r or nr != nd.ptr.r:
                return False
            if fwd:
                return (kind == 'suffix' and s.entails_eq(ho - (nd.ptr.off + crit)) and s.entails_eq(no - nd.ptr.off) and s.entails_eq(nn - crit)
                        and (period is None or s.entails_eq(hn - period)))
            return (kind == 'prefix' and s.entails_eq(no - (nd.ptr.off + crit)) and s.entails_eq(nn - (nd.n - crit))
                    and s.entails_eq(ho + hn - (nd.ptr.off + crit)) and (period is None or s.entails_eq(hn - period)))
        for a, val in preds:
            ok = expected(a, per)
            I.ob('PERIOD-TEST', fr, inst.loc, 'the period test compares ' + ('v[..period] against u as a suffix' if fwd else 'the last `period` bytes of v against u as a prefix'), ok,
                 '' if ok else f"is_{a[0]}(x[{s.nf(a[2])}..+{s.nf(a[3])}], x[{s.nf(a[5])}..+{s.nf(a[6])}]) with critical_pos = {s.nf(crit)}")
        if small:
            n_small += 1
            ok = any(val and expected(a, per) for a, val in preds)
            I.ob('PERIOD-TEST', fr, inst.loc, 'Shift::Small is chosen only after the period test answered true', ok,
                 '' if ok else f'affix comparisons on this path: {[(a[0], v) for a, v in preds]}')
    I.ob('PERIOD-TEST', fr, inst.loc, 'a small-period path exists (non-vacuous)', n_small > 0, f'{n_small} path(s) return Shift::Small')
