"""Per-run context: tier, configurations, cached Program objects."""
from . import configs, prog


class Context:
    def __init__(self, tier):
        self.tier = tier
        self._progs = {}
        self._paths = None
        configs.prune_cache(keep=8)

    def cfgs(self, quick=None, thorough=None):
        """configurations for this tier"""
        if self.tier == 'thorough':
            return list(thorough or configs.ALL)
        return list(quick or configs.QUICK)

    def ensure(self, cfgs):
        missing = [c for c in cfgs if c not in self._progs]
        if missing:
            paths, _ = configs.ensure(missing, fresh=False)
            for c, p in paths.items():
                pr = prog.Program(p)
                pr.cfg_name = c
                self._progs[c] = pr

    def prog(self, cfg):
        self.ensure([cfg])
        return self._progs[cfg]
