"""EQ ghost -- byte-equality coverage between two memory regions.

For a pair of regions (A, B) the state carries three ghost integers (heap pseudo-objects, so the
loop machinery generalises them and finds their invariants like for any program variable):
    delta, lo, hi   meaning   for all k in [lo, hi):  A[k] == B[k + delta]
They change only through *comparison events*:
  * a byte equality  byte(A, a) == byte(B, b)  assumed on a branch            -> [a, a+1), delta = b - a
  * equality of two k-byte loads  load(A, a, k) == load(B, b, k)  (true edge) -> [a, a+k)
An event extends the interval when it touches or overlaps it under the same delta (exactly: the
new bounds must be decided by the store); otherwise the interval is RESET to the event (sound: the
ghost only ever claims compared bytes).  A failed comparison is recorded as a DIFF witness
(A, a, B, b, k): some byte of [a, a+k) differs from its partner.

Used for: C18 (is_equal / is_prefix / is_suffix: true => whole range covered, false => a DIFF
witness inside the range), the "returned offset was verified" clause of the substring searchers,
and to let the interpreter know that two reads of the same compared cells agree."""
from .lin import LinExpr, fresh, ZERO
from .absval import *

V = LinExpr.var
C = LinExpr.const


def _k(kind, ra, rb):
    return (kind, ra, rb)


def get(st, ra, rb):
    d, lo, hi = st.heap.get(_k('eqd', ra, rb)), st.heap.get(_k('eqlo', ra, rb)), st.heap.get(_k('eqhi', ra, rb))
    if isinstance(d, IntV) and isinstance(lo, IntV) and isinstance(hi, IntV):
        return d.e, lo.e, hi.e
    return None


def put(st, ra, rb, d, lo, hi):
    st.heap[_k('eqd', ra, rb)] = IntV(d)
    st.heap[_k('eqlo', ra, rb)] = IntV(lo)
    st.heap[_k('eqhi', ra, rb)] = IntV(hi)


def keys_of(st):
    return {(k[1], k[2]) for k in st.heap if isinstance(k, tuple) and len(k) == 3 and k[0] == 'eqd'}


def drop(st, ra, rb):
    for kind in ('eqd', 'eqlo', 'eqhi'):
        st.heap.pop(_k(kind, ra, rb), None)


def _orient(st, ra, a, rb, b):
    """orientation of the pair: the one already recorded in the state; for a new pair the side whose
    offset expression is simpler becomes A (its coordinates are the ones loop invariants talk about)"""
    if _k('eqd', ra, rb) in st.heap:
        return ra, a, rb, b
    if _k('eqd', rb, ra) in st.heap:
        return rb, b, ra, a
    ca, cb = len(st.store.nf(a).t), len(st.store.nf(b).t)
    if (cb, rb) < (ca, ra):
        return rb, b, ra, a
    return ra, a, rb, b


def _same_region_orient(st, r, a, b):
    """two ranges of ONE region (aliasing operands): the orientation already recorded, if it fits"""
    cur = get(st, r, r)
    if cur is not None and st.store.entails_eq(cur[0] - (a - b)) and not st.store.entails_eq(cur[0] - (b - a)):
        return b, a
    return a, b


def on_equal(I, st, ra, a, rb, b, size):
    if ra == rb:
        if st.store.entails_eq(a - b):
            return                      # a range compared with itself
        a, b = _same_region_orient(st, ra, a, b)
    else:
        ra, a, rb, b = _orient(st, ra, a, rb, b)
    s = st.store
    d = b - a
    cur = get(st, ra, rb)
    if cur is not None and s.entails_eq(cur[0] - d):
        _, lo, hi = cur
        end = a + size
        if s.entails_le(a - hi) and s.entails_le(lo - end):           # touches or overlaps [lo, hi)
            nlo = lo if s.entails_le(lo - a) else (a if s.entails_le(a - lo) else None)
            nhi = hi if s.entails_le(end - hi) else (end if s.entails_le(hi - end) else None)
            if nlo is not None and nhi is not None:
                put(st, ra, rb, cur[0], nlo, nhi)
                return
        if s.entails_le(lo - a) and s.entails_le(end - hi):           # inside: nothing new
            return
    put(st, ra, rb, d, a, a + size)


def on_differ(I, st, ra, a, rb, b, size):
    if ra == rb and st.store.entails_eq(a - b):
        return
    if ra > rb:
        ra, a, rb, b = rb, b, ra, a
    st.ghost['eqdiff'] = tuple(st.ghost.get('eqdiff', ())) + ((ra, a, rb, b, size),)


def covered(st, ra, a, rb, b, n, I=None):
    """is A[a .. a+n) == B[b .. b+n) known?  (n may be symbolic; an empty range is trivially covered)"""
    s = st.store
    if s.entails_le(n):
        return True
    if ra == rb:
        if s.entails_eq(a - b):
            return True                 # the same bytes
        cur = get(st, ra, rb)
        if cur is None:
            return False
        d, lo, hi = cur
        return ((s.entails_eq(d - (b - a)) and s.entails_le(lo - a) and s.entails_le(a + n - hi))
                or (s.entails_eq(d - (a - b)) and s.entails_le(lo - b) and s.entails_le(b + n - hi)))
    if I is not None and _ptreq_empty(I, st, ra, a, rb, b, n):
        return True
    ra, a, rb, b = _orient(st, ra, a, rb, b)
    cur = get(st, ra, rb)
    if cur is None:
        return False
    d, lo, hi = cur
    return s.entails_eq(d - (b - a)) and s.entails_le(lo - a) and s.entails_le(a + n - hi)


def _ptreq_empty(I, st, ra, a, rb, b, n):
    """the addresses A+a and B+b of two DISTINCT allocations compared equal: live allocations do not
    overlap, so one of the two is one-past-the-end; if n bytes are in bounds at both, n == 0"""
    s = st.store
    for (xa, oa, xb, ob) in st.ghost.get('ptreq', ()):
        for (pa, po, qa, qo) in ((ra, a, rb, b), (rb, b, ra, a)):
            if xa == pa and xb == qa and s.entails_eq(oa - po) and s.entails_eq(ob - qo):
                La, Lb = I.regions[pa].L, I.regions[qa].L
                if La is not None and Lb is not None and s.entails_le(po + n - V(La)) and s.entails_le(qo + n - V(Lb)):
                    return True
    return False


def diff_inside(st, ra, a, rb, b, n):
    """is there a DIFF witness inside A[a..a+n) / B[b..b+n) at corresponding offsets?"""
    s = st.store
    if ra > rb:
        ra, a, rb, b = rb, b, ra, a
    for (xa, oa, xb, ob, k) in st.ghost.get('eqdiff', ()):
        if xa == ra and xb == rb and s.entails_eq((ob - oa) - (b - a)) and s.entails_le(a - oa) and s.entails_le(oa + k - (a + n)):
            return True
        if ra == rb and xa == ra and xb == rb and s.entails_eq((oa - ob) - (b - a)) and s.entails_le(a - ob) and s.entails_le(ob + k - (a + n)):
            return True                 # same region, witness recorded with the operands the other way round
    return False


# ------------------------------------------------------------------ events from the interpreter
def byte_origin(st, sym):
    g = st.ghost.get('bytes')
    if not g:
        return None
    for key, s_ in g.items():
        if s_ == sym:
            return key[1], key[2]
    return None


def byte_pair(st, e):
    """e = +-(byte1 - byte2) with both symbols memoised reads: ((r1, off1), (r2, off2)) else None"""
    e = st.store.nf(e)
    if e.k != 0 or len(e.t) != 2:
        return None
    (s1, c1), (s2, c2) = e.t
    if {c1, c2} != {1, -1}:
        return None
    o1, o2 = byte_origin(st, s1), byte_origin(st, s2)
    if o1 is None or o2 is None:
        return None
    return o1, o2


def on_atom(I, st, atom):
    """called BEFORE an eq/ne atom is added to the store"""
    if atom[0] not in ('eq', 'ne'):
        return
    bp = byte_pair(st, atom[1])
    if bp is None:
        return
    (r1, o1), (r2, o2) = bp
    if atom[0] == 'eq':
        on_equal(I, st, r1, o1, r2, o2, 1)
    else:
        on_differ(I, st, r1, o1, r2, o2, 1)


def saturate(I, st, atom):
    """before deciding an eq/ne between two memoised bytes: if the EQ ghost knows the two cells agree,
    tell the store"""
    if atom[0] not in ('eq', 'ne') or not keys_of(st):
        return
    bp = byte_pair(st, atom[1])
    if bp is None:
        return
    (r1, o1), (r2, o2) = bp
    if covered(st, r1, o1, r2, o2, C(1)) and not (r1 == r2 and st.store.entails_eq(o1 - o2)):
        st.store.add_eq(atom[1])


def on_term_eq(I, st, pos, ta, tb):
    """comparison of two multi-byte loads"""
    if isinstance(ta, tuple) and isinstance(tb, tuple) and ta and tb and ta[0] == 'load' and tb[0] == 'load' and ta[3] == tb[3]:
        if pos:
            on_equal(I, st, ta[1], ta[2], tb[1], tb[2], ta[3])
        else:
            on_differ(I, st, ta[1], ta[2], tb[1], tb[2], ta[3])


# ------------------------------------------------------------------ loops: installing an empty interval at entry
def all_syms(I, st):
    from .loops import value_syms
    acc = set()
    for locs in st.frames.values():
        for v in locs.values():
            value_syms(v, acc)
    for v in st.heap.values():
        value_syms(v, acc)
    for e in st.store.les:
        acc.update(e.syms())
    for x, e in st.store.eqs.items():
        acc.add(x)
        acc.update(e.syms())
    return acc


def probe_install(I, fr, h, body, entry_states, back_states, run_body, leaves=()):
    """after a first (concrete) pass over the loop body: if the body created an EQ interval that the
    entry states lack, run the body once more from that back state to see which end of the interval
    stays put, and install the EMPTY interval [anchor, anchor) with the same delta in the entry states.
    Returns True when something was installed."""
    have = set.intersection(*[keys_of(E) for E in entry_states]) if entry_states else set()
    new = {}
    for B in back_states:
        for k in keys_of(B) - have:
            new.setdefault(k, B)
    if not new:
        return False
    installed = False
    for (ra, rb), B1 in new.items():
        d1, lo1, hi1 = get(B1, ra, rb)
        I.silent += 1
        try:
            r2 = run_body(I, fr, h, B1.copy(), body)
        except Exception:
            r2 = {'back': []}
        finally:
            I.silent -= 1
        anchor = None
        for B2 in r2['back']:
            cur = get(B2, ra, rb)
            if cur is None or not B2.store.entails_eq(cur[0] - d1):
                continue
            if B2.store.entails_eq(cur[2] - hi1) and not B2.store.entails_eq(cur[1] - lo1):
                anchor = hi1
            elif B2.store.entails_eq(cur[1] - lo1) and not B2.store.entails_eq(cur[2] - hi1):
                anchor = lo1
            if anchor is not None:
                break
        if anchor is None:
            continue
        ok = True
        per = []
        for i, E in enumerate(entry_states):
            if (ra, rb) in keys_of(E):
                per.append(None)
                continue
            sub = {l.x: l.entry[i] for l in leaves}      # generalised leaves -> their values in this entry state
            a_i, d_i = anchor.subst(sub), d1.subst(sub)
            known = all_syms(I, E)
            if not (set(a_i.syms()) <= known and set(d_i.syms()) <= known):
                ok = False
            per.append((a_i, d_i))
        if not ok:
            continue
        for E, x in zip(entry_states, per):
            if x is not None:
                put(E, ra, rb, x[1], x[0], x[0])
                installed = True
    return installed
