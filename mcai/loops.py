"""Merging of states and loop-invariant inference (drop-only Houdini) for interp.Interp.

merge/generalise: locations whose values differ between the incoming states
(or that the loop modifies) get fresh symbols; template constraints between
those symbols and reference terms are kept iff every incoming state entails
them.  For loops the template constraints are *candidates*: assumed at the
head, checked at every back edge, dropped when not re-established, until the
set is inductive."""
from .lin import LinExpr, Store, fresh, ZERO
from .absval import *
from .prog import rv_operands

V = LinExpr.var
C = LinExpr.const

WEAK_KS = (1, 0, -1)
CONG_MODS = (64, 32, 16, 8, 4)


class Leaf:
    """a generalised numeric leaf: fresh symbol `x` standing for the value at (loc, path, part)"""
    __slots__ = ('x', 'loc', 'path', 'part', 'kind', 'region', 'entry')

    def __init__(self, x, loc, path, part, kind, region, entry):
        self.x, self.loc, self.path, self.part = x, loc, path, part
        self.kind, self.region, self.entry = kind, region, entry    # entry: per-state LinExpr


def live_locations(self, fr, b, st):
    """locations that matter at block b: live locals of the current frame,
    every local of the caller frames, every heap object"""
    out = []
    live = fr.live[b] | fr.addr_taken
    cur = st.frames.get(fr.fid, {})
    for l in cur:
        if l in live:
            out.append(('L', fr.fid, l))
    for fid, locs in st.frames.items():
        if fid != fr.fid:
            for l in locs:
                out.append(('L', fid, l))
    for o in st.heap:
        out.append(('O', o))
    return out


def get_loc(st, loc):
    if loc[0] == 'L':
        return st.frames.get(loc[1], {}).get(loc[2])
    return st.heap.get(loc[1])


def set_loc(st, loc, v):
    if loc[0] == 'L':
        st.frames.setdefault(loc[1], {})[loc[2]] = v
    else:
        st.heap[loc[1]] = v


def same_shape(vals):
    v0 = vals[0]
    t = type(v0)
    if any(type(v) is not t for v in vals):
        return False
    if t is PtrV:
        return all(v.r == v0.r for v in vals)
    if t is SliceV:
        return all(v.ptr.r == v0.ptr.r and v.esz == v0.esz for v in vals)
    if t is AdtV:
        return all(v.tid == v0.tid and v.variant == v0.variant and (v.fields is None) == (v0.fields is None)
                   and (v.fields is None or len(v.fields) == len(v0.fields)) for v in vals)
    if t is UnionV:
        return all(v.tid == v0.tid and v.active == v0.active and (v.val is None) == (v0.val is None) for v in vals)
    if t is RefV:
        return all(v.lv.key() == v0.lv.key() for v in vals)
    if t is FnV:
        return True
    return True


def generalise_value(self, M, vals, stores, loc, path, leaves, force, tid_hint=None):
    """value for the merged state M standing for vals[i] (valid in stores[i])"""
    v0 = vals[0]
    if not force:
        k0 = v0.key(stores[0])
        if all(v.key(s) == k0 for v, s in zip(vals[1:], stores[1:])) and not isinstance(v0, TopV):
            return v0
    if not same_shape(vals):
        if isinstance(v0, AdtV) and all(isinstance(v, AdtV) and v.tid == v0.tid for v in vals):
            return AdtV(v0.tid, None, None)          # enum whose variant differs between the paths
        if all(isinstance(v, (IntV, BoolV)) for v in vals):
            x = fresh('j')
            M.store.add_range(V(x), 0, 1)
            return IntV(V(x))
        return TopV(tid_hint)
    t = type(v0)
    if t is IntV:
        x = fresh('g')
        leaves.append(Leaf(x, loc, path, 'int', 'int', None, [v.e for v in vals]))
        return IntV(V(x))
    if t is PtrV:
        x = fresh('p')
        leaves.append(Leaf(x, loc, path, 'off', 'ptr', v0.r, [v.off for v in vals]))
        return PtrV(v0.r, V(x))
    if t is SliceV:
        x, n = fresh('p'), fresh('n')
        leaves.append(Leaf(x, loc, path, 'soff', 'ptr', v0.ptr.r, [v.ptr.off for v in vals]))
        leaves.append(Leaf(n, loc, path, 'slen', 'int', None, [v.n for v in vals]))
        return SliceV(PtrV(v0.ptr.r, V(x)), V(n), v0.esz)
    if t is AdtV:
        if v0.fields is None:
            return v0
        fs = []
        for i in range(len(v0.fields)):
            fs.append(generalise_value(self, M, [v.fields[i] for v in vals], stores, loc, path + (('f', i),), leaves, force))
        return AdtV(v0.tid, v0.variant, fs)
    if t is UnionV:
        if v0.val is None:
            return v0
        return UnionV(v0.tid, v0.active, generalise_value(self, M, [v.val for v in vals], stores, loc, path + (('u', v0.active),), leaves, force))
    if t is BoolV:
        x = fresh('b')
        M.store.add_range(V(x), 0, 1)
        return IntV(V(x))
    if t is FnV:
        if any(v.fns is None for v in vals):
            return FnV(None)
        return FnV(frozenset().union(*[v.fns for v in vals]))
    if t is TermV:
        return self.models.merge_terms(self, M, vals, stores)
    if t is RefV:
        return v0
    if t is ArrV:
        return ArrV(v0.tid, v0.n)
    return TopV(tid_hint)


def leaf_value_in(st, leaf):
    """the expression the generalised leaf has in state st (e.g. at a back edge)"""
    v = get_loc(st, leaf.loc)
    for step in leaf.path:
        kind, i = step
        if kind == 'f':
            if not (isinstance(v, AdtV) and v.fields is not None and i < len(v.fields)):
                return None
            v = v.fields[i]
        elif kind == 'u':
            if not (isinstance(v, UnionV) and v.active == i):
                return None
            v = v.val
    if leaf.part == 'int':
        return v.e if isinstance(v, IntV) else None
    if leaf.part == 'off':
        return v.off if isinstance(v, PtrV) and v.r == leaf.region else None
    if leaf.part == 'soff':
        return v.ptr.off if isinstance(v, SliceV) and v.ptr.r == leaf.region else None
    if leaf.part == 'slen':
        return v.n if isinstance(v, SliceV) else None
    return None


def common_constraints(self, M, states):
    """constraints of any incoming state that every incoming state entails"""
    seen = set()
    s0 = states[0].store
    # equalities
    for st in states:
        for x, e in st.store.eqs.items():
            key = ('eq', x, e)
            if key in seen:
                continue
            seen.add(key)
            d = V(x) - e
            if all(o.store.entails_eq(d) for o in states):
                M.store.add_eq(d)
    for st in states:
        for c in st.store.les:
            if c in seen:
                continue
            seen.add(c)
            if all(o.store.entails_le(c) for o in states):
                M.store.add_le(c)
        for c in st.store.nes:
            key = ('ne', c)
            if key in seen:
                continue
            seen.add(key)
            if all(o.store.entails_ne(c) for o in states):
                M.store.add_ne(c)


def ref_terms(self, fr, M, leaf, leaves):
    """reference expressions a generalised leaf is compared with (valid in every incoming state
    because they only mention un-generalised values)"""
    refs = [ZERO]
    gen = {l.x for l in leaves}
    cur = M.frames.get(fr.fid, {})

    def add(e):
        e = M.store.nf(e)
        if any(s in gen for s in e.syms()):
            return
        if e not in refs:
            refs.append(e)

    if leaf.kind == 'ptr':
        add(V(self.regions[leaf.region].L))

    def walk(v, depth=0):
        if depth > 3:
            return
        if isinstance(v, PtrV) and leaf.kind == 'ptr' and v.r == leaf.region:
            add(v.off)
        elif isinstance(v, SliceV):
            if leaf.kind == 'ptr' and v.ptr.r == leaf.region:
                add(v.ptr.off)
                add(v.ptr.off + v.n * v.esz)
            if leaf.kind == 'int':
                add(v.n)
        elif isinstance(v, IntV) and leaf.kind == 'int':
            add(v.e)
        elif isinstance(v, AdtV) and v.fields is not None:
            for f in v.fields:
                walk(f, depth + 1)
        elif isinstance(v, RefV) and isinstance(v.lv, LVObj) and depth < 2:
            o = M.heap.get(v.lv.obj)
            if o is not None:
                walk(o, depth + 1)
    for l, v in cur.items():
        walk(v)
        if len(refs) > 14:
            break
    return refs


def tightest_lb(store, e, span=1 << 13):
    """greatest k in [-span, span] with store |= e >= k, or None"""
    return store.lower_bound(e, -span, span)


def make_candidates(self, fr, M, leaves, states, step_consts, houdini):
    """template atoms over the generalised leaves entailed by every incoming state.
    Returns list of atoms ('le', expr) / ('div', leaf, m)."""
    cands = []
    stores = [s.store for s in states]
    n = len(states)
    weak = sorted(set(WEAK_KS) | set(step_consts) | {-c for c in step_consts})

    def entry_sub(e, i):
        # substitute every generalised symbol by its expression in state i
        return e.subst({l.x: l.entry[i] for l in leaves})

    def consider(expr):
        """expr is an expression over leaf symbols/refs; find k with expr >= k in all states"""
        k0 = tightest_lb(stores[0], entry_sub(expr, 0))
        if k0 is None:
            return
        ks = [k0] + ([k for k in weak if k < k0] if houdini else [])
        got = 0
        for k in ks:
            at = C(k) - expr      # k - expr <= 0
            if all(stores[i].entails_le(entry_sub(at, i)) for i in range(1, n)):
                cands.append(('le', at))
                got += 1
                if not houdini:
                    break
        if not got and not houdini:
            # try the weaker standard constants for plain joins
            for k in [k for k in weak if k < k0]:
                at = C(k) - expr
                if all(stores[i].entails_le(entry_sub(at, i)) for i in range(n)):
                    cands.append(('le', at))
                    break

    for leaf in leaves:
        x = V(leaf.x)
        for r in ref_terms(self, fr, M, leaf, leaves):
            consider(x - r)
            consider(r - x)
        if leaf.kind == 'ptr':
            A = V(self.regions[leaf.region].A)
            for m in CONG_MODS:
                if all(stores[i].divisible(A + leaf.entry[i], m) for i in range(n)):
                    cands.append(('div', leaf, m))
    # pairs of generalised leaves: differences and sums
    for i, a in enumerate(leaves):
        for b in leaves[i + 1:]:
            if a.kind == 'ptr' and b.kind == 'ptr' and a.region != b.region:
                # offsets into different regions moving in lock-step (memcmp-like loops)
                pass
            xa, xb = V(a.x), V(b.x)
            consider(xa - xb)
            consider(xb - xa)
            if a.kind == 'int' or b.kind == 'int':
                consider(xa + xb)
                consider(-xa - xb)
    return cands


def assume_cands(self, st, cands):
    for c in cands:
        if c[0] == 'le':
            st.store.add_le(c[1])
        elif c[0] == 'div':
            leaf, m = c[1], c[2]
            k = fresh('k')
            st.store.add_eq(V(self.regions[leaf.region].A) + V(leaf.x) - m * V(k))


def cand_holds(self, c, B, leaves):
    sub = {}
    for l in leaves:
        e = leaf_value_in(B, l)
        if e is None:
            return False
        sub[l.x] = e
    if c[0] == 'le':
        return B.store.entails_le(c[1].subst(sub))
    if c[0] == 'div':
        leaf, m = c[1], c[2]
        return B.store.divisible(V(self.regions[leaf.region].A) + sub[leaf.x], m)
    return False


def merge_states(self, fr, b, states, force=frozenset(), houdini=False, step_consts=()):
    """returns (M, leaves, cands).  For houdini=False the candidates are already assumed in M."""
    self.stats['merges'] += 1
    M = State()
    stores = [s.store for s in states]
    common_constraints(self, M, states)
    leaves = []
    locs = live_locations(self, fr, b, states[0])
    M.ghost = self.models.merge_ghost(self, states)
    for loc in locs:
        vals = [get_loc(s, loc) for s in states]
        if any(v is None for v in vals):
            continue
        v = generalise_value(self, M, vals, stores, loc, (), leaves, loc in force)
        set_loc(M, loc, v)
    # make sure every frame of the call stack exists
    for fid in states[0].frames:
        M.frames.setdefault(fid, {})
    # ranges of the fresh symbols from the types are implied by the template bounds below only if
    # they were entailed; add the candidates
    cands = make_candidates(self, fr, M, leaves, states, step_consts, houdini) if leaves else []
    if not houdini:
        assume_cands(self, M, cands)
    return M, leaves, cands


def merge(self, fr, b, states):
    if len(states) == 1:
        return states[0]
    M, _, _ = merge_states(self, fr, b, states)
    return M


def loop_step_consts(self, inst, body):
    cs = set()
    for b in body:
        blk = inst.blocks[b]
        if blk.get('cleanup'):
            continue
        for s in blk['stmts']:
            if s['k'] == 'assign':
                for o in rv_operands(s['rv']):
                    if o['k'] == 'const' and o.get('ck') == 'int' and 1 < abs(o['v']) <= 4096:
                        cs.add(o['v'])
        t = blk['term']
        if t['k'] == 'call':
            for a in t['args']:
                if a['k'] == 'const' and a.get('ck') == 'int' and 1 < abs(a['v']) <= 4096:
                    cs.add(a['v'])
    return sorted(cs)[:8]


def syntactic_modified(self, fr, body, st):
    """locals of the current frame assigned inside the loop body"""
    inst = fr.inst
    out = set()
    for b in body:
        blk = inst.blocks[b]
        if blk.get('cleanup'):
            continue
        for s in blk['stmts']:
            if s['k'] in ('assign', 'setdiscr'):
                out.add(s['p']['l'])
        t = blk['term']
        if t['k'] == 'call':
            out.add(t['dest']['l'])
    return out


def exec_loop(self, fr, h, entry_states):
    """execute the natural loop with header h; returns {'exits': [(block, state)], 'returns': [state]}"""
    inst = fr.inst
    body = fr.loops[h]
    self.stats['loops'] += 1
    live = fr.live[h] | fr.addr_taken
    force = {('L', fr.fid, l) for l in syntactic_modified(self, fr, body, entry_states[0]) if l in live}
    steps = loop_step_consts(self, inst, body)
    cands = None
    M = leaves = None
    rounds = 0
    changedF = True
    while True:
        rounds += 1
        if rounds > 40:
            from .interp import Unsupported
            raise Unsupported(f"loop analysis did not converge in {inst.key} bb{h}")
        if changedF:
            M, leaves, cands = merge_states(self, fr, h, entry_states, force=frozenset(force), houdini=True, step_consts=steps)
            self.stats['cands'] += len(cands)
            changedF = False
        H = M.copy()
        assume_cands(self, H, cands)
        self.silent += 1
        try:
            res = run_body(self, fr, h, H.copy(), body)
        finally:
            self.silent -= 1
        self.stats['houdini_rounds'] += 1
        # locations changed by the body but not generalised
        newF = set()
        for B in res['back']:
            for loc in live_locations(self, fr, h, H):
                if loc in force:
                    continue
                hv, bv = get_loc(H, loc), get_loc(B, loc)
                if hv is None or bv is None:
                    if (hv is None) != (bv is None):
                        newF.add(loc)
                    continue
                if hv.key(B.store) != bv.key(B.store):
                    newF.add(loc)
        if newF:
            force |= newF
            changedF = True
            continue
        failed = [c for c in cands if any(not cand_holds(self, c, B, leaves) for B in res['back'])]
        if failed:
            fs = set(id(c) for c in failed)
            cands = [c for c in cands if id(c) not in fs]
            continue
        break
    self.stats['cands_kept'] += len(cands)
    if not self.silent:
        self.loop_invs.append((inst.key, h, len(leaves), len(cands)))
    H = M.copy()
    assume_cands(self, H, cands)
    res = run_body(self, fr, h, H, body)
    return {'exits': res['exits'], 'returns': res['returns']}


def run_body(self, fr, h, st, body):
    entries = self.exec_block(fr, h, st)
    returns = [s for nb, s in entries if nb == 'return']
    ent = [(nb, s) for nb, s in entries if nb != 'return']
    # a self-loop / immediate exit is handled by run_region's routing
    r = self.run_region(fr, ent, body, h)
    r['returns'] = returns + r['returns']
    return r


def shape_sig(self, v, depth=0):
    """variant structure of a value (so that Some/None, Ok/Err are never merged together)"""
    if isinstance(v, AdtV):
        if v.fields is None:
            return ('?',)
        if depth > 3:
            return (v.variant,)
        return (v.variant,) + tuple(shape_sig(self, f, depth + 1) for f in v.fields if isinstance(f, (AdtV, UnionV)))
    if isinstance(v, UnionV):
        return ('u', v.active)
    return ()


def merge_by_shape(self, fr, b, states):
    groups = {}
    for st in states:
        sig = []
        for loc in live_locations(self, fr, b, st):
            if loc[0] == 'L' and loc[1] == fr.fid:
                v = get_loc(st, loc)
                if isinstance(v, (AdtV, UnionV)):
                    sig.append((loc[2], shape_sig(self, v)))
        groups.setdefault(tuple(sig), []).append(st)
    out = []
    for sig, sts in groups.items():
        out.append(sts[0] if len(sts) == 1 else merge(self, fr, b, sts))
    return out
