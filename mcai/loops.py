"""Merging of states and loop-invariant inference (drop-only Houdini) for interp.Interp.

merge/generalise: locations whose values differ between the incoming states
(or that the loop modifies) get fresh symbols; template constraints between
those symbols and reference terms are kept iff every incoming state entails
them.  For loops the template constraints are *candidates*: assumed at the
head, checked at every back edge, dropped when not re-established, until the
set is inductive."""
import re
from .lin import LinExpr, Store, fresh, ZERO
from .absval import *
from .prog import rv_operands

V = LinExpr.var
C = LinExpr.const

WEAK_KS = (1, 0, -1)
CONG_MODS = (64, 32, 16, 8, 4)


class Leaf:
    """a generalised numeric leaf: fresh symbol `x` standing for the value at (loc, path, part)"""
    __slots__ = ('x', 'loc', 'path', 'part', 'kind', 'region', 'entry')

    def __init__(self, x, loc, path, part, kind, region, entry):
        self.x, self.loc, self.path, self.part = x, loc, path, part
        self.kind, self.region, self.entry = kind, region, entry    # entry: per-state LinExpr


def live_locations(self, fr, b, st):
    """locations that matter at block b: live locals of the current frame,
    every local of the caller frames, every heap object"""
    out = []
    live = fr.live[b] | fr.addr_taken
    cur = st.frames.get(fr.fid, {})
    for l in cur:
        if l in live:
            out.append(('L', fr.fid, l))
    for fid, locs in st.frames.items():
        if fid != fr.fid:
            for l in locs:
                out.append(('L', fid, l))
    for o in st.heap:
        out.append(('O', o))
    return out


def get_loc(st, loc):
    if loc[0] == 'L':
        return st.frames.get(loc[1], {}).get(loc[2])
    return st.heap.get(loc[1])


def set_loc(st, loc, v):
    if loc[0] == 'L':
        st.frames.setdefault(loc[1], {})[loc[2]] = v
    else:
        st.heap[loc[1]] = v


def same_shape(vals):
    v0 = vals[0]
    t = type(v0)
    if any(type(v) is not t for v in vals):
        return False
    if t is PtrV:
        return all(v.r == v0.r for v in vals)
    if t is SliceV:
        return all(v.ptr.r == v0.ptr.r and v.esz == v0.esz for v in vals)
    if t is AdtV:
        return all(v.tid == v0.tid and v.variant == v0.variant and (v.fields is None) == (v0.fields is None)
                   and (v.fields is None or len(v.fields) == len(v0.fields)) for v in vals)
    if t is UnionV:
        return all(v.tid == v0.tid and v.active == v0.active and (v.val is None) == (v0.val is None) for v in vals)
    if t is RefV:
        return all(v.lv.key() == v0.lv.key() for v in vals)
    if t is FnV:
        return True
    return True


def generalise_value(self, M, vals, stores, loc, path, leaves, force, tid_hint=None):
    """value for the merged state M standing for vals[i] (valid in stores[i]).
    `force`: set of (loc, path) leaf addresses that must be generalised even when all
    incoming values agree (leaves modified by a loop body)."""
    v0 = vals[0]
    forced_here = (loc, path) in force
    if (loc, path, 'top') in force:
        # the loop body puts a value of an incompatible shape here (another region, variant, function set ...):
        # the head value must stand for anything of the type
        if isinstance(v0, AdtV) and not isinstance(v0.tid, tuple) and self.P.types[v0.tid].get('adt_kind') == 'enum':
            return AdtV(v0.tid, None, None)
        if isinstance(v0, UnionV):
            return UnionV(v0.tid, None, None)
        if isinstance(v0, FnV):
            return FnV(None)
        return TopV(tid_hint)
    sub_forced = forced_here or any(f[0] == loc and f[1][:len(path)] == path for f in force)
    if not sub_forced:
        if all(v is v0 for v in vals[1:]) and not isinstance(v0, TopV):
            return v0
        k0 = v0.key(stores[0])
        if all(v.key(s) == k0 for v, s in zip(vals[1:], stores[1:])) and not isinstance(v0, TopV):
            return v0
    if not same_shape(vals):
        if isinstance(v0, AdtV) and all(isinstance(v, AdtV) and v.tid == v0.tid for v in vals):
            return AdtV(v0.tid, None, None)          # enum whose variant differs between the paths
        if all(isinstance(v, (IntV, BoolV)) for v in vals):
            x = fresh('j')
            M.store.add_range(V(x), 0, 1)
            return IntV(V(x))
        return TopV(tid_hint)
    t = type(v0)

    def differs(get):
        if forced_here:
            return True
        r0 = get(v0)
        if all(get(v) == r0 for v in vals[1:]):
            return False        # the very same expression in every state (stores may normalise it differently)
        k0 = stores[0].nf(r0)
        return any(s.nf(get(v)) != k0 for v, s in zip(vals[1:], stores[1:]))

    if t is IntV:
        if not differs(lambda v: v.e):
            return v0
        x = fresh('g')
        leaves.append(Leaf(x, loc, path, 'int', 'int', None, [v.e for v in vals]))
        if tid_hint is not None and self.P.types[tid_hint].get('kind') == 'int':
            # the leaf is a struct field of integer type: whatever the loop does, the stored value is one of the type
            lo, hi = self.int_range(self.P.types[tid_hint])
            M.store.add_range(V(x), lo, hi)
        return IntV(V(x))
    if t is PtrV:
        if not differs(lambda v: v.off):
            return v0
        x = fresh('p')
        leaves.append(Leaf(x, loc, path, 'off', 'ptr', v0.r, [v.off for v in vals]))
        return PtrV(v0.r, V(x))
    if t is SliceV:
        po, no = v0.ptr.off, v0.n
        if differs(lambda v: v.ptr.off) or (loc, path + (('s', 'off'),)) in force:
            x = fresh('p')
            leaves.append(Leaf(x, loc, path, 'soff', 'ptr', v0.ptr.r, [v.ptr.off for v in vals]))
            po = V(x)
        if differs(lambda v: v.n) or (loc, path + (('s', 'len'),)) in force:
            n = fresh('n')
            leaves.append(Leaf(n, loc, path, 'slen', 'int', None, [v.n for v in vals]))
            no = V(n)
        return SliceV(PtrV(v0.ptr.r, po), no, v0.esz)
    if t is AdtV:
        if forced_here:
            # the loop body replaces this value by one of a different shape (another variant, an untracked value):
            # the head value must stand for both
            if not isinstance(v0.tid, tuple) and self.P.types[v0.tid].get('kind') == 'adt' and self.P.types[v0.tid].get('adt_kind') == 'enum':
                return AdtV(v0.tid, None, None)
            return TopV(tid_hint if tid_hint is not None else (v0.tid if not isinstance(v0.tid, tuple) else None))
        if v0.fields is None:
            return v0
        fs = []
        ftys = None
        if not isinstance(v0.tid, tuple):
            ty = self.P.types[v0.tid]
            if ty.get('kind') == 'adt' and ty.get('adt_kind') in ('struct', 'enum') and v0.variant is not None and v0.variant < len(ty.get('variants', [])):
                ftys = [f['ty'] for f in ty['variants'][v0.variant]['fields']]
        for i in range(len(v0.fields)):
            fs.append(generalise_value(self, M, [v.fields[i] for v in vals], stores, loc, path + (('f', i),), leaves, force,
                                       tid_hint=ftys[i] if ftys and i < len(ftys) else None))
        return AdtV(v0.tid, v0.variant, fs)
    if t is UnionV:
        if forced_here:
            return UnionV(v0.tid, None, None)
        if v0.val is None:
            return v0
        return UnionV(v0.tid, v0.active, generalise_value(self, M, [v.val for v in vals], stores, loc, path + (('u', v0.active),), leaves, force))
    if t is BoolV:
        x = fresh('b')
        M.store.add_range(V(x), 0, 1)
        return IntV(V(x))
    if t is FnV:
        if any(v.fns is None for v in vals):
            return FnV(None)
        return FnV(frozenset().union(*[v.fns for v in vals]))
    if t is TermV:
        return self.models.merge_terms(self, M, vals, stores)
    if t is RefV:
        return TopV(tid_hint) if forced_here else v0
    if t is ArrV:
        return ArrV(v0.tid, v0.n)
    return TopV(tid_hint)


def changed_leaves(self, loc, hv, bv, store, path=()):
    """leaf addresses (loc, path) at which value bv (back edge) differs from hv (loop head)"""
    out = []
    if hv is None or bv is None:
        return [(loc, path)] if (hv is None) != (bv is None) else []
    if type(hv) is not type(bv):
        return [(loc, path)]
    if isinstance(hv, AdtV):
        if hv.tid != bv.tid or hv.variant != bv.variant or (hv.fields is None) != (bv.fields is None):
            return [(loc, path)]
        if hv.fields is None:
            return []
        if len(hv.fields) != len(bv.fields):
            return [(loc, path)]
        for i, (a, b) in enumerate(zip(hv.fields, bv.fields)):
            out += changed_leaves(self, loc, a, b, store, path + (('f', i),))
        return out
    if isinstance(hv, UnionV):
        if hv.tid != bv.tid or hv.active != bv.active or (hv.val is None) != (bv.val is None):
            return [(loc, path)]
        if hv.val is None:
            return []
        return changed_leaves(self, loc, hv.val, bv.val, store, path + (('u', hv.active),))
    if isinstance(hv, SliceV):
        if hv.ptr.r != bv.ptr.r or hv.esz != bv.esz:
            return [(loc, path)]
        if store.nf(hv.ptr.off) != store.nf(bv.ptr.off):
            out.append((loc, path + (('s', 'off'),)))
        if store.nf(hv.n) != store.nf(bv.n):
            out.append((loc, path + (('s', 'len'),)))
        return out
    if isinstance(hv, TopV):
        return []
    if hv.key(store) != bv.key(store):
        return [(loc, path)]
    return []


def value_at(v, path):
    for step in path:
        kind, i = step
        if kind == 'f':
            if not (isinstance(v, AdtV) and v.fields is not None and i < len(v.fields)):
                return None
            v = v.fields[i]
        elif kind == 'u':
            if not (isinstance(v, UnionV) and v.active == i):
                return None
            v = v.val
        else:
            return v          # ('s', ..): a part of a slice value
    return v


def shape_compatible(hv, bv):
    """can the (generalised) head value hv stand for the back-edge value bv?"""
    if hv is None or isinstance(hv, TopV) or bv is None:
        return True
    if type(hv) is not type(bv):
        # booleans and 0/1 integers are generalised into one another
        return isinstance(hv, (IntV, BoolV)) and isinstance(bv, (IntV, BoolV))
    if isinstance(hv, PtrV):
        return hv.r == bv.r
    if isinstance(hv, SliceV):
        return hv.ptr.r == bv.ptr.r and hv.esz == bv.esz
    if isinstance(hv, AdtV):
        if hv.tid != bv.tid:
            return False
        if hv.variant is None and hv.fields is None:
            return True
        return hv.variant == bv.variant and (hv.fields is None) == (bv.fields is None)
    if isinstance(hv, UnionV):
        return hv.tid == bv.tid and (hv.active is None or hv.active == bv.active)
    if isinstance(hv, RefV):
        return hv.lv.key() == bv.lv.key()
    if isinstance(hv, FnV):
        return hv.fns is None or (bv.fns is not None and bv.fns <= hv.fns)
    return True


def leaf_value_in(st, leaf):
    """the expression the generalised leaf has in state st (e.g. at a back edge)"""
    v = get_loc(st, leaf.loc)
    for step in leaf.path:
        kind, i = step
        if kind == 'f':
            if not (isinstance(v, AdtV) and v.fields is not None and i < len(v.fields)):
                return None
            v = v.fields[i]
        elif kind == 'u':
            if not (isinstance(v, UnionV) and v.active == i):
                return None
            v = v.val
    if leaf.part == 'int':
        return v.e if isinstance(v, IntV) else None
    if leaf.part == 'off':
        return v.off if isinstance(v, PtrV) and v.r == leaf.region else None
    if leaf.part == 'soff':
        return v.ptr.off if isinstance(v, SliceV) and v.ptr.r == leaf.region else None
    if leaf.part == 'slen':
        return v.n if isinstance(v, SliceV) else None
    return None


def common_constraints(self, M, states):
    """constraints of any incoming state that every incoming state entails"""
    seen = set()
    s0 = states[0].store
    # equalities
    for st in states:
        for x, e in st.store.eqs.items():
            key = ('eq', x, e)
            if key in seen:
                continue
            seen.add(key)
            d = V(x) - e
            if all(o.store.entails_eq(d) for o in states):
                M.store.add_eq(d)
    for st in states:
        for c in st.store.les:
            if c in seen:
                continue
            seen.add(c)
            if all(o.store.entails_le(c) for o in states):
                M.store.add_le(c)
        for c in st.store.nes:
            key = ('ne', c)
            if key in seen:
                continue
            seen.add(key)
            if all(o.store.entails_ne(c) for o in states):
                M.store.add_ne(c)


def ref_terms(self, fr, M, leaf, leaves):
    """reference expressions a generalised leaf is compared with (valid in every incoming state
    because they only mention un-generalised values)"""
    refs = [ZERO]
    gen = {l.x for l in leaves}
    cur = M.frames.get(fr.fid, {})

    def add(e):
        e = M.store.nf(e)
        if any(s in gen for s in e.syms()):
            return
        if e not in refs:
            refs.append(e)

    if leaf.kind == 'ptr':
        add(V(self.regions[leaf.region].L))

    def walk(v, depth=0):
        if depth > 3:
            return
        if isinstance(v, PtrV) and leaf.kind == 'ptr' and v.r == leaf.region:
            add(v.off)
        elif isinstance(v, SliceV):
            if leaf.kind == 'ptr' and v.ptr.r == leaf.region:
                add(v.ptr.off)
                add(v.ptr.off + v.n * v.esz)
            if leaf.kind == 'int':
                add(v.n)
        elif isinstance(v, IntV) and leaf.kind == 'int':
            add(v.e)
        elif isinstance(v, AdtV) and v.fields is not None:
            for f in v.fields:
                walk(f, depth + 1)
        elif isinstance(v, UnionV) and v.val is not None:
            walk(v.val, depth + 1)
        elif isinstance(v, RefV) and isinstance(v.lv, LVObj) and depth < 2:
            o = M.heap.get(v.lv.obj)
            if o is not None and v.lv.path:
                o = self.nav(o, v.lv.path)     # a reference into the middle of an object: what it points at
            if o is not None:
                walk(o, depth + 1)
    # slice lengths of the current frame first: loop bounds are almost always one of them
    if leaf.kind == 'int':
        lens = []
        for l, v in cur.items():
            if isinstance(v, SliceV):
                add(v.n)
                e = M.store.nf(v.n)
                if e not in lens:
                    lens.append(e)
        # "how much of a fits beyond b" (haystack.len() - needle.len()): the bound of a substring scan
        for a in lens[:3]:
            for b in lens[:3]:
                if a is not b:
                    add(a - b)
    for l, v in cur.items():
        walk(v)
        if len(refs) > 24:
            break
    # values of the caller frames and heap objects (e.g. the start/end pointers a result must lie between)
    if len(refs) <= 24:
        for fid in sorted(M.frames, reverse=True):
            if fid == fr.fid:
                continue
            for l, v in M.frames[fid].items():
                walk(v)
            if len(refs) > 28:
                break
    if len(refs) <= 28:
        for o, v in M.heap.items():
            walk(v, 1)
            if len(refs) > 30:
                break
    return refs[:32]


def tightest_lb(store, e, span=1 << 13):
    """greatest k in [-span, span] with store |= e >= k, or None"""
    return store.lower_bound(e, -span, span)


TRIPLE_MAX = 5


def make_candidates(self, fr, M, leaves, states, step_consts, houdini):
    """template atoms over the generalised leaves entailed by every incoming state.
    Returns list of atoms ('le', expr) / ('div', leaf, m)."""
    cands = []
    stores = [s.store for s in states]
    n = len(states)
    weak = sorted(set(WEAK_KS) | set(step_consts) | {-c for c in step_consts})

    def entry_sub(e, i):
        # substitute every generalised symbol by its expression in state i
        return e.subst({l.x: l.entry[i] for l in leaves})

    def consider(expr):
        """expr is an expression over leaf symbols/refs; find k with expr >= k in all states"""
        k0 = tightest_lb(stores[0], entry_sub(expr, 0))
        if k0 is None:
            # unbounded, or the projection gave up: still try the standard weak constants
            for k in sorted(weak, reverse=True):
                at = C(k) - expr
                if all(stores[i].entails_le(entry_sub(at, i)) for i in range(n)):
                    cands.append(('le', at))
                    if not houdini:
                        break
            return
        ks = [k0] + ([k for k in weak if k < k0] if houdini else [])
        got = 0
        for k in ks:
            at = C(k) - expr      # k - expr <= 0
            if all(stores[i].entails_le(entry_sub(at, i)) for i in range(1, n)):
                cands.append(('le', at))
                got += 1
                if not houdini:
                    break
        if not got and not houdini:
            # try the weaker standard constants for plain joins
            for k in [k for k in weak if k < k0]:
                at = C(k) - expr
                if all(stores[i].entails_le(entry_sub(at, i)) for i in range(n)):
                    cands.append(('le', at))
                    break

    gen = {l.x for l in leaves}

    def anchored(l):
        """entry expression of a leaf if it is the same in every incoming state and free of generalised symbols"""
        e0 = stores[0].nf(l.entry[0])
        for i in range(1, n):
            if stores[i].nf(l.entry[i]) != e0:
                return None
        if any(s_ in gen for s_ in e0.syms()):
            return None
        return e0

    for leaf in leaves:
        x = V(leaf.x)
        for r in ref_terms(self, fr, M, leaf, leaves):
            consider(x - r)
            consider(r - x)
        if all(stores[i].entails_le(-leaf.entry[i]) for i in range(n)):
            cands.append(('le', -x))            # x >= 0 (every unsigned value; checked like any candidate)
        e0 = anchored(leaf)
        if e0 is not None and houdini:
            cands.append(('le', e0 - x))        # x >= entry value (monotone up)
            cands.append(('le', x - e0))        # x <= entry value (monotone down)
        if leaf.kind == 'ptr':
            A = V(self.regions[leaf.region].A)
            for m in CONG_MODS:
                if all(stores[i].divisible(A + leaf.entry[i], m) for i in range(n)):
                    cands.append(('div', leaf, m))
    # counting invariants: an integer leaf that equals (entry value) + CountOf([entry cursor, cursor))
    sr = states[0].ghost.get('search')
    if sr is not None and houdini:
        from . import e3
        for g in leaves:
            if g.kind != 'int':
                continue
            for x in leaves:
                if x.kind != 'ptr' or x.region != sr['region']:
                    continue
                eg, ex = anchored(g), anchored(x)
                for nd in sr['needles']:
                    if eg is not None and ex is not None:
                        cands.append(('cnt', g, x, nd, eg, ex))
                    # relative to the start of the whole search (valid for loops with several entries)
                    if all(states[i].store.entails_eq(
                            g.entry[i] - (e3.Fsym(self, states[i], sr['region'], nd, x.entry[i])
                                          - e3.Fsym(self, states[i], sr['region'], nd, sr['start']))) for i in range(n)):
                        cands.append(('cnt', g, x, nd, ZERO, sr['start']))
                # a count never exceeds the number of bytes scanned so far
                at = V(g.x) - (V(x.x) - sr['start'])
                if all(states[i].store.entails_le(g.entry[i] - (x.entry[i] - sr['start'])) for i in range(n)):
                    cands.append(('le', at))
    # pairs of generalised leaves: differences and sums
    for i, a in enumerate(leaves):
        for b in leaves[i + 1:]:
            xa, xb = V(a.x), V(b.x)
            consider(xa - xb)
            consider(xb - xa)
            if a.kind == 'int' or b.kind == 'int':
                consider(xa + xb)
                consider(-xa - xb)
            ea, eb = anchored(a), anchored(b)
            if houdini and (ea is None or eb is None) and a.kind == 'int' and b.kind == 'int':
                # the DIFFERENCE of the two entry values is the same expression in every incoming state
                d0 = stores[0].nf(a.entry[0] - b.entry[0])
                if all(stores[i].nf(a.entry[i] - b.entry[i]) == d0 for i in range(1, n)) and not any(s_ in gen for s_ in d0.syms()):
                    d = (xa - xb) - d0
                    cands.append(('le', d))
                    cands.append(('le', -d))
            if ea is not None and eb is not None and houdini:
                # lock-step: difference / sum equal to their entry values
                d = (xa - xb) - (ea - eb)
                cands.append(('le', d))
                cands.append(('le', -d))
                sm = (xa + xb) - (ea + eb)
                cands.append(('le', sm))
                cands.append(('le', -sm))
    # a (ghost) pointer leaf against an integer leaf, up to an offset that is itself a reference value:
    #   P - I + r >= k   (e.g. "every candidate position before i - index1 has been rejected")
    ptrs = [l for l in leaves if l.kind != 'int']
    ints_ = [l for l in leaves if l.kind == 'int']
    if houdini and ptrs and ints_ and len(ptrs) * len(ints_) <= 6 and 'pairspec' in states[0].ghost:
        # (only for candidate-position coverage: the ghost `hi` against loop counters / lane bounds)
        for pl in ptrs:
            for il in ints_:
                rs = [r for r in ref_terms(self, fr, M, il, leaves) if len(r.t) == 1 and r.k == 0][:8]
                rs += [r for r in ref_terms(self, fr, M, pl, leaves) if r.t and r not in rs][:6]      # offsets of live pointers into the region
                for r in rs:
                    consider(V(pl.x) - V(il.x) + r)
                    consider(V(pl.x) - V(il.x) - r)
    # disequalities between integer leaves (e.g. two indices kept distinct by construction)
    ints = [l for l in leaves if l.kind == 'int']
    if houdini and len(ints) <= 8:
        for i, a in enumerate(ints):
            for b in ints[i + 1:]:
                if all(stores[k].entails_ne(a.entry[k] - b.entry[k]) for k in range(n)):
                    cands.append(('ne', V(a.x) - V(b.x)))
    # small loops over integer leaves only: three-variable bounds  a + b <= c + k
    if houdini and 3 <= len(ints) <= TRIPLE_MAX:
        for i, a in enumerate(ints):
            for b in ints[i + 1:]:
                for c in ints:
                    if c is a or c is b:
                        continue
                    consider(V(c.x) - V(a.x) - V(b.x))
    return cands


def assume_cands(self, st, cands):
    for c in cands:
        if c[0] == 'le':
            st.store.add_le(c[1])
        elif c[0] == 'ne':
            st.store.add_ne(c[1])
        elif c[0] == 'div':
            leaf, m = c[1], c[2]
            k = fresh('k')
            st.store.add_eq(V(self.regions[leaf.region].A) + V(leaf.x) - m * V(k))
        elif c[0] == 'cnt':
            from . import e3
            _, g, x, nd, eg, ex = c
            r = x.region
            st.store.add_eq(V(g.x) - eg - (e3.Fsym(self, st, r, nd, V(x.x)) - e3.Fsym(self, st, r, nd, ex)))


def cand_holds(self, c, B, leaves):
    sub = {}
    for l in leaves:
        e = leaf_value_in(B, l)
        if e is None:
            return False
        sub[l.x] = e
    if c[0] == 'le':
        return B.store.entails_le(c[1].subst(sub))
    if c[0] == 'ne':
        return B.store.entails_ne(c[1].subst(sub))
    if c[0] == 'div':
        leaf, m = c[1], c[2]
        return B.store.divisible(V(self.regions[leaf.region].A) + sub[leaf.x], m)
    if c[0] == 'cnt':
        from . import e3
        _, g, x, nd, eg, ex = c
        r = x.region
        d = sub[g.x] - eg - (e3.Fsym(self, B, r, nd, sub[x.x]) - e3.Fsym(self, B, r, nd, ex))
        return B.store.entails_eq(d)
    return False


def merge_states(self, fr, b, states, force=frozenset(), houdini=False, step_consts=()):
    """returns (M, leaves, cands).  For houdini=False the candidates are already assumed in M."""
    self.stats['merges'] += 1
    M = State()
    stores = [s.store for s in states]
    common_constraints(self, M, states)
    leaves = []
    locs = live_locations(self, fr, b, states[0])
    M.ghost = self.models.merge_ghost(self, states)
    for loc in locs:
        vals = [get_loc(s, loc) for s in states]
        if any(v is None for v in vals):
            continue
        v = generalise_value(self, M, vals, stores, loc, (), leaves, force)
        set_loc(M, loc, v)
    # make sure every frame of the call stack exists
    for fid in states[0].frames:
        M.frames.setdefault(fid, {})
    # ranges of the fresh symbols from the types are implied by the template bounds below only if
    # they were entailed; add the candidates
    cands = make_candidates(self, fr, M, leaves, states, step_consts, houdini) if leaves else []
    extra = {l.x for l in leaves}
    extra |= cand_syms(cands, leaves)
    gc_state(self, M, extra=extra)
    if not houdini:
        assume_cands(self, M, cands)
    if self.opts.get('trace_loops'):
        import sys as _s
        print(f"[merge {fr.inst.path} bb{b}] {len(states)} states, leaves {[(l.loc, l.path, l.part, l.x) for l in leaves]}, cands {[c[1] if c[0] in ('le', 'ne') else (c[0], c[1].x, c[2] if c[0]=='div' else c[2].x) for c in cands]}", file=_s.stderr)
    return M, leaves, cands


def merge(self, fr, b, states):
    if len(states) == 1:
        return states[0]
    M, _, _ = merge_states(self, fr, b, states)
    return M


def loop_step_consts(self, inst, body):
    cs = set()
    for b in body:
        blk = inst.blocks[b]
        if blk.get('cleanup'):
            continue
        for s in blk['stmts']:
            if s['k'] == 'assign':
                for o in rv_operands(s['rv']):
                    if o['k'] == 'const' and o.get('ck') == 'int' and 1 < abs(o['v']) <= 4096:
                        cs.add(o['v'])
        t = blk['term']
        if t['k'] == 'call':
            for a in t['args']:
                if a['k'] == 'const' and a.get('ck') == 'int' and 1 < abs(a['v']) <= 4096:
                    cs.add(a['v'])
    return sorted(cs)[:8]


def syntactic_modified(self, fr, body, st):
    """locals of the current frame assigned inside the loop body"""
    inst = fr.inst
    out = set()
    for b in body:
        blk = inst.blocks[b]
        if blk.get('cleanup'):
            continue
        for s in blk['stmts']:
            if s['k'] in ('assign', 'setdiscr'):
                out.add(s['p']['l'])
        t = blk['term']
        if t['k'] == 'call':
            out.add(t['dest']['l'])
    return out


SPLIT_MAX = 2
# (the per-entry-state analysis pays off in the substring layer, whose comparison loops are entered from two different
#  positions; the byte-search layer has deeply nested counting loops where it only multiplies work)
SPLIT_ROOTS = re.compile(r'memmem|twoway|rabinkarp|packedpair|shiftor|arch::all::is_')


def exec_loop(self, fr, h, entry_states):
    """execute the natural loop with header h; returns {'exits': [(block, state)], 'returns': [state]}.
    Two precision measures before the (merging) Houdini analysis:
      * an entry state for which the loop header leaves the loop at once takes that exit directly and does not
        take part in the invariant (its facts need not hold inside the body);
      * an innermost loop entered in at most SPLIT_MAX different states is analysed once per entry state."""
    inst = fr.inst
    body = fr.loops[h]
    pre_exits = []
    if len(entry_states) > 1:
        keep = []
        for E in entry_states:
            self.silent += 1
            try:
                succ = self.exec_block(fr, h, E.copy())
            except Exception:
                succ = None
            finally:
                self.silent -= 1
            if succ is not None and succ and all(nb != 'return' and nb != h and nb not in body for nb, _ in succ):
                # (re-run un-silenced so that the header's obligations are recorded for this path too)
                for nb, ns in self.exec_block(fr, h, E):
                    pre_exits.append((nb, ns))
            else:
                keep.append(E)
        entry_states = keep
        if not entry_states:
            return {'exits': pre_exits, 'returns': []}
    innermost = not any(o != h and o in body for o in fr.loops)
    if innermost and 1 < len(entry_states) <= SPLIT_MAX and SPLIT_ROOTS.search(self.root or ''):
        out = {'exits': list(pre_exits), 'returns': []}
        for E in entry_states:
            r = exec_loop1(self, fr, h, [E])
            out['exits'] += r['exits']
            out['returns'] += r['returns']
        return out
    r = exec_loop1(self, fr, h, entry_states)
    r['exits'] = pre_exits + r['exits']
    return r


def exec_loop1(self, fr, h, entry_states):
    inst = fr.inst
    body = fr.loops[h]
    self.stats['loops'] += 1
    force = set()
    steps = loop_step_consts(self, inst, body)
    cands = None
    M = leaves = None
    rounds = 0
    changedF = True
    probed = False
    while True:
        rounds += 1
        if rounds > 60:
            from .interp import Unsupported
            raise Unsupported(f"loop analysis did not converge in {inst.key} bb{h}")
        if changedF:
            M, leaves, cands = merge_states(self, fr, h, entry_states, force=frozenset(force), houdini=True, step_consts=steps)
            self.stats['cands'] += len(cands)
            changedF = False
        H = M.copy()
        assume_cands(self, H, cands)
        self.silent += 1
        self.pinned.append(cand_syms(cands, leaves))
        try:
            res = run_body(self, fr, h, H.copy(), body)
        finally:
            self.silent -= 1
            self.pinned.pop()
        self.stats['houdini_rounds'] += 1
        if self.models.e3:
            from . import e3 as _e3
            for B in res['back']:
                if 'pairspec' in B.ghost:
                    _e3.normalise(self, B)
        if not probed and self.models.e3 and not any(o != h and o in body for o in fr.loops):
            # (innermost loops only: an interval built by a comparison loop is anchored at that loop's entry)
            probed = True
            from . import eqg
            if eqg.probe_install(self, fr, h, body, entry_states, res['back'], run_body, leaves):
                changedF = True
                continue
        # leaves changed by the body but not generalised
        newF = set()
        for B in res['back']:
            for loc in live_locations(self, fr, h, H):
                for lf in changed_leaves(self, loc, get_loc(H, loc), get_loc(B, loc), B.store):
                    if lf not in force:
                        newF.add(lf)
        if newF:
            force |= newF
            changedF = True
            continue
        # forced addresses whose back-edge value does not even have the head value's shape
        newT = set()
        for B in res['back']:
            for f in list(force):
                if len(f) != 2 or (f[0], f[1], 'top') in force:
                    continue
                hv, bv = value_at(get_loc(H, f[0]), f[1]), value_at(get_loc(B, f[0]), f[1])
                if not shape_compatible(hv, bv):
                    newT.add((f[0], f[1], 'top'))
        if newT:
            force |= newT
            changedF = True
            continue
        failed = [c for c in cands if any(not cand_holds(self, c, B, leaves) for B in res['back'])]
        if self.opts.get('trace_loops'):
            import sys as _s
            print(f"[loop {inst.path} bb{h}] round {rounds}: {len(leaves)} leaves {[ (l.loc, l.path, l.part) for l in leaves]}, {len(cands)} cands, {len(res['back'])} back states, {len(failed)} dropped", file=_s.stderr)
            for c in failed:
                print('     drop', c[0], c[1] if c[0] in ('le', 'ne') else (c[1].x, c[2] if c[0] == 'div' else c[2].x), file=_s.stderr)
                if self.opts.get('trace_loops') == '2':
                    for bi, B in enumerate(res['back']):
                        if not cand_holds(self, c, B, leaves):
                            vals = {l.x: str(B.store.nf(leaf_value_in(B, l))) if leaf_value_in(B, l) is not None else None for l in leaves}
                            print(f'        back state {bi}: leaves {vals} trail {B.ghost.get("trail")}', file=_s.stderr)
                            break
        if failed:
            fs = set(id(c) for c in failed)
            cands = [c for c in cands if id(c) not in fs]
            continue
        break
    self.stats['cands_kept'] += len(cands)
    if not self.silent:
        self.loop_invs.append((inst.key, h, len(leaves), len(cands)))
    H = M.copy()
    assume_cands(self, H, cands)
    H0 = H.copy()          # the loop-head state itself (run_body continues in H)
    self.pinned.append(cand_syms(cands, leaves))
    try:
        res = run_body(self, fr, h, H, body)
    finally:
        self.pinned.pop()
    if not self.silent:
        from . import mm
        mm.loop_transfer(self, fr, h, body, H0, res['back'])
    return {'exits': res['exits'], 'returns': res['returns']}


def run_body(self, fr, h, st, body):
    entries = self.exec_block(fr, h, st)
    returns = [s for nb, s in entries if nb == 'return']
    ent = [(nb, s) for nb, s in entries if nb != 'return']
    # a self-loop / immediate exit is handled by run_region's routing
    r = self.run_region(fr, ent, body, h)
    r['returns'] = returns + r['returns']
    return r


def shape_sig(self, v, depth=0):
    """variant structure of a value (so that Some/None, Ok/Err are never merged together)"""
    if isinstance(v, AdtV):
        if v.fields is None:
            return ('?',)
        if depth > 3:
            return (v.variant,)
        return (v.variant,) + tuple(shape_sig(self, f, depth + 1) for f in v.fields if isinstance(f, (AdtV, UnionV)))
    if isinstance(v, UnionV):
        return ('u', v.active)
    return ()


def merge_by_shape(self, fr, b, states):
    groups = {}
    for st in states:
        sig = []
        for loc in live_locations(self, fr, b, st):
            if loc[0] == 'L' and loc[1] == fr.fid:
                v = get_loc(st, loc)
                if isinstance(v, (AdtV, UnionV)):
                    sig.append((loc[2], shape_sig(self, v)))
        groups.setdefault(tuple(sig), []).append(st)
    out = []
    for sig, sts in groups.items():
        out.append(sts[0] if len(sts) == 1 else merge(self, fr, b, sts))
    return out


def value_syms(v, acc, depth=0):
    if isinstance(v, IntV):
        for s_, _ in v.e.t:
            acc.add(s_)
    elif isinstance(v, PtrV):
        acc.add(('r', v.r))
        for s_, _ in v.off.t:
            acc.add(s_)
    elif isinstance(v, SliceV):
        value_syms(v.ptr, acc)
        for s_, _ in v.n.t:
            acc.add(s_)
    elif isinstance(v, AdtV):
        if v.fields is not None:
            for f in v.fields:
                value_syms(f, acc, depth + 1)
    elif isinstance(v, UnionV):
        if v.val is not None:
            value_syms(v.val, acc, depth + 1)
    elif isinstance(v, BoolV):
        atom_syms(v.a, acc)
    elif isinstance(v, TermV):
        term_syms(v.t, acc)
    elif isinstance(v, RefV):
        pass


def atom_syms(a, acc):
    if a[0] in ('le', 'eq', 'ne'):
        for s_, _ in a[1].t:
            acc.add(s_)
    elif a[0] in ('and', 'or'):
        atom_syms(a[1], acc)
        atom_syms(a[2], acc)
    elif a[0] == 'pred':
        term_syms(a[3], acc)


def term_syms(t, acc):
    if isinstance(t, tuple):
        for x in t:
            term_syms(x, acc)
    elif isinstance(t, LinExpr):
        for s_, _ in t.t:
            acc.add(s_)


def cand_syms(cands, leaves):
    """symbols an enclosing loop's invariant candidates talk about: they must survive
    garbage collection inside the loop body, or the invariant cannot be re-established"""
    out = {l.x for l in leaves}
    for c in cands:
        if c[0] in ('le', 'ne'):
            out.update(c[1].syms())
        elif c[0] == 'cnt':
            out.update(c[4].syms())
            out.update(c[5].syms())
            out.update(c[3].syms())
    return out


def gc_state(self, st, extra=()):
    """drop constraints on symbols that no live value, ghost fact or region mentions"""
    acc = set(extra)
    for pset in self.pinned:
        acc |= pset
    for fid, locs in st.frames.items():
        for v in locs.values():
            value_syms(v, acc)
    for v in st.heap.values():
        value_syms(v, acc)
    for k, d in st.ghost.items():
        if isinstance(d, dict):
            for kk, vv in d.items():
                term_syms(kk, acc)
                if isinstance(vv, int) and k in ('bytes', 'decomp', 'F'):
                    acc.add(vv)
                elif isinstance(vv, tuple):
                    term_syms(vv, acc)
                if isinstance(kk, int):
                    acc.add(kk)
    live = set()
    for x in acc:
        if isinstance(x, tuple) and x[0] == 'r':
            reg = self.regions[x[1]]
            live.add(reg.A)
            live.add(reg.L)
        elif isinstance(x, int):
            live.add(x)
    # every region's A/L stay live (cheap, and obligations refer to them)
    for reg in self.regions.values():
        live.add(reg.A)
        live.add(reg.L)
    # raw symbols defined by equalities expand to their right-hand sides
    more = set()
    for x in live:
        e = st.store.eqs.get(x)
        if e is not None:
            for s_, _ in e.t:
                more.add(s_)
    live |= more
    st.store.drop_dead(live)
