"""Functional specifications (E3 post-conditions) of search roots: which arguments are the
needles, which bytes are searched, what the result denotes.  Public API items are referenced
by path (they are the interface the properties talk about)."""
import re
from .lin import LinExpr, fresh
from .absval import *
from . import e3

V = LinExpr.var
C = LinExpr.const

FACADE = r'arch::(all|x86_64::sse2|x86_64::avx2|aarch64::neon|wasm32::simd128)::memchr::(One|Two|Three)'
N_OF = {'One': 1, 'Two': 2, 'Three': 3, '': 1, '2': 2, '3': 3}


def collect_u8(I, st, val, tid, out, depth=0):
    """IntV leaves of 8-bit integer fields inside val (deduplicated by normal form)"""
    if depth > 5 or val is None:
        return
    if isinstance(val, RefV) and isinstance(val.lv, LVObj) and not isinstance(val.lv.obj, tuple):
        ty = I.P.types[tid] if tid is not None else None
        to = ty['to'] if ty and ty['kind'] in ('ref', 'ptr') else None
        base = st.heap.get(val.lv.obj)
        v = I.nav(base, val.lv.path) if base is not None else None
        collect_u8(I, st, v, to, out, depth + 1)
        return
    if isinstance(val, AdtV) and val.fields is not None and not isinstance(val.tid, tuple):
        ty = I.P.types[val.tid]
        if ty['kind'] == 'adt' and val.variant is not None:
            fts = [f['ty'] for f in ty['variants'][val.variant]['fields']]
        elif ty['kind'] == 'tuple':
            fts = ty['fields']
        else:
            return
        for f, ft in zip(val.fields, fts):
            fty = I.P.types[ft]
            if isinstance(f, IntV) and fty['kind'] == 'int' and fty['bits'] == 8:
                e = st.store.nf(f.e)
                if e not in out:
                    out.append(e)
            else:
                collect_u8(I, st, f, ft, out, depth + 1)


def find_iter_obj(I, st, val, tid, depth=0):
    """the generic::memchr::Iter value inside an iterator object: returns (lvalue of it, AdtV)"""
    if depth > 4 or val is None:
        return None
    if isinstance(val, AdtV) and val.fields is not None and not isinstance(val.tid, tuple):
        # iterator passed by value (e.g. Iterator::count(self))
        for i, f in enumerate(val.fields):
            if isinstance(f, AdtV) and not isinstance(f.tid, tuple) and I.P.types[f.tid].get('path') == 'arch::generic::memchr::Iter':
                return (None, f)
        return None
    if isinstance(val, RefV) and isinstance(val.lv, LVObj) and not isinstance(val.lv.obj, tuple):
        base = st.heap.get(val.lv.obj)
        v = I.nav(base, val.lv.path) if base is not None else None
        if isinstance(v, AdtV) and v.fields is not None:
            ty = I.P.types[v.tid]
            if ty.get('path') == 'arch::generic::memchr::Iter':
                return (val.lv, v)
            for i, f in enumerate(v.fields):
                if isinstance(f, AdtV) and not isinstance(f.tid, tuple) and I.P.types[f.tid].get('path') == 'arch::generic::memchr::Iter':
                    return (val.lv.ext(('f', i)), f)
    return None


def spec_for(P, inst):
    """None, or dict(kind, mode, ...) describing the E3 specification of this root"""
    p = inst.path
    if re.match(r'^arch::(all|x86_64::sse2|x86_64::avx2|aarch64::neon|wasm32::simd128)::packedpair::Finder::find_prefilter$', p) \
            or p == 'memmem::searcher::Prefilter::find_simple' or re.match(r'^memmem::searcher::prefilter_kind_\w+$', p):
        return {'kind': 'pairpre', 'mode': 'fwd', 'needles': 'pair', 'n': 1}
    if re.match(r'^arch::(x86_64::sse2|x86_64::avx2|aarch64::neon|wasm32::simd128)::packedpair::Finder::find$', p):
        return {'kind': 'pairpre', 'mode': 'fwd', 'needles': 'pair', 'n': 1, 'find': True}
    m = re.match(r'^memchr::mem(r?)chr([23]?)$', p)
    if m:
        return {'kind': 'slice', 'mode': 'rev' if m.group(1) else 'fwd', 'needles': 'args', 'n': N_OF[m.group(2)]}
    m = re.match(r'^' + FACADE + r'::(find|rfind)$', p)
    if m:
        return {'kind': 'slice', 'mode': 'rev' if m.group(3) == 'rfind' else 'fwd', 'needles': 'self', 'n': N_OF[m.group(2)]}
    m = re.match(r'^' + FACADE + r'::(find_raw|rfind_raw)$', p)
    if m:
        return {'kind': 'raw', 'mode': 'rev' if m.group(3) == 'rfind_raw' else 'fwd', 'needles': 'self', 'n': N_OF[m.group(2)]}
    m = re.match(r"^<(memchr::Memchr([23]?)<'h>|" + FACADE + r"Iter<'a, 'h>) as core::iter::Iterator>::size_hint$", p)
    if m:
        return {'kind': 'iter', 'mode': 'size_hint', 'needles': 'self', 'n': (N_OF[m.group(2) or ''] if m.group(1).startswith('memchr::') else N_OF[m.group(4)])}
    m = re.match(r'^' + FACADE + r'::(count|count_raw)$', p)
    if m:
        return {'kind': 'raw' if m.group(3) == 'count_raw' else 'slice', 'mode': 'count', 'needles': 'self', 'n': 1}
    m = re.match(r"^<(memchr::Memchr<'h>|" + FACADE + r"Iter<'a, 'h>) as core::iter::Iterator>::count$", p)
    if m:
        return {'kind': 'iter', 'mode': 'count', 'needles': 'self', 'n': 1}
    m = re.match(r"^<(memchr::Memchr([23]?)<'h>|" + FACADE + r"Iter<'a, 'h>) as core::iter::(Iterator>::next|DoubleEndedIterator>::next_back)$", p)
    if m:
        n = N_OF[m.group(2) or ''] if m.group(1).startswith('memchr::') else N_OF[m.group(4)]
        return {'kind': 'iter', 'mode': 'rev' if 'next_back' in p else 'fwd', 'needles': 'self', 'n': n}
    return None


def install(spec, base_contract):
    """wrap a contract: after the arguments exist, install the search ghost"""
    def c(I, inst, st, args):
        if base_contract:
            args = base_contract(I, inst, st, args)
        info = {}
        needles = []
        if spec['kind'] == 'pairpre':
            install_pair(I, inst, st, args, info, real_needle=args[2] if spec.get('find') and len(args) > 2 else None)
            st.ghost['spec_info'] = info
            return args
        if spec['needles'] == 'args':
            for a in args[:spec['n']]:
                if isinstance(a, IntV):
                    needles.append(st.store.nf(a.e))
        else:
            collect_u8(I, st, args[0], inst.locals[1], needles)
        info['n_found'] = len(needles)
        if spec['kind'] == 'slice':
            hs = args[-1]
            if isinstance(hs, SliceV):
                r, start, end = hs.ptr.r, hs.ptr.off, hs.ptr.off + hs.n * hs.esz
                e3.init_search(I, st, r, start, end, needles)
                info['index_base'] = start
        elif spec['kind'] == 'raw':
            s_, e_ = args[-2], args[-1]
            if isinstance(s_, PtrV) and isinstance(e_, PtrV) and s_.r == e_.r:
                e3.init_search(I, st, s_.r, s_.off, e_.off, needles)
        elif spec['kind'] == 'iter':
            it = find_iter_obj(I, st, args[0], inst.locals[1])
            if it:
                lv, v = it
                ptrs = [x for x in v.fields if isinstance(x, PtrV)]
                if len(ptrs) == 3:
                    e3.init_search(I, st, ptrs[0].r, ptrs[1].off, ptrs[2].off, needles)
                    info['index_base'] = ptrs[0].off
                    if lv is not None:
                        info['iter_lv'] = lv
                    info['old'] = (ptrs[0].off, ptrs[1].off, ptrs[2].off)
        st.ghost['spec_info'] = info
        return args
    return c


class _Fr:
    def __init__(self, inst):
        self.inst = inst


def install_pair(I, inst, st, args, info, real_needle=None):
    """C11: the prefilter `self` was built from SOME needle of length n that has byte b1 at offset i1 and
    b2 at i2 (ghost n, constrained only by what the finder's own fields say about it); candidate position p
    is *rejected* when haystack[p+i1] != b1 or haystack[p+i2] != b2; the needle can only occur at positions
    [0, haystack.len() - n]."""
    from . import mm
    f = mm.follow(I, st, args[0])
    hs = args[1]
    info['n_found'] = 0
    if not (isinstance(f, AdtV) and f.fields is not None and isinstance(hs, SliceV)):
        return
    n = fresh('ghost_needle_len')
    st.store.add_le(C(2) - V(n))
    st.store.add_le(V(n) - V(I.regions[hs.ptr.r].L) * 0 - C(1 << 62))
    if isinstance(real_needle, SliceV):
        # `find(haystack, needle)`: the needle is an argument (REL relates it to the finder); a position is rejected
        # when the pair is absent there or when the confirming comparison against THIS needle fails
        st.store.add_eq(V(n) - real_needle.n)
    p = mm.tpath(I, f)
    b1 = b2 = i1 = i2 = None
    portable = False
    if p == mm.PP_ALL:
        pair, x1, x2 = f.fields
        if isinstance(x1, IntV) and isinstance(x2, IntV) and isinstance(pair, AdtV):
            b1, b2, i1, i2 = x1.e, x2.e, pair.fields[0].e, pair.fields[1].e
            portable = True
    elif p == mm.PREFILTER and inst.path.endswith('::find_simple'):
        # find_simple: the "pair" degenerates to the rarest byte at its offset
        rb, ro = f.fields[2], f.fields[3]
        if isinstance(rb, IntV) and isinstance(ro, IntV):
            b1 = b2 = rb.e
            i1 = i2 = ro.e
            portable = True
    else:
        pre = None
        if p == mm.PREFILTER:
            # a prefilter_kind_* dispatch target: the pair of the finder stored in the active union field, plus the
            # content invariant of Prefilter that its constructors establish (C11 SPEC-POST): rarest = first pair byte
            pre = f
            kind = f.fields[1]
            f = kind.val if isinstance(kind, UnionV) else None
            p = mm.tpath(I, f)
            if f is None:
                return
        if p == mm.PP_ALL:
            pair, x1, x2 = f.fields
            gens = []
            if isinstance(x1, IntV) and isinstance(x2, IntV) and isinstance(pair, AdtV):
                b1, b2, i1, i2 = x1.e, x2.e, pair.fields[0].e, pair.fields[1].e
        else:
            gens = [f] if p == mm.PP_GEN else [x for x in f.fields if mm.tpath(I, x) == mm.PP_GEN]
        for g in gens:
            pair, v1, v2, mhl = g.fields
            ok = (isinstance(v1, TermV) and v1.t[0] == 'splat' and isinstance(v2, TermV) and v2.t[0] == 'splat' and isinstance(pair, AdtV))
            if not ok:
                return
            b1, b2, i1, i2 = v1.t[1], v2.t[1], pair.fields[0].e, pair.fields[1].e
            facts = []
            mm.rel_generic(I, st, g, V(n), facts)
            for fa in facts:
                mm.add_atom(st, fa.atom)
    if b1 is None:
        return
    if p != mm.PREFILTER and 'pre' in dir() and pre is not None:
        rb, ro = pre.fields[2], pre.fields[3]
        if isinstance(rb, IntV) and isinstance(ro, IntV):
            st.store.add_eq(rb.e - b1)
            st.store.add_eq(ro.e - i1)
    for i in (i1, i2):
        st.store.add_le(i + 1 - V(n))
    sym = fresh('pairneedle')
    st.ghost['pairspec'] = {'b1': st.store.nf(b1), 'b2': st.store.nf(b2), 'i1': st.store.nf(i1), 'i2': st.store.nf(i2), 'sym': V(sym), 'n': V(n)}
    if isinstance(real_needle, SliceV):
        st.ghost['pairspec']['needle'] = (real_needle.ptr.r, real_needle.ptr.off, real_needle.n)
    start = hs.ptr.off
    end = hs.ptr.off + hs.n - V(n) + 1
    e3.init_search(I, st, hs.ptr.r, start, end, [V(sym)])
    info['n_found'] = 1
    info['index_base'] = start


def post(spec):
    def chk(I, inst, results):
        fr = _Fr(inst)
        if not results:
            return
        info = results[0][0].ghost.get('spec_info', {})
        ok_n = info.get('n_found') == spec['n']
        I.ob('POST', fr, inst.loc, 'spec: needles identified', ok_n,
             '' if ok_n else f"expected {spec['n']} needle(s), found {info.get('n_found')} in the searcher value")
        if 'search' not in results[0][0].ghost:
            I.ob('POST', fr, inst.loc, 'spec: haystack identified', False, 'could not identify the searched byte range from the arguments')
            return
        if spec['kind'] == 'pairpre':
            # (the private short-haystack fallback only has to be complete: its candidate may be clamped to 0)
            e3.check_search_post(I, inst, results, 'fwd', 'index', info.get('index_base'), range_check=False,
                                 match_check=inst.path.endswith('::find_prefilter'))
            return
        if spec['mode'] == 'count':
            e3.check_count_post(I, inst, results)
            return
        if spec['mode'] == 'size_hint':
            check_size_hint(I, inst, results)
            return
        e3.check_search_post(I, inst, results, spec['mode'], 'ptr' if spec['kind'] == 'raw' else 'index', info.get('index_base'))
        if spec['kind'] == 'iter' and 'iter_lv' in info:
            check_iter_transfer(I, inst, results, spec, info)
    return chk


def check_iter_transfer(I, inst, results, spec, info):
    """C06 IT-1/IT-2: next() moves only `start`, to found+1; next_back() moves only `end`, to found;
    None leaves the window unchanged."""
    fr = _Fr(inst)
    o0, s0, e0 = info['old']
    tag = inst.path.rsplit('::', 1)[-1]
    for st, ret in results:
        if not st.store.check_sat():
            continue
        base = st.heap.get(info['iter_lv'].obj)
        v = I.nav(base, info['iter_lv'].path) if base is not None else None
        ptrs = [x for x in v.fields if isinstance(x, PtrV)] if isinstance(v, AdtV) and v.fields is not None else []
        if len(ptrs) != 3 or not isinstance(ret, AdtV) or ret.variant is None:
            I.ob('IT-TRANSFER', fr, inst.loc, f'{tag}: iterator state tracked', False, 'iterator fields no longer tracked at exit')
            continue
        o1, s1, e1 = ptrs[0].off, ptrs[1].off, ptrs[2].off
        s = st.store
        same_o = s.entails_eq(o1 - o0)
        if ret.variant == 0:
            ok = same_o and s.entails_eq(s1 - s0) and s.entails_eq(e1 - e0)
            I.ob('IT-TRANSFER', fr, inst.loc, f'{tag}: None leaves the window unchanged (fused)', ok,
                 '' if ok else f"window after None: [{s.nf(s1)}, {s.nf(e1)}) was [{s.nf(s0)}, {s.nf(e0)})")
        else:
            x = ret.fields[0]
            if not isinstance(x, IntV):
                I.ob('IT-TRANSFER', fr, inst.loc, f'{tag}: yielded index tracked', False, '')
                continue
            found = o0 + x.e
            if spec['mode'] == 'fwd':
                ok = same_o and s.entails_eq(s1 - (found + 1)) and s.entails_eq(e1 - e0)
                I.ob('IT-TRANSFER', fr, inst.loc, f'{tag}: Some(i) => start := found + 1, end unchanged', ok,
                     '' if ok else f"start' = {s.nf(s1)}, found = {s.nf(found)}, end' = {s.nf(e1)}, end = {s.nf(e0)}")
            else:
                ok = same_o and s.entails_eq(e1 - found) and s.entails_eq(s1 - s0)
                I.ob('IT-TRANSFER', fr, inst.loc, f'{tag}: Some(i) => end := found, start unchanged', ok,
                     '' if ok else f"end' = {s.nf(e1)}, found = {s.nf(found)}, start' = {s.nf(s1)}, start = {s.nf(s0)}")


def check_size_hint(I, inst, results):
    """(lo, Some(hi)): lo <= 0 ... every remaining match is a distinct position of the window, so
    any lower bound other than 0 is unprovable here and hi must be at least end - start"""
    fr = _Fr(inst)
    for st, ret in results:
        sr = st.ghost.get('search')
        if sr is None or not st.store.check_sat():
            continue
        s = st.store
        ok_lo, ok_hi, det = False, False, ''
        if isinstance(ret, AdtV) and ret.fields is not None and len(ret.fields) == 2:
            lo, hi = ret.fields
            ok_lo = isinstance(lo, IntV) and s.entails_le(lo.e)
            if isinstance(hi, AdtV) and hi.variant == 0:
                ok_hi = True
            elif isinstance(hi, AdtV) and hi.variant == 1 and isinstance(hi.fields[0], IntV):
                ok_hi = s.entails_le((sr['end'] - sr['start']) - hi.fields[0].e)
                det = f"upper = {s.nf(hi.fields[0].e)}, window length = {s.nf(sr['end'] - sr['start'])}"
        I.ob('SIZE-HINT', fr, inst.loc, 'size_hint: lower bound is 0', ok_lo, '' if ok_lo else f"lower bound {ret}")
        I.ob('SIZE-HINT', fr, inst.loc, 'size_hint: upper bound >= end - start', ok_hi, '' if ok_hi else det)
