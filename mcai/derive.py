"""Inter-procedural, flow-insensitive "derived-from" analysis.

derives(P, inst, x) answers: from which roots can the value x have been
computed?  Roots are
   ('arg', n, path)   -- argument n of `inst`, narrowed to the field path
   ('const',)         -- a literal / constant
   ('fresh', callee)  -- result of a call with no arguments
and `via` collects the leaf (not descended) callees the value passed through,
`computed` says whether arithmetic/comparison was involved."""
from .prog import rv_operands


class D:
    __slots__ = ('roots', 'via', 'computed')

    def __init__(self, roots=(), via=(), computed=False):
        self.roots = set(roots)
        self.via = set(via)
        self.computed = computed

    def merge(self, o):
        self.roots |= o.roots
        self.via |= o.via
        self.computed = self.computed or o.computed
        return self

    def __repr__(self):
        return f"D(roots={sorted(self.roots)}, via={sorted(self.via)}, computed={self.computed})"


def field_path(place):
    return tuple(e['i'] for e in place['pr'] if e['k'] == 'field')


def derives(P, inst, x, depth=0, _seen=None, _cache=None):
    if _seen is None:
        _seen = set()
    if _cache is None:
        _cache = {}
    if isinstance(x, dict):
        if x['k'] in ('const', 'rtcheck'):
            return D([('const',)])
        place = x['p']
    else:
        place = {'l': x, 'pr': []}
    return _place(P, inst, place, depth, _seen, _cache)


def _place(P, inst, place, depth, seen, cache):
    l = place['l']
    fp = field_path(place)
    if 1 <= l <= inst.arg_count:
        return D([('arg', l, fp)])
    d = _local(P, inst, l, depth, seen, cache)
    if fp:
        out = D(via=d.via, computed=d.computed)
        for r in d.roots:
            if r[0] == 'arg':
                out.roots.add(('arg', r[1], (r[2] + fp)[:4]))
            else:
                out.roots.add(r)
        return out
    return d


def _local(P, inst, l, depth, seen, cache):
    key = (inst.key, l)
    if key in cache:
        return cache[key]
    if key in seen:
        return D()
    seen.add(key)
    out = D()
    for (b, i, d) in inst.assignments_to(l):
        if i == 'term':
            out.merge(_call(P, inst, d, depth, seen, cache))
            continue
        rv = d
        k = rv['k']
        if k in ('use', 'cast'):
            out.merge(derives(P, inst, rv['op'], depth, seen, cache))
        elif k in ('ref', 'rawptr'):
            out.merge(_place(P, inst, rv['p'], depth, seen, cache))
        elif k == 'discr':
            dd = _place(P, inst, rv['p'], depth, seen, cache)
            dd.computed = True
            out.merge(dd)
        elif k == 'agg':
            for o in rv['ops']:
                out.merge(derives(P, inst, o, depth, seen, cache))
            if not rv['ops']:
                out.roots.add(('unit',))   # field-less variant / unit struct
        else:
            dd = D(computed=True)
            for o in rv_operands(rv):
                dd.merge(derives(P, inst, o, depth, seen, cache))
            out.merge(dd)
    # partial assignments (field writes) also contribute
    for b, i, s in inst.stmts():
        if s['k'] == 'assign' and s['p']['l'] == l and s['p']['pr']:
            rv = s['rv']
            for o in rv_operands(rv):
                out.merge(derives(P, inst, o, depth, seen, cache))
    cache[key] = out
    return out


def _call(P, inst, term, depth, seen, cache):
    c = term['callee']
    args = term['args']
    argd = [derives(P, inst, a, depth, seen, cache) for a in args]
    ck = c.get('inst')
    callee = P.instances.get(ck) if ck else None
    if callee is not None and callee.local and callee.has_body and depth < 4:
        summ = return_summary(P, callee, depth + 1)
        out = D(via=summ.via, computed=summ.computed)
        for r in summ.roots:
            if r[0] == 'arg':
                n = r[1] - 1
                if n < len(argd):
                    out.via |= argd[n].via
                    out.computed = out.computed or argd[n].computed
                    for ar in argd[n].roots:
                        if ar[0] == 'arg':
                            out.roots.add(('arg', ar[1], (ar[2] + r[2])[:4]))
                        else:
                            out.roots.add(ar)
            else:
                out.roots.add(r)
        return out
    name = ck or c.get('path') or 'indirect'
    out = D(via=[name])
    if not args:
        out.roots.add(('fresh', name))
    for a in argd:
        out.merge(a)
    return out


_summ_cache = {}


def return_summary(P, inst, depth=0):
    key = (id(P), inst.key)
    if key in _summ_cache:
        return _summ_cache[key]
    _summ_cache[key] = D()  # recursion guard
    d = derives(P, inst, 0, depth)
    _summ_cache[key] = d
    return d
