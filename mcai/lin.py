"""Exact linear integer arithmetic for the abstract interpreter.

LinExpr : immutable sparse linear expression  sum(c_i * x_i) + k  over integer
          symbols (symbols are ints; coefficients and k are Python ints).
Store   : conjunction of
            - solved equalities  x := e   (applied eagerly as a substitution)
            - inequalities  e <= 0  (gcd-normalised, integer-tightened)
            - disequalities e != 0
          with entailment by Fourier-Motzkin elimination on the cone of
          influence of the query.  Sound for proving: "no" means "not proved".
"""
from math import gcd
from functools import reduce

_next_sym = [1]
SYM_INFO = {}


def fresh(name='t', lo=None, hi=None):
    s = _next_sym[0]
    _next_sym[0] += 1
    SYM_INFO[s] = name
    return s


def sym_name(s):
    return f"{SYM_INFO.get(s, 's')}{s}"


DROP_FM_MAX = 40


class LinExpr:
    __slots__ = ('t', 'k', '_h')

    def __init__(self, terms=None, k=0):
        # terms: tuple of (sym, coeff) sorted by sym, no zero coeffs
        if terms is None:
            terms = ()
        elif isinstance(terms, dict):
            terms = tuple(sorted((s, c) for s, c in terms.items() if c != 0))
        self.t = terms
        self.k = k
        self._h = None

    @staticmethod
    def const(k):
        return LinExpr((), k)

    @staticmethod
    def var(s, c=1):
        return LinExpr(((s, c),), 0)

    def is_const(self):
        return not self.t

    def syms(self):
        return [s for s, _ in self.t]

    def coeff(self, s):
        for x, c in self.t:
            if x == s:
                return c
        return 0

    def __add__(self, o):
        if isinstance(o, int):
            return LinExpr(self.t, self.k + o)
        d = dict(self.t)
        for s, c in o.t:
            v = d.get(s, 0) + c
            if v:
                d[s] = v
            else:
                d.pop(s, None)
        return LinExpr(tuple(sorted(d.items())), self.k + o.k)

    __radd__ = __add__

    def __neg__(self):
        return LinExpr(tuple((s, -c) for s, c in self.t), -self.k)

    def __sub__(self, o):
        if isinstance(o, int):
            return LinExpr(self.t, self.k - o)
        return self + (-o)

    def __rsub__(self, o):
        return (-self) + o

    def __mul__(self, m):
        if isinstance(m, LinExpr):
            if m.is_const():
                m = m.k
            elif self.is_const():
                return m * self.k
            else:
                raise ValueError('nonlinear')
        if m == 0:
            return LinExpr()
        return LinExpr(tuple((s, c * m) for s, c in self.t), self.k * m)

    __rmul__ = __mul__

    def __eq__(self, o):
        return isinstance(o, LinExpr) and self.t == o.t and self.k == o.k

    def __hash__(self):
        if self._h is None:
            self._h = hash((self.t, self.k))
        return self._h

    def subst(self, m):
        """substitute symbols by LinExprs from dict m"""
        if not m:
            return self
        hit = False
        for s, _ in self.t:
            if s in m:
                hit = True
                break
        if not hit:
            return self
        d = {}
        k = self.k
        for s, c in self.t:
            r = m.get(s)
            if r is None:
                d[s] = d.get(s, 0) + c
            else:
                for s2, c2 in r.t:
                    d[s2] = d.get(s2, 0) + c * c2
                k += c * r.k
        return LinExpr(tuple(sorted((s, c) for s, c in d.items() if c)), k)

    def content(self):
        g = 0
        for _, c in self.t:
            g = gcd(g, abs(c))
        return g

    def __repr__(self):
        parts = []
        for s, c in self.t:
            n = sym_name(s)
            if c == 1:
                parts.append(f"+{n}")
            elif c == -1:
                parts.append(f"-{n}")
            else:
                parts.append(f"{c:+d}*{n}")
        if self.k or not parts:
            parts.append(f"{self.k:+d}")
        s = ''.join(parts)
        return s[1:] if s.startswith('+') else s


ZERO = LinExpr()
ONE = LinExpr.const(1)


def norm_le(e):
    """normalise  e <= 0 : divide by gcd of coefficients, floor the constant
    (integer tightening).  Returns LinExpr, or True/False when constant."""
    if not e.t:
        return e.k <= 0
    g = e.content()
    if g > 1:
        # sum(c_i/g x_i) <= -k/g  ->  sum(...) <= floor(-k/g)  ->  sum + ceil(k/g) <= 0
        k = -((-e.k) // g)
        e = LinExpr(tuple((s, c // g) for s, c in e.t), k)
    return e


class Unsat(Exception):
    pass


class Store:
    """Conjunction of linear constraints.  Persistent-ish: copy() is cheap
    (shares immutable members, copies containers lazily)."""
    __slots__ = ('eqs', 'les', 'lt', 'nes', 'unsat', '_cache')

    def __init__(self):
        self.eqs = {}        # sym -> LinExpr (fully substituted)
        self.les = set()     # LinExpr e meaning e <= 0
        self.lt = {}         # terms -> the (single, tightest) row with these terms
        self.nes = set()     # LinExpr e meaning e != 0
        self.unsat = False
        self._cache = {}

    def copy(self):
        s = Store()
        s.eqs = dict(self.eqs)
        s.les = set(self.les)
        s.lt = dict(self.lt)
        s.nes = set(self.nes)
        s.unsat = self.unsat
        s._cache = {}
        return s

    def _add_row(self, e):
        """insert row e <= 0 keeping only the tightest row per term vector"""
        old = self.lt.get(e.t)
        if old is not None:
            if old.k >= e.k:
                return False
            self.les.discard(old)
        self.lt[e.t] = e
        self.les.add(e)
        return True

    def _del_row(self, e):
        if e in self.les:
            self.les.discard(e)
            if self.lt.get(e.t) is e or self.lt.get(e.t) == e:
                del self.lt[e.t]

    def _set_les(self, rows):
        self.les = set()
        self.lt = {}
        for r in rows:
            self._add_row(r)

    # ---- normal forms
    def nf(self, e):
        return e.subst(self.eqs)

    # ---- adding facts
    def add_le(self, e):
        """assume e <= 0"""
        if self.unsat:
            return
        e = norm_le(self.nf(e))
        if e is True:
            return
        if e is False:
            self.unsat = True
            return
        if e in self.les:
            return
        # e <= 0 and -e <= 0 -> equality
        if not self._add_row(e):
            return
        self._cache = {}
        neg = norm_le(-e)
        if neg in self.les:
            self._del_row(e)
            self._del_row(neg)
            self.add_eq(e)

    def add_lt(self, e):
        self.add_le(e + 1)

    def add_eq(self, e):
        """assume e == 0"""
        if self.unsat:
            return
        e = self.nf(e)
        if not e.t:
            if e.k != 0:
                self.unsat = True
            return
        g = e.content()
        if g > 1:
            if e.k % g != 0:
                self.unsat = True
                return
            e = LinExpr(tuple((s, c // g) for s, c in e.t), e.k // g)
        # pick a symbol with coefficient +-1 (prefer the newest symbol)
        pick = None
        for s, c in reversed(e.t):
            if c == 1 or c == -1:
                pick = (s, c)
                break
        if pick is None:
            # cannot solve over the integers without a new symbol: keep as two inequalities
            a, b = norm_le(e), norm_le(-e)
            for x in (a, b):
                if x is False:
                    self.unsat = True
                    return
                if x is not True:
                    self._add_row(x)
            self._cache = {}
            return
        s, c = pick
        rest = LinExpr(tuple((x, y) for x, y in e.t if x != s), e.k)
        rhs = -rest if c == 1 else rest      # s = rhs
        m = {s: rhs}
        self.eqs = {k: v.subst(m) for k, v in self.eqs.items()}
        self.eqs[s] = rhs
        new_les = set()
        for le in self.les:
            n = norm_le(le.subst(m))
            if n is True:
                continue
            if n is False:
                self.unsat = True
                return
            new_les.add(n)
        self._set_les(new_les)
        new_nes = set()
        for ne in self.nes:
            n = ne.subst(m)
            if not n.t:
                if n.k == 0:
                    self.unsat = True
                    return
                continue
            new_nes.add(n)
        self.nes = new_nes
        self._cache = {}
        # equalities hidden in pairs of inequalities
        self._close_eqs()

    def _close_eqs(self):
        for e in list(self.les):
            if e in self.les:
                neg = norm_le(-e)
                if neg in self.les:
                    self._del_row(e)
                    self._del_row(neg)
                    self.add_eq(e)
                    return

    def add_ne(self, e):
        if self.unsat:
            return
        e = self.nf(e)
        if not e.t:
            if e.k == 0:
                self.unsat = True
            return
        if e.t[0][1] < 0:
            e = -e
        self.nes.add(e)
        self._cache = {}

    def add_range(self, e, lo, hi):
        if lo is not None:
            self.add_le(LinExpr.const(lo) - e)
        if hi is not None:
            self.add_le(e - hi)

    def drop_dead(self, live):
        """forget symbols outside `live` (set of symbols that still occur in values):
        cheap ones are eliminated exactly (Fourier-Motzkin step), the others' rows are dropped
        (sound: the store only gets weaker).  Equalities defining dead symbols are removed."""
        if self.unsat:
            return
        for x in [x for x in self.eqs if x not in live]:
            del self.eqs[x]
        live = set(live)
        for e in self.eqs.values():
            for s_, _ in e.t:
                live.add(s_)
        self.nes = {e for e in self.nes if all(s_ in live for s_, _ in e.t)}
        while True:
            occ = {}
            for e in self.les:
                for s_, c in e.t:
                    if s_ in live:
                        continue
                    p = occ.get(s_)
                    if p is None:
                        p = occ[s_] = [0, 0]
                    if c > 0:
                        p[0] += 1
                    else:
                        p[1] += 1
            if not occ:
                break
            s_ = min(occ, key=lambda k: occ[k][0] * occ[k][1])
            pn = occ[s_]
            pos, neg, rest = [], [], set()
            for e in self.les:
                c = e.coeff(s_)
                if c > 0:
                    pos.append((c, e))
                elif c < 0:
                    neg.append((-c, e))
                else:
                    rest.add(e)
            if pn[0] * pn[1] <= max(pn[0] + pn[1], DROP_FM_MAX):
                for cp, rp in pos:
                    for cn, rn in neg:
                        g = gcd(cp, cn)
                        n = norm_le(rp * (cn // g) + rn * (cp // g))
                        if n is True:
                            continue
                        if n is False:
                            self.unsat = True
                            return
                        rest.add(n)
            self._set_les(rest)
        self._cache = {}

    # ---- queries
    def _cone(self, syms):
        """inequalities in the cone of influence of `syms`"""
        syms = set(syms)
        rows = []
        pending = list(self.les)
        changed = True
        while changed:
            changed = False
            rest = []
            for e in pending:
                if any(s in syms for s, _ in e.t):
                    rows.append(e)
                    for s, _ in e.t:
                        if s not in syms:
                            syms.add(s)
                    changed = True
                else:
                    rest.append(e)
            pending = rest
        return rows

    def is_sat(self):
        if self.unsat:
            return False
        return True

    def check_sat(self):
        """full satisfiability check of the inequalities (rational relaxation)"""
        if self.unsat:
            return False
        key = ('sat',)
        if key in self._cache:
            return self._cache[key]
        r = not fm_unsat(list(self.les))
        if r:
            # a disequality contradicted by an entailed equality
            for ne in self.nes:
                if self._entails_le_nocache(ne) and self._entails_le_nocache(-ne):
                    r = False
                    break
        self._cache[key] = r
        if not r:
            self.unsat = True
        return r

    def _entails_le_nocache(self, e):
        e = norm_le(e)
        if e is True:
            return True
        if e is False:
            return False
        if e in self.les:
            return True
        # not(e <= 0)  ==  e >= 1  ==  -e + 1 <= 0
        q = norm_le(-e + 1)
        if q is True:
            return False
        if q is False:
            return True
        rows = self._cone(q.syms())
        rows.append(q)
        return fm_unsat(rows)

    def entails_le(self, e):
        """does the store entail e <= 0 ?"""
        if self.unsat:
            return True
        e = self.nf(e)
        key = ('le', e)
        r = self._cache.get(key)
        if r is None:
            r = self._entails_le_nocache(e)
            self._cache[key] = r
        return r

    def entails_lt(self, e):
        return self.entails_le(e + 1)

    def entails_eq(self, e):
        if self.unsat:
            return True
        e = self.nf(e)
        if not e.t:
            return e.k == 0
        return self.entails_le(e) and self.entails_le(-e)

    def entails_ne(self, e):
        if self.unsat:
            return True
        e = self.nf(e)
        if not e.t:
            return e.k != 0
        n = e if e.t[0][1] > 0 else -e
        if n in self.nes:
            return True
        return self.entails_le(e + 1) or self.entails_le(-e + 1)

    def divisible(self, e, m):
        """does the store entail e == 0 (mod m)?  (syntactic after substitution)"""
        if self.unsat:
            return True
        e = self.nf(e)
        return all(c % m == 0 for _, c in e.t) and e.k % m == 0

    def lower_bound(self, e, lo=-(1 << 70), hi=(1 << 70)):
        """greatest integer b with store |= e >= b (None if unbounded below `lo`);
        one Fourier-Motzkin projection instead of a binary search"""
        if self.unsat:
            return hi
        e = self.nf(e)
        if not e.t:
            return e.k if e.k >= lo else None
        key = ('lb', e)
        if key in self._cache:
            r = self._cache[key]
        else:
            rows = self._cone(e.syms())
            r = fm_lower_bound(rows, e)
            self._cache[key] = r
        if r == 'unsat':
            return hi
        if r is None or r < lo:
            return None
        return min(r, hi)

    def upper_bound(self, e, lo=-(1 << 70), hi=(1 << 70)):
        r = self.lower_bound(-e, -hi, -lo)
        return None if r is None else -r

    def const_value(self, e):
        e = self.nf(e)
        if not e.t:
            return e.k
        return None

    def __repr__(self):
        eq = ', '.join(f"{sym_name(s)}={e}" for s, e in sorted(self.eqs.items()))
        le = ', '.join(f"{e}<=0" for e in sorted(self.les, key=repr))
        ne = ', '.join(f"{e}!=0" for e in self.nes)
        return f"Store[{'UNSAT ' if self.unsat else ''}{eq} | {le} | {ne}]"


FM_ROW_CAP = 3000
import os as _os
KOHLER = not _os.environ.get('MCAI_NO_KOHLER')


def _norm_row(d, k):
    """row sum(d)+k <= 0 -> gcd-normalised, integer-tightened (terms tuple, k) or True/False"""
    if not d:
        return k <= 0
    g = 0
    for c in d.values():
        g = gcd(g, abs(c))
    if g > 1:
        d = {s: c // g for s, c in d.items()}
        k = -((-k) // g)
    return (tuple(sorted(d.items())), k)


def fm_eliminate(rows, keep=()):
    """Fourier-Motzkin projection of rows (LinExpr e meaning e <= 0) onto `keep` symbols.
    Returns (unsat: bool, projected rows as list of (terms, k)) ; gives up (returns (False, None))
    when the row count explodes.  Uses Kohler's history rule and dominance pruning."""
    keep = set(keep)
    # rows: dict terms -> (k, hist)
    cur = {}
    idx = 0
    for r in rows:
        if not r.t:
            if r.k > 0:
                return True, []
            continue
        old = cur.get(r.t)
        if old is None or r.k > old[0]:
            cur[r.t] = (r.k, frozenset([idx]))
        idx += 1
    nelim = 0
    while True:
        occ = {}
        for t in cur:
            for s, c in t:
                if s in keep:
                    continue
                p = occ.get(s)
                if p is None:
                    p = occ[s] = [0, 0]
                if c > 0:
                    p[0] += 1
                else:
                    p[1] += 1
        if not occ:
            break
        best, bestc = None, None
        for s, (p, n) in occ.items():
            cost = p * n - (p + n)
            if bestc is None or cost < bestc:
                best, bestc = s, cost
        s = best
        pos, neg, new = [], [], {}
        for t, (k, h) in cur.items():
            c = 0
            for x, y in t:
                if x == s:
                    c = y
                    break
            if c > 0:
                pos.append((c, t, k, h))
            elif c < 0:
                neg.append((-c, t, k, h))
            else:
                new[t] = (k, h)
        nelim += 1
        for cp, tp, kp, hp in pos:
            for cn, tn, kn, hn in neg:
                h = hp | hn
                if KOHLER and len(h) > nelim + 1:
                    continue            # Kohler: redundant
                g = gcd(cp, cn)
                a, b = cn // g, cp // g
                d = {}
                for x, y in tp:
                    if x != s:
                        d[x] = y * a
                for x, y in tn:
                    if x != s:
                        v = d.get(x, 0) + y * b
                        if v:
                            d[x] = v
                        else:
                            d.pop(x, None)
                n = _norm_row(d, kp * a + kn * b)
                if n is True:
                    continue
                if n is False:
                    return True, []
                t2, k2 = n
                old = new.get(t2)
                if old is None or k2 > old[0]:
                    new[t2] = (k2, h)
        if len(new) > FM_ROW_CAP:
            return False, None
        cur = new
        if not cur:
            break
    return False, [(t, k) for t, (k, h) in cur.items()]


def fm_unsat(rows):
    u, _ = fm_eliminate(rows)
    return u


def fm_lower_bound(rows, e):
    """greatest rational-relaxation lower bound (rounded up to an integer) of e under rows,
    or None if unbounded / gave up.  Returns 'unsat' when rows are unsatisfiable."""
    t = fresh('opt')
    eq = e - LinExpr.var(t)
    rs = list(rows) + [eq, -eq]
    u, proj = fm_eliminate(rs, keep=(t,))
    if u:
        return 'unsat'
    if proj is None:
        return None
    best = None
    for terms, k in proj:
        # c*t + k <= 0
        if len(terms) != 1:
            continue
        c = terms[0][1]
        if c < 0:
            # -|c| t + k <= 0  ->  t >= k/|c|
            lb = -((-k) // (-c))       # ceil(k/|c|)
            if best is None or lb > best:
                best = lb
    return best


if __name__ == '__main__':
    # self-test
    A, L, s, e_ = fresh('A'), fresh('L'), fresh('s'), fresh('e')
    st = Store()
    V = LinExpr.var
    st.add_le(-V(L))
    st.add_le(V(s) - V(e_))       # s <= e
    st.add_le(V(e_) - V(L))       # e <= L
    st.add_le(-V(s))              # s >= 0
    st.add_le(V(s) + 16 - V(e_))  # e - s >= 16
    assert st.entails_le(V(s) + 16 - V(L))
    assert not st.entails_le(V(s) + 17 - V(L))
    q, r = fresh('q'), fresh('r')
    # A + s = 16 q + r, 0 <= r <= 15
    st.add_eq(V(A) + V(s) - 16 * V(q) - V(r))
    st.add_range(V(r), 0, 15)
    cur = V(s) + 16 - V(r)
    assert st.divisible(V(A) + cur, 16), st.nf(V(A) + cur)
    assert st.entails_le(V(s) + 1 - cur)   # cur > s
    print('lower bound of e - s:', st.lower_bound(V(e_) - V(s)))
    # integer tightening: 16k - 16q' in [0,15] -> k == q'
    k, q2 = fresh('k'), fresh('q')
    st2 = Store()
    st2.add_le(16 * V(k) - 16 * V(q2) - 15)
    st2.add_le(16 * V(q2) - 16 * V(k))
    assert st2.entails_eq(V(k) - V(q2))
    print('lin self-test ok')
