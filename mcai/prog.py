"""Program model over the JSON written by the mcsa driver.

Gives: instances, types, CFG utilities (successors, dominators, natural
loops, control dependence), call graph with fn-pointer edges."""
import json, re
from functools import lru_cache


class Inst:
    __slots__ = ('key', 'j', 'prog', '_succ', '_pred', '_idom', '_rpo', '_ipdom')

    def __init__(self, key, j, prog):
        self.key = key
        self.j = j
        self.prog = prog
        self._succ = None
        self._pred = None
        self._idom = None
        self._rpo = None
        self._ipdom = None

    # -- basic attributes
    @property
    def path(self): return self.j['path']
    @property
    def krate(self): return self.j['krate']
    @property
    def local(self): return self.j['local']
    @property
    def has_body(self): return 'blocks' in self.j
    @property
    def blocks(self): return self.j['blocks']
    @property
    def locals(self): return self.j['locals']
    @property
    def arg_count(self): return self.j.get('arg_count', 0)
    @property
    def is_unsafe_fn(self): return bool(self.j.get('unsafe'))
    @property
    def target_features(self): return self.j.get('target_features', [])
    @property
    def loc(self): return self.j.get('loc', '?')

    def local_ty(self, l):
        return self.prog.types[self.locals[l]]

    def name_of_local(self, l):
        for d in self.j.get('debug', []):
            if d['p']['l'] == l and not d['p']['pr']:
                return d['name']
        return None

    def local_named(self, name):
        """All locals carrying the user variable name `name`."""
        out = []
        for d in self.j.get('debug', []):
            if d['name'] == name and not d['p']['pr']:
                out.append(d['p']['l'])
        return out

    # -- CFG
    def term(self, b):
        return self.blocks[b]['term']

    def succ(self, b):
        if self._succ is None:
            self._build_cfg()
        return self._succ[b]

    def pred(self, b):
        if self._pred is None:
            self._build_cfg()
        return self._pred[b]

    def _build_cfg(self):
        n = len(self.blocks)
        succ = [[] for _ in range(n)]
        for i, blk in enumerate(self.blocks):
            if blk.get('cleanup'):
                continue
            t = blk['term']
            k = t['k']
            if k == 'goto' or k == 'drop' or k == 'assert':
                succ[i] = [t['t']]
            elif k == 'switch':
                cv = self._const_switch_value(t['op'])
                if cv is not None:
                    tgt = t['otherwise']
                    for v, tt in t['cases']:
                        if v == cv:
                            tgt = tt
                    succ[i] = [tgt]
                    continue
                s = [c[1] for c in t['cases']] + [t['otherwise']]
                seen = []
                for x in s:
                    if x not in seen:
                        seen.append(x)
                succ[i] = seen
            elif k == 'call':
                succ[i] = [t['t']] if t['t'] is not None else []
            else:
                succ[i] = []
        pred = [[] for _ in range(n)]
        for i, ss in enumerate(succ):
            for s in ss:
                pred[s].append(i)
        self._succ, self._pred = succ, pred

    def _const_switch_value(self, o):
        """value of a switch operand that is a literal, or a local whose only
        definition in the whole body is a literal (cfg!(..), debug_assertions)"""
        if o['k'] == 'const':
            return o.get('v') if o.get('ck') == 'int' else None
        if o['k'] == 'rtcheck':
            return 1 if o['v'] else 0
        if o['k'] in ('copy', 'move') and not o['p']['pr']:
            l = o['p']['l']
            if 1 <= l <= self.arg_count:
                return None
            vals = []
            for blk in self.blocks:
                if blk.get('cleanup'):
                    continue
                for s in blk['stmts']:
                    if s['k'] == 'assign' and s['p']['l'] == l:
                        if s['p']['pr']:
                            return None
                        rv = s['rv']
                        if rv['k'] == 'use' and rv['op']['k'] == 'const' and rv['op'].get('ck') == 'int':
                            vals.append(rv['op']['v'])
                        elif rv['k'] == 'use' and rv['op']['k'] == 'rtcheck':
                            vals.append(1 if rv['op']['v'] else 0)
                        else:
                            return None
                    elif s['k'] == 'assign' and s['rv']['k'] in ('ref', 'rawptr') and s['rv']['p']['l'] == l:
                        return None
                t = blk['term']
                if t['k'] == 'call' and t['dest']['l'] == l:
                    return None
            if len(vals) == 1:
                return vals[0]
        return None

    def rpo(self):
        if self._rpo is None:
            seen = set()
            order = []
            stack = [(0, iter(self.succ(0)))]
            seen.add(0)
            while stack:
                b, it = stack[-1]
                adv = False
                for s in it:
                    if s not in seen:
                        seen.add(s)
                        stack.append((s, iter(self.succ(s))))
                        adv = True
                        break
                if not adv:
                    order.append(b)
                    stack.pop()
            self._rpo = order[::-1]
        return self._rpo

    def idom(self):
        """Immediate dominators (Cooper-Harvey-Kennedy)."""
        if self._idom is not None:
            return self._idom
        rpo = self.rpo()
        idx = {b: i for i, b in enumerate(rpo)}
        idom = {rpo[0]: rpo[0]}
        changed = True
        while changed:
            changed = False
            for b in rpo[1:]:
                ps = [p for p in self.pred(b) if p in idom]
                if not ps:
                    continue
                new = ps[0]
                for p in ps[1:]:
                    a, c = p, new
                    while a != c:
                        while idx[a] > idx[c]:
                            a = idom[a]
                        while idx[c] > idx[a]:
                            c = idom[c]
                    new = a
                if idom.get(b) != new:
                    idom[b] = new
                    changed = True
        self._idom = idom
        return idom

    def dominates(self, a, b):
        idom = self.idom()
        if b not in idom:
            return False
        while True:
            if a == b:
                return True
            nb = idom[b]
            if nb == b:
                return False
            b = nb

    def reachable_blocks(self):
        return set(self.rpo())

    def back_edges(self):
        out = []
        for b in self.rpo():
            for s in self.succ(b):
                if self.dominates(s, b):
                    out.append((b, s))
        return out

    def natural_loops(self):
        """header -> set of blocks"""
        loops = {}
        for (t, h) in self.back_edges():
            body = loops.setdefault(h, {h})
            stack = [t]
            while stack:
                x = stack.pop()
                if x not in body:
                    body.add(x)
                    stack.extend(self.pred(x))
        return loops

    def reach_from(self, b, avoid=()):
        """blocks reachable from b (inclusive) without passing through `avoid`."""
        seen = set()
        stack = [b]
        while stack:
            x = stack.pop()
            if x in seen or x in avoid:
                continue
            seen.add(x)
            stack.extend(self.succ(x))
        return seen

    def exits(self):
        return [b for b in self.rpo() if self.term(b)['k'] == 'return']

    def ipdom_sets(self):
        """post-dominator sets over the CFG restricted to blocks that can reach a return
        (panic paths are ignored: a block 'must pass through X' means on every
        non-panicking path to return)."""
        if self._ipdom is not None:
            return self._ipdom
        rets = self.exits()
        can = set()
        stack = list(rets)
        while stack:
            x = stack.pop()
            if x in can:
                continue
            can.add(x)
            stack.extend(self.pred(x))
        allb = set(can)
        pd = {b: (set([b]) if b in rets else set(allb)) for b in can}
        changed = True
        while changed:
            changed = False
            for b in can:
                if b in rets:
                    continue
                ss = [s for s in self.succ(b) if s in can]
                if not ss:
                    continue
                new = set.intersection(*[pd[s] for s in ss]) | {b}
                if new != pd[b]:
                    pd[b] = new
                    changed = True
        self._ipdom = pd
        return pd

    # -- iteration helpers
    def calls(self):
        for b in self.rpo():
            t = self.term(b)
            if t['k'] == 'call':
                yield b, t

    def stmts(self):
        for b in self.rpo():
            for i, s in enumerate(self.blocks[b]['stmts']):
                yield b, i, s

    def assignments_to(self, local):
        """(block, idx|'term', rvalue-or-term) for every whole-local definition."""
        out = []
        for b in self.rpo():
            for i, s in enumerate(self.blocks[b]['stmts']):
                if s['k'] == 'assign' and s['p']['l'] == local and not s['p']['pr']:
                    out.append((b, i, s['rv']))
            t = self.term(b)
            if t['k'] == 'call' and t['dest']['l'] == local and not t['dest']['pr']:
                out.append((b, 'term', t))
        return out


class Program:
    def __init__(self, path):
        d = json.load(open(path))
        self.d = d
        self.cfg_name = None
        self.target = d['target']
        self.pointer_bits = d['pointer_bits']
        self.endian = d['endian']
        self.types = d['types']
        self.facts = d['facts']
        self.roots = d['roots']
        self.instances = {k: Inst(k, v, self) for k, v in d['instances'].items()}
        self.by_path = {}
        for k, i in self.instances.items():
            self.by_path.setdefault(i.path, []).append(i)
        self._cg = None
        self.fn_facts = {f['path']: f for f in self.facts['fns']}

    def local_instances(self):
        return [i for i in self.instances.values() if i.local]

    def inst(self, key):
        return self.instances[key]

    def find(self, pattern, local_only=True):
        """instances whose key matches regex `pattern` (search)."""
        r = re.compile(pattern)
        return [i for k, i in self.instances.items() if r.search(k) and (i.local or not local_only)]

    def one(self, pattern):
        xs = self.find(pattern)
        if len(xs) != 1:
            raise KeyError(f"ANCHOR-MISSING: expected exactly one instance matching {pattern!r}, found {[x.key for x in xs][:8]}")
        return xs[0]

    def ty(self, tid):
        return self.types[tid]

    # -- call graph ----------------------------------------------------
    def fn_mentions(self, inst):
        """Instances mentioned as values (fn items, closures) in a body: via
        constants of FnDef type and aggregate closures; returns instance keys."""
        out = set()
        if not inst.has_body:
            return out
        def scan_op(o):
            if o['k'] == 'const':
                t = self.types[o['ty']]
                if t['kind'] == 'fndef' and 'callee' in t:
                    out.add(t['callee']['inst'])
                if o.get('ck') == 'ptr' and 'fn' in o:
                    out.add(o['fn']['inst'])
                if o.get('ck') == 'ptr' and 'static' in o:
                    for st in self.facts['statics']:
                        if st['path'] == o['static']:
                            for ip in st['init_ptrs']:
                                if 'fn' in ip:
                                    out.add(ip['fn']['inst'])
        for b, i, s in inst.stmts():
            if s['k'] != 'assign':
                continue
            rv = s['rv']
            for key in ('op', 'a', 'b'):
                if key in rv and isinstance(rv[key], dict):
                    scan_op(rv[key])
            for o in rv.get('ops', []):
                scan_op(o)
        for b, t in inst.calls():
            for a in t['args']:
                scan_op(a)
        # locals of fndef / closure type also pull in their bodies
        for tid in inst.locals:
            t = self.types[tid]
            if t['kind'] == 'fndef' and 'callee' in t:
                out.add(t['callee']['inst'])
        return out

    def callgraph(self):
        """key -> set of (callee key); direct resolved calls + fn mentions."""
        if self._cg is not None:
            return self._cg
        cg = {}
        for k, inst in self.instances.items():
            es = set()
            if inst.has_body:
                for b, t in inst.calls():
                    c = t['callee']
                    if 'inst' in c:
                        es.add(c['inst'])
                es |= self.fn_mentions(inst)
            cg[k] = es
        self._cg = cg
        return cg

    def reachable_from(self, keys, extra_edges=None, stop=None):
        cg = self.callgraph()
        seen = {}
        stack = [(k, None) for k in keys]
        while stack:
            k, parent = stack.pop()
            if k in seen:
                continue
            seen[k] = parent
            if stop and stop(k):
                continue
            for c in cg.get(k, ()):  # direct
                if c not in seen:
                    stack.append((c, k))
            if extra_edges:
                for c in extra_edges.get(k, ()):
                    if c not in seen:
                        stack.append((c, k))
        return seen

    @staticmethod
    def chain(seen, k):
        out = [k]
        while seen.get(k) is not None:
            k = seen[k]
            out.append(k)
        return out[::-1]


def place_is_local(p, l=None):
    return not p['pr'] and (l is None or p['l'] == l)


def op_place(o):
    return o['p'] if o['k'] in ('copy', 'move') else None


def op_local(o):
    p = op_place(o)
    if p is not None and not p['pr']:
        return p['l']
    return None


def const_int(o):
    if o['k'] == 'const' and o.get('ck') == 'int':
        return o['v']
    return None


# ----------------------------------------------------------------------
# light-weight intra-procedural value tracing (flow-insensitive)
# ----------------------------------------------------------------------
def rv_operands(rv):
    """operands appearing in an rvalue"""
    out = []
    for key in ('op', 'a', 'b'):
        if key in rv and isinstance(rv[key], dict):
            out.append(rv[key])
    out.extend(rv.get('ops', []))
    return out


def rv_places(rv):
    """places read or borrowed by an rvalue (besides operands)"""
    if rv['k'] in ('ref', 'rawptr', 'discr'):
        return [rv['p']]
    return []


def place_locals(p):
    """base local plus index locals"""
    out = [p['l']]
    for e in p['pr']:
        if e['k'] == 'index':
            out.append(e['l'])
    return out


def sources(inst, x, _seen=None):
    """Trace a local (int) or operand backwards through copies, moves, casts
    and reborrows `&(*l)`.  Returns a list of terminal sources:
       ('const', operand) | ('call', bb, term) | ('arg', n) | ('rv', bb, rv) | ('proj', place)
    Flow-insensitive: every definition of each local on the way is followed."""
    if _seen is None:
        _seen = set()
    if isinstance(x, dict):
        if x['k'] == 'const' or x['k'] == 'rtcheck':
            return [('const', x)]
        p = x['p']
        if p['pr']:
            return [('proj', p)]
        l = p['l']
    else:
        l = x
    if l in _seen:
        return []
    _seen.add(l)
    out = []
    if 1 <= l <= inst.arg_count:
        out.append(('arg', l))
    for (b, i, d) in inst.assignments_to(l):
        if i == 'term':
            out.append(('call', b, d))
            continue
        rv = d
        k = rv['k']
        if k == 'use' or k == 'cast':
            out.extend(sources(inst, rv['op'], _seen))
        elif k == 'ref' and len(rv['p']['pr']) == 1 and rv['p']['pr'][0]['k'] == 'deref':
            out.extend(sources(inst, rv['p']['l'], _seen))
        else:
            out.append(('rv', b, rv))
    return out


def uses(inst, l):
    """Every syntactic use of local l: list of (bb, role, node).
    roles: 'operand' (in rvalue), 'borrow' (ref/rawptr/discr of a place based on l),
           'arg<i>', 'func', 'switch', 'assert', 'lhs-base' (assignment through a projection of l),
           'drop'."""
    out = []

    def op_uses(o):
        return o['k'] in ('copy', 'move') and l in place_locals(o['p'])
    for b in inst.rpo():
        for s in inst.blocks[b]['stmts']:
            if s['k'] == 'assign':
                if s['p']['pr'] and l in place_locals(s['p']):
                    out.append((b, 'lhs-base', s))
                rv = s['rv']
                for o in rv_operands(rv):
                    if op_uses(o):
                        out.append((b, 'operand', s))
                for p in rv_places(rv):
                    if l in place_locals(p):
                        out.append((b, 'borrow', s))
            elif s['k'] == 'setdiscr':
                if l in place_locals(s['p']):
                    out.append((b, 'lhs-base', s))
            elif s['k'] == 'assume':
                if op_uses(s['op']):
                    out.append((b, 'operand', s))
        t = inst.term(b)
        k = t['k']
        if k == 'call':
            for i, a in enumerate(t['args']):
                if op_uses(a):
                    out.append((b, f'arg{i}', t))
            c = t['callee']
            if 'indirect' in c and op_uses(c['indirect']):
                out.append((b, 'func', t))
            if t['dest']['pr'] and l in place_locals(t['dest']):
                out.append((b, 'lhs-base', t))
        elif k == 'switch':
            if op_uses(t['op']):
                out.append((b, 'switch', t))
        elif k == 'assert':
            if op_uses(t['cond']):
                out.append((b, 'assert', t))
        elif k == 'drop':
            if l in place_locals(t['p']):
                out.append((b, 'drop', t))
    return out


def fn_const_instance(prog, o):
    """If operand is a constant fn item (FnDef ZST), return its callee record."""
    if o['k'] == 'const':
        t = prog.types[o['ty']]
        if t['kind'] == 'fndef':
            return t.get('callee') or {'path': t['path'], 'inst': None}
    return None


def dominating_edges(inst, b):
    """Switch edges that dominate block b: [(switch_bb, kind, value, target)].
    kind 'case' (discriminant == value) or 'otherwise' (value = excluded list).
    An edge s->t dominates b when t's only predecessor is s and t dominates b."""
    out = []
    for sb in inst.rpo():
        t = inst.term(sb)
        if t['k'] != 'switch':
            continue
        tgts = {}
        for v, tt in t['cases']:
            tgts.setdefault(tt, []).append(('case', v))
        tgts.setdefault(t['otherwise'], []).append(('otherwise', [v for v, _ in t['cases']]))
        for tt, kinds in tgts.items():
            if len(kinds) != 1:
                continue
            if inst.pred(tt) == [sb] and inst.dominates(tt, b) and tt in inst.succ(sb):
                out.append((sb, kinds[0][0], kinds[0][1], tt))
    return out


def edge_truth(kind, value):
    """For a boolean switch: is this the 'true' edge?  (case 0 => false edge;
    otherwise-excluding-0 => true edge; case 1 => true edge)"""
    if kind == 'case':
        return value != 0
    return 0 in value


def bool_condition(inst, sb):
    """Describe the boolean switched on in block sb: traces the operand to
    ('cmp', op, a_operand, b_operand, defining_inst_block) | ('call', term) | ('not', inner) | None"""
    t = inst.term(sb)
    return _cond_of(inst, t['op'], 0)


def _cond_of(inst, o, depth):
    if depth > 6:
        return None
    if o['k'] not in ('copy', 'move') or o['p']['pr']:
        return ('opaque', o)
    l = o['p']['l']
    defs = inst.assignments_to(l)
    if len(defs) != 1:
        return ('multi', l)
    b, i, d = defs[0]
    if i == 'term':
        return ('call', d)
    rv = d
    if rv['k'] == 'bin' and rv['op'] in ('Lt', 'Le', 'Gt', 'Ge', 'Eq', 'Ne'):
        return ('cmp', rv['op'], rv['a'], rv['b'])
    if rv['k'] == 'un' and rv['op'] == 'Not':
        inner = _cond_of(inst, rv['a'], depth + 1)
        return ('not', inner)
    if rv['k'] == 'use':
        return _cond_of(inst, rv['op'], depth + 1)
    return ('rv', rv)


# ----------------------------------------------------------------------
# liveness of locals (for the abstract interpreter's loop heads / joins)
# ----------------------------------------------------------------------
def _liveness(inst):
    """live-in sets of locals per block; address-taken locals are always live."""
    n = len(inst.blocks)
    use = [set() for _ in range(n)]
    deff = [set() for _ in range(n)]
    addr_taken = set()

    def op_use(o, b, acc):
        if o['k'] in ('copy', 'move'):
            for l in place_locals(o['p']):
                if l not in deff[b]:
                    acc.add(l)

    for b in inst.rpo():
        blk = inst.blocks[b]
        for s in blk['stmts']:
            if s['k'] == 'assign':
                rv = s['rv']
                for o in rv_operands(rv):
                    op_use(o, b, use[b])
                for p in rv_places(rv):
                    for l in place_locals(p):
                        if l not in deff[b]:
                            use[b].add(l)
                    if rv['k'] in ('ref', 'rawptr'):
                        # borrowing a local (not through a deref) makes it escape
                        if not any(e['k'] == 'deref' for e in p['pr']):
                            addr_taken.add(p['l'])
                p = s['p']
                if p['pr']:
                    for l in place_locals(p):
                        if l not in deff[b]:
                            use[b].add(l)
                else:
                    deff[b].add(p['l'])
            elif s['k'] == 'setdiscr':
                for l in place_locals(s['p']):
                    if l not in deff[b]:
                        use[b].add(l)
            elif s['k'] == 'assume':
                op_use(s['op'], b, use[b])
        t = blk['term']
        k = t['k']
        if k == 'call':
            for a in t['args']:
                op_use(a, b, use[b])
            c = t['callee']
            if 'indirect' in c:
                op_use(c['indirect'], b, use[b])
            d = t['dest']
            if d['pr']:
                for l in place_locals(d):
                    if l not in deff[b]:
                        use[b].add(l)
            else:
                deff[b].add(d['l'])
        elif k == 'switch':
            op_use(t['op'], b, use[b])
        elif k == 'assert':
            op_use(t['cond'], b, use[b])
            info = t.get('info') or {}
            for o in info.values():
                if isinstance(o, dict):
                    op_use(o, b, use[b])
        elif k == 'drop':
            for l in place_locals(t['p']):
                if l not in deff[b]:
                    use[b].add(l)
        elif k == 'return':
            if 0 not in deff[b]:
                use[b].add(0)
    live_in = [set() for _ in range(n)]
    changed = True
    order = inst.rpo()[::-1]
    while changed:
        changed = False
        for b in order:
            out = set()
            for s in inst.succ(b):
                out |= live_in[s]
            new = use[b] | (out - deff[b])
            if new != live_in[b]:
                live_in[b] = new
                changed = True
    return live_in, addr_taken


_live_cache = {}


def liveness(inst):
    k = id(inst)
    if k not in _live_cache:
        _live_cache[k] = _liveness(inst)
    return _live_cache[k]


def no_return_blocks(inst):
    """blocks from which no `return` is reachable (panic-only code)"""
    rets = inst.exits()
    can = set()
    stack = list(rets)
    while stack:
        x = stack.pop()
        if x in can:
            continue
        can.add(x)
        stack.extend(inst.pred(x))
    return set(inst.rpo()) - can
