"""The documented-contract table (D-table) for roots: how arguments of public
`unsafe fn`s are constrained (transcribed from each item's `# Safety` rustdoc),
and which public safe functions are additionally analysed on their documented
domain.  Everything else is analysed with arbitrary arguments of its types."""
import re
from .lin import LinExpr, fresh
from .absval import *

V = LinExpr.var
C = LinExpr.const


def raw_range(start_idx, end_idx):
    """`find_raw/rfind_raw/count_raw(.., start, end)`: both pointers are valid for reads, point into
    (or one past) the same allocated object; callers MAY pass start >= end."""
    def c(I, inst, st, args):
        rid = I.new_region(st, 'haystack')
        reg = I.regions[rid]
        s, e = fresh('start'), fresh('end')
        for x in (s, e):
            st.store.add_le(-V(x))
            st.store.add_le(V(x) - V(reg.L))
        args[start_idx] = PtrV(rid, V(s))
        args[end_idx] = PtrV(rid, V(e))
        return args
    return c


def is_equal_raw_contract(I, inst, st, args):
    """`is_equal_raw(x, y, n)`: x and y valid for reads of n bytes"""
    n = fresh('n')
    st.store.add_le(-V(n))
    out = list(args)
    for i, name in ((0, 'x'), (1, 'y')):
        rid = I.new_region(st, name)
        reg = I.regions[rid]
        o = fresh(name + '_off')
        st.store.add_le(-V(o))
        st.store.add_le(V(o) + V(n) - V(reg.L))
        out[i] = PtrV(rid, V(o))
    out[2] = IntV(V(n))
    return out


def is_equal_raw_aliased(I, inst, st, args):
    """the same contract with both operands inside ONE allocation (overlapping or not)"""
    n = fresh('n')
    st.store.add_le(-V(n))
    out = list(args)
    rid = I.new_region(st, 'xy')
    reg = I.regions[rid]
    for i, name in ((0, 'x'), (1, 'y')):
        o = fresh(name + '_off')
        st.store.add_le(-V(o))
        st.store.add_le(V(o) + V(n) - V(reg.L))
        out[i] = PtrV(rid, V(o))
    out[2] = IntV(V(n))
    return out


def aliased_slices(I, inst, st, args):
    """both slice arguments are views into one allocation (arbitrary offsets and lengths, possibly overlapping)"""
    rid = I.new_region(st, 'xy')
    reg = I.regions[rid]
    out = list(args)
    for i, a in enumerate(args):
        if isinstance(a, SliceV):
            o, n = fresh(f'off{i}'), fresh(f'len{i}')
            st.store.add_le(-V(o))
            st.store.add_le(-V(n))
            st.store.add_le(V(o) + V(n) - V(reg.L))
            out[i] = SliceV(PtrV(rid, V(o)), V(n), a.esz)
    return out


def rk_raw_contract(I, inst, st, args):
    """rabinkarp `find_raw/rfind_raw(&self, hstart, hend, nstart, nend)`: two ordered pointer pairs,
    each pair within one object"""
    out = list(args)
    for (a, b, name) in ((1, 2, 'haystack'), (3, 4, 'needle')):
        rid = I.new_region(st, name)
        reg = I.regions[rid]
        s, e = fresh(name + '_s'), fresh(name + '_e')
        st.store.add_le(-V(s))
        st.store.add_le(V(s) - V(e))
        st.store.add_le(V(e) - V(reg.L))
        out[a] = PtrV(rid, V(s))
        out[b] = PtrV(rid, V(e))
    return out


def type_mentions(P, tid, paths, seen=None, depth=0):
    """does type tid (through refs, fields, union fields) contain an ADT whose path is in `paths`?"""
    seen = set() if seen is None else seen
    if tid in seen or depth > 8:
        return set()
    seen.add(tid)
    ty = P.types[tid]
    k = ty['kind']
    out = set()
    if k in ('ref', 'ptr'):
        return type_mentions(P, ty['to'], paths, seen, depth + 1)
    if k == 'adt':
        if ty['path'] in paths:
            out.add(ty['path'])
        for v in ty['variants']:
            for f in v['fields']:
                out |= type_mentions(P, f['ty'], paths, seen, depth + 1)
    elif k == 'tuple':
        for f in ty['fields']:
            out |= type_mentions(P, f, paths, seen, depth + 1)
    elif k in ('slice', 'array'):
        out |= type_mentions(P, ty['elem'], paths, seen, depth + 1)
    return out


_PAIRS = {}


def pair_alternatives(P):
    from . import unionpair
    k = id(P)
    if k not in _PAIRS:
        _PAIRS[k] = unionpair.pairs(P)
    return _PAIRS[k]


def with_alts(alts, contract):
    """wrap a contract so that the chosen (fn, union field) alternatives are installed in the models"""
    def c(I, inst, st, args_unused):
        I.models.alts = dict(alts)
        # the arguments must be re-created under the alternatives (they were made before the hook was set)
        from .e2run import fresh_args
        args = fresh_args(I, inst, st)
        if contract:
            args = contract(I, inst, st, args)
        return args
    return c


class _RootFrame:
    """stand-in frame so that root-level post-checks can record obligations"""
    def __init__(self, inst):
        self.inst = inst


def post_invariants(I, inst, results, arg_vals):
    """TYINV at exit: every object reachable from the root's (reference) arguments must still
    satisfy its type invariant in every outcome (e.g. an iterator's window after `next`)"""
    fr = _RootFrame(inst)

    def walk(st, v, tid, depth, seen):
        if depth > 6 or v is None:
            return
        if isinstance(v, RefV) and isinstance(v.lv, LVObj) and not isinstance(v.lv.obj, tuple):
            if v.lv.obj in seen:
                return
            seen.add(v.lv.obj)
            ty = I.P.types[tid] if tid is not None else None
            to = ty['to'] if ty and ty['kind'] in ('ref', 'ptr') else None
            walk(st, st.heap.get(v.lv.obj), to, depth + 1, seen)
        elif isinstance(v, AdtV) and v.fields is not None and not isinstance(v.tid, tuple):
            I.models.check_invariant(I, fr, st, v.tid, v, inst.loc, 'at exit of ' + inst.path.rsplit('::', 1)[-1])
            ty = I.P.types[v.tid]
            if ty['kind'] == 'adt' and v.variant is not None and v.variant < len(ty['variants']):
                fts = [f['ty'] for f in ty['variants'][v.variant]['fields']]
            elif ty['kind'] == 'tuple':
                fts = ty['fields']
            else:
                fts = [None] * len(v.fields)
            for f, ft in zip(v.fields, fts):
                walk(st, f, ft, depth + 1, seen)

    for st, ret in results:
        seen = set()
        for i, a in enumerate(arg_vals):
            walk(st, a, inst.locals[i + 1], 0, seen)
        walk(st, ret, inst.locals[0], 0, seen)


def alt_combos(P, mentioned):
    """the (function, union field) alternatives to analyse for the paired types in `mentioned`"""
    pairs = pair_alternatives(P)
    combos = [{}]
    SR, PF = 'memmem::searcher::Searcher', 'memmem::searcher::Prefilter'
    if SR in mentioned and PF in mentioned:
        # the prefilter alternative only matters for searcher kinds whose union field holds a Prefilter
        sty = next(t for t in P.types if t.get('kind') == 'adt' and t.get('path') == 'memmem::searcher::SearcherKind')
        combos = []
        for alt in pairs[SR]:
            fld = sty['variants'][0]['fields'][alt[1]]
            if type_mentions(P, fld['ty'], {PF}):
                combos += [{SR: alt, PF: palt} for palt in pairs[PF]]
            else:
                combos.append({SR: alt, PF: pairs[PF][0]})
        for path in sorted(mentioned - {SR, PF}):
            combos = [dict(c, **{path: alt}) for c in combos for alt in pairs[path]]
    else:
        for path in sorted(mentioned):
            combos = [dict(c, **{path: alt}) for c in combos for alt in pairs[path]]
    return combos


def variants_for(P, inst):
    """[(variant name, contract or None, post-check or None)]"""
    p = inst.path
    base = None
    name = 'any'
    own_pairing = None
    if inst.is_unsafe_fn and re.match(r'^memmem::searcher::prefilter_kind_\w+$', p):
        # private dispatch target analysed as a root of its own (C11): its contract is the pairing invariant
        # I-PRE -- it is only ever called through `Prefilter::call` with its own union field active
        own_pairing = inst.key
        name = 'contract(I-PRE)'
    elif inst.is_unsafe_fn:
        name = 'contract'
        if re.search(r'^arch::all::rabinkarp::(Finder|FinderRev)::(find_raw|rfind_raw)$', p):
            base = rk_raw_contract
        elif re.search(r'::(find_raw|rfind_raw|count_raw)$', p):
            base = raw_range(inst.arg_count - 2, inst.arg_count - 1)
        elif p == 'arch::all::is_equal_raw':
            base = is_equal_raw_contract
        elif p.endswith('::new_unchecked'):
            base = None
        else:
            name = 'UNKNOWN-CONTRACT'
    # I-SRCH / I-PRE alternatives: one analysis variant per (function, union field) pairing
    pairs = pair_alternatives(P)
    mentioned = set()
    for i in range(1, inst.arg_count + 1):
        mentioned |= type_mentions(P, inst.locals[i], set(pairs))
    from . import specs
    sp = specs.spec_for(P, inst)
    postf = None
    if sp is not None:
        base = specs.install(sp, base)
        postf = specs.post(sp)
    if re.match(r'^arch::all::(is_equal_raw|is_equal|is_prefix|is_suffix)$', p):
        # "wherever the slices are placed in memory": distinct allocations, and views into one allocation
        al = is_equal_raw_aliased if p.endswith('is_equal_raw') else aliased_slices
        return [(name + '|distinct', base, postf), (name + '|aliased', al, postf)]
    from . import mm
    if mm.has_domain(inst):
        # documented panic: analysed on both sides of the documented condition
        def dom(mode, inner):
            def c(I, inst_, st, args):
                I.opts['mm_domain'] = mode
                return inner(I, inst_, st, args) if inner else args
            return c
        return [(name + '|in-domain', dom('in', base), postf), (name + '|out-of-domain', dom('out', base), None)]
    if not mentioned:
        return [(name, base, postf)]
    out = []
    combos = alt_combos(P, mentioned)
    if own_pairing is not None:
        combos = [c for c in combos if any(v[0] == own_pairing for v in c.values())]
    for c in combos:
        label = name + ':' + ','.join(f"{k.rsplit('::', 1)[1]}={v[0].rsplit('::', 1)[1]}" for k, v in sorted(c.items()))
        out.append((label, with_alts(c, base), postf))
    return out
