"""The documented-contract table (D-table) for roots: how arguments of public
`unsafe fn`s are constrained (transcribed from each item's `# Safety` rustdoc),
and which public safe functions are additionally analysed on their documented
domain.  Everything else is analysed with arbitrary arguments of its types."""
import re
from .lin import LinExpr, fresh
from .absval import *

V = LinExpr.var
C = LinExpr.const


def raw_range(start_idx, end_idx):
    """`find_raw/rfind_raw/count_raw(.., start, end)`: both pointers are valid for reads, point into
    (or one past) the same allocated object; callers MAY pass start >= end."""
    def c(I, inst, st, args):
        rid = I.new_region(st, 'haystack')
        reg = I.regions[rid]
        s, e = fresh('start'), fresh('end')
        for x in (s, e):
            st.store.add_le(-V(x))
            st.store.add_le(V(x) - V(reg.L))
        args[start_idx] = PtrV(rid, V(s))
        args[end_idx] = PtrV(rid, V(e))
        return args
    return c


def is_equal_raw_contract(I, inst, st, args):
    """`is_equal_raw(x, y, n)`: x and y valid for reads of n bytes"""
    n = fresh('n')
    st.store.add_le(-V(n))
    out = list(args)
    for i, name in ((0, 'x'), (1, 'y')):
        rid = I.new_region(st, name)
        reg = I.regions[rid]
        o = fresh(name + '_off')
        st.store.add_le(-V(o))
        st.store.add_le(V(o) + V(n) - V(reg.L))
        out[i] = PtrV(rid, V(o))
    out[2] = IntV(V(n))
    return out


def rk_raw_contract(I, inst, st, args):
    """rabinkarp `find_raw/rfind_raw(&self, hstart, hend, nstart, nend)`: two ordered pointer pairs,
    each pair within one object"""
    out = list(args)
    for (a, b, name) in ((1, 2, 'haystack'), (3, 4, 'needle')):
        rid = I.new_region(st, name)
        reg = I.regions[rid]
        s, e = fresh(name + '_s'), fresh(name + '_e')
        st.store.add_le(-V(s))
        st.store.add_le(V(s) - V(e))
        st.store.add_le(V(e) - V(reg.L))
        out[a] = PtrV(rid, V(s))
        out[b] = PtrV(rid, V(e))
    return out


def variants_for(P, inst):
    """[(variant name, contract or None, post-check or None)]"""
    p = inst.path
    if inst.is_unsafe_fn:
        if re.search(r'^arch::all::rabinkarp::(Finder|FinderRev)::(find_raw|rfind_raw)$', p):
            return [('contract', rk_raw_contract, None)]
        if re.search(r'::(find_raw|rfind_raw|count_raw)$', p):
            return [('contract', raw_range(inst.arg_count - 2, inst.arg_count - 1), None)]
        if p == 'arch::all::is_equal_raw':
            return [('contract', is_equal_raw_contract, None)]
        if p.endswith('::new_unchecked'):
            return [('contract', None, None)]
        return [('UNKNOWN-CONTRACT', None, None)]
    return [('any', None, None)]
