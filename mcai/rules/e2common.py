"""Shared access to the E2/E3 interpreter results for the rule modules."""
from .. import e2all

_cache = {}


def results(ctx, cfg):
    if cfg not in _cache:
        _cache[cfg] = e2all.run_config(cfg)
    return _cache[cfg]


def site_table(ctx, cfgs, kinds):
    """aggregate obligations of the given kinds per site over configurations, roots and variants.
    Returns (sites, root_errors, stats):
      sites: {(kind, path, role, loc): {'ok': bool, 'n': int, 'cfgs': set, 'fail': [(cfg, root, variant, detail)], 'detail': str}}"""
    sites = {}
    errors = []
    stats = {'roots': 0, 'obligations': 0, 'variants': 0, 'loops': 0, 'invariants': 0, 'cuts': 0, 'havoc_notes': set(), 'time': 0.0}
    for cfg in cfgs:
        res = results(ctx, cfg)
        stats['time'] += res.get('wall', 0)
        for r in res['roots']:
            stats['roots'] += 1
            stats['variants'] += len(r.get('variants', []))
            for v in r.get('variants', []):
                stats['loops'] += len(v.get('loops', []))
                stats['invariants'] += sum(x[3] for x in v.get('loops', []))
            stats['cuts'] += sum(r.get('cuts', {}).values())
            for n in r.get('notes', []):
                stats['havoc_notes'].add(n)
            if r['error']:
                errors.append((cfg, r['root'], r['error']))
            for o in r['obs']:
                if o['kind'] not in kinds:
                    continue
                stats['obligations'] += 1
                k = (o['kind'], o['path'], o['role'], o['loc'])
                s = sites.setdefault(k, {'ok': True, 'n': 0, 'cfgs': set(), 'fail': [], 'detail': o['detail'], 'macros': o.get('macros', [])})
                s['n'] += 1
                s['cfgs'].add(cfg)
                if not o['ok']:
                    s['ok'] = False
                    s['fail'].append((cfg, r['root'], o.get('variant', ''), o['detail']))
    return sites, errors, stats
