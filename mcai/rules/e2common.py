"""Shared access to the E2/E3 interpreter results for the rule modules."""
from .. import e2all

_cache = {}


def results(ctx, cfg):
    if cfg not in _cache:
        _cache[cfg] = e2all.run_config(cfg)
    return _cache[cfg]


def site_table(ctx, cfgs, kinds):
    """aggregate obligations of the given kinds per site over configurations, roots and variants.
    Returns (sites, root_errors, stats):
      sites: {(kind, path, role, loc): {'ok': bool, 'n': int, 'cfgs': set, 'fail': [(cfg, root, variant, detail)], 'detail': str}}"""
    sites = {}
    errors = []
    stats = {'roots': 0, 'obligations': 0, 'variants': 0, 'loops': 0, 'invariants': 0, 'cuts': 0, 'havoc_notes': set(), 'time': 0.0}
    for cfg in cfgs:
        res = results(ctx, cfg)
        stats['time'] += res.get('wall', 0)
        for r in res['roots']:
            stats['roots'] += 1
            stats['variants'] += len(r.get('variants', []))
            for v in r.get('variants', []):
                stats['loops'] += len(v.get('loops', []))
                stats['invariants'] += sum(x[3] for x in v.get('loops', []))
            stats['cuts'] += sum(r.get('cuts', {}).values())
            for n in r.get('notes', []):
                stats['havoc_notes'].add(n)
            if r['error']:
                errors.append((cfg, r['root'], r['error']))
            for o in r['obs']:
                if o['kind'] not in kinds:
                    continue
                stats['obligations'] += 1
                k = (o['kind'], o['path'], o['role'], o['loc'])
                s = sites.setdefault(k, {'ok': True, 'n': 0, 'cfgs': set(), 'fail': [], 'detail': o['detail'], 'macros': o.get('macros', [])})
                s['n'] += 1
                s['cfgs'].add(cfg)
                if not o['ok']:
                    s['ok'] = False
                    s['fail'].append((cfg, r['root'], o.get('variant', ''), o['detail']))
    return sites, errors, stats


def root_table(ctx, cfgs, root_rx, kinds):
    """obligations of `kinds` produced while analysing roots whose path matches root_rx.
    Returns (sites, roots_seen, errors): sites keyed by (kind, obligation path, role)."""
    import re
    rx = re.compile(root_rx)
    sites, roots_seen, errors = {}, {}, []
    for cfg in cfgs:
        res = results(ctx, cfg)
        for r in res['roots']:
            if not rx.search(r['path']):
                continue
            roots_seen.setdefault(cfg, []).append(r['path'])
            if r['error']:
                errors.append((cfg, r['root'], r['error']))
            for o in r['obs']:
                if o['kind'] not in kinds:
                    continue
                k = (o['kind'], o['path'], o['role'])
                s = sites.setdefault(k, {'ok': True, 'n': 0, 'cfgs': set(), 'fail': [], 'loc': o['loc'], 'detail': o['detail']})
                s['n'] += 1
                s['cfgs'].add(cfg)
                if not o['ok']:
                    s['ok'] = False
                    s['fail'].append((cfg, r['root'], o.get('variant', ''), o['detail']))
    return sites, roots_seen, errors


def emit(rep, sites, errors):
    for cfg, root, err in errors:
        rep.add('E2-ROOT', root, False, cfg=cfg, detail=err.splitlines()[0][:300])
    per_kind = {}
    for (kind, path, role), s in sorted(sites.items()):
        per_kind[kind] = per_kind.get(kind, 0) + 1
        det = s['detail'] if s['ok'] else '; '.join(f"[{c}] root {r} ({v}): {d}" for c, r, v, d in s['fail'][:2])
        rep.add(kind, f"{path}|{role}", s['ok'], where=s['loc'], cfg=','.join(sorted(s['cfgs'])), detail=(det or '')[:600])
    return per_kind
