"""C19 -- pair selection yields valid, distinct needle offsets for every ranker.

E2 on the pair-selection and packed-pair constructor/accessor roots (symbolic needle of every
length and content; `rank` is modelled as returning an ARBITRARY u8 at each call, so the result
holds for every HeuristicFrequencyRank implementation, constant and adversarial ones included):

  REL-POST   Pair::new / with_ranker: None => needle.len() < 2; Some => needle.len() >= 2,
             index1 != index2, both < needle.len(), both <= 254
             Pair::with_indices: Some => both offsets inside the needle and distinct
             packedpair::Finder::{new, with_pair} (every backend): the stored pair satisfies the
             same relation, min_haystack_len relates to it (I-PP, I-PP-REL)
  SPEC-POST  with_indices: None only on a path where index1 == index2 or an index is outside the
             needle; Some(pair) holds exactly the offsets given
             Finder::with_pair: every pair stored in the finder equals the pair given;
             Finder::pair / Pair::index1 / index2 / min_haystack_len return the stored values
  PANIC      no overflow / bounds / unwrap / assert_ne! in these functions can fire (the
             `u8::try_from(i).unwrap()` and `assert_ne!(index1, index2)` of with_ranker included)
"""
from ..report import Report
from . import e2common

PID = 'C19'
ROOTS = (r'^arch::all::packedpair::Pair::(new|with_ranker(::<.*>)?|with_indices|index1|index2)$'
         r'|^arch::(all|x86_64::sse2|x86_64::avx2|aarch64::neon|wasm32::simd128)::packedpair::Finder::(new|with_pair|pair|min_haystack_len)$')
KINDS = ('REL-POST', 'SPEC-POST', 'PANIC', 'TYINV', 'REL-PRE')


def run(ctx):
    rep = Report(PID, 'proof',
                 'E2 abstract interpretation of Pair::{new,with_ranker,with_indices,index1,index2} and of every backend\'s packed-pair '
                 'Finder::{new,with_pair,pair,min_haystack_len} with a symbolic needle; `rank` returns an arbitrary u8 at every call; '
                 'the exactness clauses (None exactly when ..., Some holds exactly ...) and the validity of the selected offsets are '
                 'entailment obligations at every return; the selection loop is handled by inferred invariants '
                 '(index1 != index2, both < i <= min(len, 255)).',
                 trusted_base=['rustc nightly MIR as exported by mcsa', 'mcai E2 engine', 'mcai/mm.py relation and spec tables'],
                 assumptions=['`rank` has no side effects on the needle or the pair (it receives a byte by value)'])
    from .. import configs as _c
    cfgs = ctx.cfgs(quick=['x64-std', 'a64'], thorough=list(_c.ALL))
    sites, roots_seen, errors = e2common.root_table(ctx, cfgs, ROOTS, KINDS)
    per_kind = e2common.emit(rep, sites, errors)
    for cfg in cfgs:
        n = len(set(roots_seen.get(cfg, [])))
        rep.floor(f'pair-roots[{cfg}]', n, 8)   # 8 where no vector backend exists
    rep.floor('REL-POST-sites', per_kind.get('REL-POST', 0), 20)
    rep.floor('SPEC-POST-sites', per_kind.get('SPEC-POST', 0), 8)
    rep.floor('PANIC-sites', per_kind.get('PANIC', 0), 5)   # 6 counted
    rep.extra.update({'configs': cfgs, 'roots_per_config': {c: sorted(set(v)) for c, v in roots_seen.items()}, 'sites_by_kind': per_kind})
    return rep
