"""C03 -- forward substring search returns exactly the leftmost occurrence.

NOT decided as a whole: that Two-Way finds EVERY occurrence rests on the critical-factorisation theorem
(critical_pos / period computed from the maximal and minimal suffixes), and that the Rabin-Karp rolling hash
equals the hash of the current window is arithmetic modulo 2^32 -- both outside the linear abstract domain.
What IS decided are necessary conditions, each of which a realistic defect breaks (level: other):

  REL-POST      strategy table and index range: the searcher built for a needle is `empty` iff len = 0,
                `one_byte` iff len = 1, a memcmp-confirming vector searcher only for 2 <= len <= 32, Two-Way
                otherwise; critical_pos < len, 1 <= period/shift <= len, 2*shift >= len (large period); pair
                offsets distinct and inside the needle; Some(i) => i + needle.len() <= haystack.len() for
                memmem::find, Finder::find and every building block
  REL-PRE       every call between public functions passes the needle the finder was built from and respects
                the documented minimum haystack length of the vector searchers
  POST-VERIFIED Some(i) is returned only after needle[..] was compared equal with haystack[i..i+len] OF THE
                CALLER'S haystack (EQ ghost; a sub-search result must be rebased): Rabin-Karp, every packed-pair
                `find`, Two-Way large period, and the meta searcher on top of them.
                For small-period Two-Way: everything the shift memory does NOT vouch for (needle[shift..], resp.
                needle[..shift] in reverse) was compared equal -- the memory itself is the subject of
  MEMO          small-period Two-Way: after an iteration shift == 0, or the last move of `pos` was exactly
                +period and shift + period <= needle.len()
  SUFFIX-STEP   maximal/minimal suffix scan (Suffix::forward / reverse): per iteration the comparison offset advances
                by one with the candidate unchanged, or the candidate start moves and the comparison restarts at 0
  PERIOD-TEST   Shift::Small is chosen only when the ONE comparison Two-Way prescribes -- is_suffix(v[..period], u)
                forward, is_prefix(last `period` bytes of v, u) reverse -- answered true, and no other affix
                comparison decides the classification (a wrong `false` gives a periodic needle the large shift)
  POST-NONE / POST-FIRST   the packed-pair vector searcher `find` (needles of 2..=32 bytes on haystacks of at least
                min_haystack_len) is COMPLETE: None only after every position where the needle fits was rejected
                (pair absent, or the confirming comparison failed), Some(i) only when every position before i was --
                masked overlapping last chunk, lane-by-lane candidate loop and both early exits included
  SPEC-POST     the empty needle answers Some(0) on every haystack
  UNION/FNPTR/TYINV  the (function pointer, union field) pairing of Searcher and Prefilter
plus, by reference, C10 (prefilter discipline: SHIFT-PAIR, PRE-REGION) and C11 (prefilters never skip a match)."""
from ..report import Report
from . import e2common

PID = 'C03'
ROOTS = (r"^memmem::find$|^memmem::Finder::<.*>::(find|new(::<.*>)?)$|^memmem::FinderBuilder::(build_forward(::<.*>)?|build_forward_with_ranker(::<.*>)?)$"
         r"|^arch::all::twoway::Finder::(new|find)$|^arch::all::rabinkarp::Finder::(new|find)$"
         r"|^arch::(x86_64::sse2|x86_64::avx2|aarch64::neon|wasm32::simd128)::packedpair::Finder::(find|new|with_pair)$")
KINDS = ('REL-POST', 'REL-PRE', 'POST-VERIFIED', 'MEMO', 'SUFFIX-STEP', 'PERIOD-TEST', 'SPEC-POST', 'UNION', 'FNPTR', 'TYINV', 'DOC-PANIC', 'POST', 'POST-NONE', 'POST-FIRST', 'AXIOM-PRE')
FLOORS = {'REL-POST': 60, 'REL-PRE': 10, 'POST-VERIFIED': 5, 'MEMO': 1, 'UNION': 5}
WHAT = 'forward'


def run(ctx, pid=PID, roots=ROOTS, kinds=KINDS, floors=FLOORS, what=WHAT, min_roots=9):
    rep = Report(pid, 'other',
                 f'Necessary conditions of the {what} substring search, decided by E2 (+ EQ ghost) on the monomorphic MIR with symbolic '
                 'haystack and needle: strategy table, index ranges, needle/finder relation at every internal call, the returned '
                 'offset was verified byte by byte against the caller\'s haystack (where decidable), the Two-Way shift-memory '
                 'discipline, union/fn-pointer pairing. Completeness of Two-Way (critical factorisation) and of the Rabin-Karp '
                 'rolling hash are NOT decided.',
                 trusted_base=['rustc nightly MIR as exported by mcsa', 'mcai E2 engine, eqg.py, mm.py'],
                 assumptions=['completeness of Two-Way and of the rolling hash is not decided (see DESIGN section 7)'])
    from .. import configs as _c
    cfgs = ctx.cfgs(quick=['x64-std', 'a64'], thorough=list(_c.ALL))
    sites, roots_seen, errors = e2common.root_table(ctx, cfgs, roots, kinds)
    per_kind = e2common.emit(rep, sites, errors)
    for cfg in cfgs:
        rep.floor(f'{what}-substring-roots[{cfg}]', len(set(roots_seen.get(cfg, []))), min_roots if not cfg.startswith(('i686', 's390x', 'x64-nosse2')) else min_roots - 3)
    for k, fl in floors.items():
        rep.floor(f'sites-{k}', per_kind.get(k, 0), fl)
    rep.extra.update({'configs': cfgs, 'roots_per_config': {c: sorted(set(v)) for c, v in roots_seen.items()}, 'sites_by_kind': per_kind})
    return rep
