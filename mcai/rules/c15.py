"""C15 -- concurrent use gives the same answers as sequential use.

A schedule dependence needs shared mutable state.  The effects inventory
shows the crate has none except word-sized atomics that only ever hold
interchangeable function pointers:

 EFF-1  every static is an AtomicPtr<()> (not `static mut`), accessed only as
        the receiver of load/store; IFUNC-SET: every value that can ever be
        loaded is one of the functions {initialiser} + {stored fn items}, all
        defined in the same dispatcher, all of exactly the fn-pointer type the
        loaded value is transmuted to; `detect` calls the chosen function
        directly (not a re-load).
 EFF-2  no other interior mutability: every ADT of the crate is Freeze
        (no Cell/Atomic/UnsafeCell field), no thread-locals.
 EFF-3  the crate never writes through a raw pointer (no raw-pointer store,
        no ptr::write/copy family, no *mut argument to foreign code) -- except
        the frozen exceptions listed below.
 EFF-4  every public type is Send + Sync for all parameters; manual
        `unsafe impl Send/Sync` only on Freeze types.
 EFF-5  Finder/FinderRev search methods take &self; the per-search
        PrefilterState is not reachable from a Finder/FinderRev/Searcher.
That the interchangeable functions compute the same answer is C09/C01."""
import re
from ..report import Report
from .. import ifunc
from ..prog import sources, uses

PID = 'C15'

# EFF-3 exceptions: (instance path regex, reason)
RAW_WRITE_OK = [
    (re.compile(r'^arch::all::shiftor::Finder::new$'),
     'initialises the Box<[u16;256]> it has just allocated and exclusively owns'),
]
# callee paths that may receive a *mut argument
MUT_ARG_OK = [
    (re.compile(r'^core::sync::atomic::Atomic::<\*mut \(\)>::(store|new)$'), 'the ifunc pointer value itself'),
    (re.compile(r'^core::sync::atomic::AtomicPtr::<\(\)>::new$'), 'the ifunc pointer value itself'),
]
WRITE_FAMILY = re.compile(
    r'^core::(ptr::(write|write_unaligned|write_volatile|write_bytes|copy|copy_nonoverlapping|swap|swap_nonoverlapping|replace|drop_in_place)'
    r'|ptr::mut_ptr::<impl \*mut T>::(write|write_unaligned|write_volatile|write_bytes|copy_from|copy_from_nonoverlapping|copy_to|copy_to_nonoverlapping|swap|replace|drop_in_place)'
    r'|intrinsics::(copy|copy_nonoverlapping|write_bytes|volatile_store|atomic_\w+))')


def run(ctx):
    rep = Report(PID, 'proof',
                 'Effects inventory over the type-checked crate and its MIR (EFF-1..5, IFUNC-SET): no shared mutable '
                 'state exists except seven AtomicPtr statics whose every reachable value is one of the dispatcher\'s '
                 'own, identically typed functions; all public types are Send+Sync+Freeze. Decides absence of schedule '
                 'dependence relative to C09/C01 (the interchangeable functions return the same answers).',
                 trusted_base=['rustc nightly: type checker, auto-trait solver (Send/Sync), Freeze query, const eval of static initialisers',
                               'mcsa exporter', 'Rust aliasing rules: without interior mutability or raw writes, &T is read-only'],
                 assumptions=['atomic word-sized load/store of a pointer is tear-free (Relaxed ordering suffices for a single word)',
                              'C09/C01: all members of an ifunc set compute the same function'])
    cfgs = ctx.cfgs(quick=['x64-std', 'a64'], thorough=None)
    for cfg in cfgs:
        effects(rep, ctx.prog(cfg), cfg)
    from .. import witness
    witness.run(rep, ['memchr_iter_outlives_haystack', 'memchr_iter_twin', 'arch_iter_outlives_haystack', 'arch_iter_twin',
                      'finder_shared_search_twin'])
    rep.extra['configs'] = cfgs
    return rep


def effects(rep, P, cfg):
    """EFF-1..5 for one configuration (also used by C16's PURE clause)."""
    # ---------------- EFF-1 / IFUNC-SET
    statics = ifunc.analyse(P)
    for st_fact in P.facts['all_statics']:
        rep.add('EFF-1/static-immutable', st_fact['path'], not st_fact['mutable'], cfg=cfg,
                detail='`static mut` is shared mutable state' if st_fact['mutable'] else '')
    if cfg.startswith('x64'):
        rep.floor(f'ifunc-statics[{cfg}]', len(statics), 7)
    for path, st in statics.items():
        f = st.fact
        where = f['loc']
        rep.add('EFF-1/static-type', path, f['ty'] == 'core::sync::atomic::Atomic<*mut ()>' and not f['mutable'],
                where=where, cfg=cfg, detail=f"static of type {f['ty']}" + (' (mut)' if f['mutable'] else ''))
        rep.add('EFF-1/static-access', path, not st.bad_uses, where=where, cfg=cfg,
                detail='; '.join(f"{i.path} bb{b}: {d}" for i, b, d in st.bad_uses) or
                f"{len(st.loads)} load(s), {len(st.stores)} store(s), no other access")
        rep.add('EFF-1/init-is-fn', path, len(st.init) == 1 and not st.init_other, where=where, cfg=cfg,
                detail=f"initialiser points to {[x['path'] for x in st.init]}")
        unknown = [u for (_, _, _, _, unk) in st.stores for u in unk]
        rep.add('IFUNC-SET/stores-are-fn-items', path, not unknown and all(fns for (_, _, _, fns, _) in st.stores),
                where=where, cfg=cfg, detail=f"stored values: {[x['path'] for (_,_,_,fns,_) in st.stores for x in fns]}"
                + (f"; untraceable sources: {unknown}" if unknown else ''))
        fnset = st.fnset()
        parent = path.rsplit('::', 1)[0]
        siblings = all(k.rsplit('::', 1)[0] == parent for k in fnset)
        rep.add('IFUNC-SET/members-are-siblings', path, siblings and len(fnset) >= 2, where=where, cfg=cfg,
                detail=f"value set {sorted(fnset)}")
        # loads: transmuted type must equal every member's signature
        sigs = {k: ifunc.fn_signature(P, v) for k, v in fnset.items()}
        n_loaded_calls = 0
        for (inst, b, lt) in st.loads:
            lcs = ifunc.loaded_calls(P, inst, lt)
            for fty, call in lcs:
                n_loaded_calls += 1
                want = tuple(P.types[t]['str'] for t in fty['sig'])
                ok = True
                bad = []
                for k, sg in sigs.items():
                    if sg is None or sg[0] + (sg[1],) != want or sg[2] != fty['unsafe']:
                        ok = False
                        bad.append((k, sg))
                rep.add('FNPTR/loaded-type-matches-members', path, ok, where=lt['loc'], cfg=cfg,
                        detail=f"called as {fty['str']}; mismatching members: {bad}" if not ok else f"called as {fty['str']}; {len(sigs)} members agree")
            if not lcs:
                rep.add('FNPTR/loaded-type-matches-members', path, False, where=lt['loc'], cfg=cfg,
                        detail=f"value loaded in {inst.path} is not called through a traced fn-pointer transmute")
        rep.add('EFF-1/loaded-and-called', path, n_loaded_calls >= 1, where=where, cfg=cfg, nontrivial=False,
                detail=f"{n_loaded_calls} call(s) through the loaded pointer")
        # the storing function calls the *same local* it stored (no re-load)
        for (inst, b, stt, fns, unk) in st.stores:
            stored_srcs = sources(inst, stt['args'][1])
            called_ok = False
            for b2, t in inst.calls():
                c = t['callee']
                if 'indirect' in c:
                    cs = sources(inst, c['indirect'])
                    if {id(x[1]) for x in cs if x[0] == 'const'} == {id(x[1]) for x in stored_srcs if x[0] == 'const'} and cs:
                        called_ok = True
            reloads = [1 for (i2, _, _) in st.loads if i2 is inst]
            rep.add('EFF-1/detect-calls-what-it-stored', inst.path, called_ok and not reloads, where=stt['loc'], cfg=cfg,
                    detail='calls the chosen function value directly after the store' if called_ok and not reloads
                    else 'the storing function does not call the same value set it stored (or re-loads the static)')
    # ---------------- EFF-2
    n_adts = 0
    for a in P.facts['adts']:
        if a['generic_types']:
            # generic crate-private algorithm structs: freeze decided per field below
            nf = [f"{v['name']}.{fl['name']}: {fl['ty']}" for v in a['variants'] for fl in v['fields']
                  if not fl['freeze'] and not re.fullmatch(r'[A-Z]\w*', fl['ty'])]
            rep.add('EFF-2/freeze', a['path'], not nf, where=a['loc'], cfg=cfg,
                    detail='non-Freeze fields: ' + ', '.join(nf) if nf else 'generic: all non-parameter fields Freeze')
        else:
            rep.add('EFF-2/freeze', a['path'], a['freeze'], where=a['loc'], cfg=cfg,
                    detail='' if a['freeze'] else 'type has interior mutability (Cell/Atomic/UnsafeCell inside)')
        n_adts += 1
    rep.floor(f'adts[{cfg}]', n_adts, 30)
    tls = 0
    for inst in P.local_instances():
        if inst.has_body:
            for b, i, s in inst.stmts():
                if s['k'] == 'assign' and s['rv']['k'] == 'tls':
                    tls += 1
                    rep.add('EFF-2/no-thread-local', inst.path, False, where=s['loc'], cfg=cfg, detail='thread-local access')
    rep.add('EFF-2/no-thread-local', f'crate[{cfg}]', tls == 0, cfg=cfg, nontrivial=False)
    # ---------------- EFF-3
    n_bodies = 0
    for inst in P.local_instances():
        if not inst.has_body:
            continue
        n_bodies += 1
        problems = []
        for b, i, s in inst.stmts():
            if s['k'] == 'copy_nonoverlapping':
                problems.append((s['loc'], 'copy_nonoverlapping'))
            if s['k'] in ('assign', 'setdiscr'):
                ty = P.types[inst.locals[s['p']['l']]]
                for e in s['p']['pr']:
                    if e['k'] == 'deref' and ty['kind'] == 'ptr':
                        problems.append((s['loc'], 'store through a raw pointer'))
                    ty = P.types[e['ty']]
                if s['k'] == 'assign' and s['rv']['k'] == 'ref' and s['rv']['mut']:
                    ty = P.types[inst.locals[s['rv']['p']['l']]]
                    for e in s['rv']['p']['pr']:
                        if e['k'] == 'deref' and ty['kind'] == 'ptr':
                            problems.append((s['loc'], '&mut through a raw pointer'))
                        ty = P.types[e['ty']]
        for b, t in inst.calls():
            c = t['callee']
            cp = c.get('path', '')
            ck = c.get('inst', cp)
            if WRITE_FAMILY.search(cp):
                problems.append((t['loc'], f'call of {cp}'))
            for a in t['args']:
                tid = None
                if a['k'] in ('copy', 'move'):
                    tid = a['p']['pr'][-1]['ty'] if a['p']['pr'] else inst.locals[a['p']['l']]
                elif a['k'] == 'const':
                    tid = a['ty']
                if tid is not None:
                    ty = P.types[tid]
                    if ty['kind'] == 'ptr' and ty['mut'] and c.get('krate') != 'memchr':
                        if not any(rx.search(ck) for rx, _ in MUT_ARG_OK):
                            problems.append((t['loc'], f'*mut argument passed to {ck}'))
        if problems:
            exc = [why for rx, why in RAW_WRITE_OK if rx.search(inst.path)]
            if exc:
                rep.notes.append(f"EFF-3 exception [{cfg}] {inst.path}: {exc[0]} ({len(problems)} site(s))")
                rep.add('EFF-3/no-raw-write', inst.key, True, where=inst.loc, cfg=cfg, detail='listed exception: ' + exc[0])
            else:
                rep.add('EFF-3/no-raw-write', inst.key, False, where=problems[0][0], cfg=cfg,
                        detail='; '.join(f"{l}: {d}" for l, d in problems[:4]))
        else:
            rep.add('EFF-3/no-raw-write', inst.key, True, where=inst.loc, cfg=cfg, nontrivial=False)
    rep.floor(f'bodies-scanned[{cfg}]', n_bodies, 250)
    # ---------------- EFF-4
    n_pub = 0
    for a in P.facts['adts']:
        if a['reachable']:
            n_pub += 1
            ok = a.get('send') and a.get('sync')
            rep.add('EFF-4/send-sync', a['path'], ok, where=a['loc'], cfg=cfg,
                    detail='' if ok else f"Send={a.get('send')} Sync={a.get('sync')} for all type/lifetime parameters")
    rep.floor(f'public-adts[{cfg}]', n_pub, 20)
    adt_by_path = {a['path']: a for a in P.facts['adts']}
    for im in P.facts['impls']:
        if im.get('unsafe') and im.get('trait') in ('core::marker::Send', 'core::marker::Sync'):
            base = re.sub(r'<.*$', '', im['self_ty'])
            a = adt_by_path.get(base)
            ok = bool(a) and a['freeze'] and all('*mut' not in fl['ty'] for v in a['variants'] for fl in v['fields'])
            rep.add('EFF-4/unsafe-impl-justified', f"{im['trait']} for {im['self_ty']}", ok, where=im['loc'], cfg=cfg,
                    detail='self type is Freeze and holds no *mut pointer; with EFF-3 its raw pointers are only read through'
                    if ok else 'manual unsafe Send/Sync impl on a type that is not Freeze or holds *mut')
        elif im.get('unsafe') and im.get('trait') not in ('core::clone::TrivialClone',):
            rep.add('EFF-4/unsafe-impl-justified', f"{im['trait']} for {im['self_ty']}", False, where=im['loc'], cfg=cfg,
                    detail='unsafe impl of an unrecognised trait; re-confirm by hand')
    # ---------------- EFF-5
    roots_ty = ['memmem::Finder', 'memmem::FinderRev', 'memmem::searcher::Searcher', 'memmem::searcher::SearcherRev']
    for rt in roots_ty:
        if rt not in adt_by_path:
            rep.anchor_missing(f'ADT {rt}', cfg)
            continue
        seen, stack, hit = set(), [rt], []
        while stack:
            x = stack.pop()
            if x in seen or x not in adt_by_path:
                continue
            seen.add(x)
            for v in adt_by_path[x]['variants']:
                for fl in v['fields']:
                    if 'fn(' in fl['ty']:
                        continue  # a function pointer holds no state; its parameter types are not fields
                    if 'PrefilterState' in fl['ty'] or '&mut' in fl['ty']:
                        hit.append(f"{x}.{fl['name']}: {fl['ty']}")
                    for m in re.findall(r'[A-Za-z_][\w:]*', fl['ty']):
                        if m in adt_by_path:
                            stack.append(m)
        rep.add('EFF-5/no-search-state-in-finder', rt, not hit, where=adt_by_path[rt]['loc'], cfg=cfg,
                detail='per-search state reachable from a shared finder: ' + ', '.join(hit) if hit else f"{len(seen)} types in field closure")
    for meth in ['memmem::Finder::<\'n>::find', 'memmem::Finder::<\'n>::find_iter', 'memmem::FinderRev::<\'n>::rfind',
                 'memmem::FinderRev::<\'n>::rfind_iter', 'memmem::searcher::Searcher::find', 'memmem::searcher::SearcherRev::rfind']:
        f = P.fn_facts.get(meth)
        if not f:
            rep.anchor_missing(f'method {meth}', cfg)
            continue
        sig = f['sig']
        m = re.search(r'\(([^,)]*)', sig)
        first = m.group(1).strip() if m else ''
        ok = first.startswith('&') and not first.startswith('&mut') and 'mut ' not in first.split(' ')[0:2][-1:]
        ok = ok and not re.match(r"&('\w+ )?mut ", first)
        rep.add('EFF-5/search-takes-shared-self', meth, ok, where=f['loc'], cfg=cfg, detail=f"receiver type `{first}`")
