"""C16 -- a finder is a pure function of its needle: reuse, clone, borrow, own.

 PURE   the search methods take &self and everything reachable from a finder
        is Freeze; with the effects inventory of C15 (no statics but the ifunc
        pointers, no raw writes) the only state a search can modify is its own
        locals, so a result depends on *self and the haystack only.
 FRESH  Finder::find builds its PrefilterState in its own frame by a call that
        takes no arguments (nothing carried over from earlier searches).
 COPY   clone / as_ref / into_owned of Finder, FinderRev and of both iterators
        (and the needle storage CowBytes) build every field of the result from
        the same field of self, through copies, clone/into_owned/deref-style
        leaf calls or crate-local helpers that themselves only forward
        (inter-procedural derived-from analysis); no field comes from a
        constant, a different field, or arithmetic.
 NEEDLE needle() returns (a view of) the stored needle field and nothing else.
 E5     compile-fail witnesses: a borrowed finder cannot outlive its needle
        (E0597/E0505/E0716), the into_owned() twin compiles."""
import re
from ..report import Report
from .. import derive
from ..prog import sources
from . import c15

PID = 'C16'

# leaf (non crate-local) callees through which a copied field may pass
LEAF_OK = re.compile(
    r'(^core::clone::|as core::clone::Clone>::clone|^core::clone::impls::|'
    r'as core::ops::deref::Deref>::deref|as core::convert::AsRef<|as core::convert::From<&\[u8\]>>::from|'
    r'(std|alloc)::boxed::convert::<impl core::convert::From<&\[u8\]> for (std|alloc)::boxed::Box<\[u8\]>>::from|'
    r'as core::convert::Into<|as core::borrow::Borrow<|core::option::Option::<[^>]*>::(as_ref|as_deref|cloned|copied)|'
    r'as core::clone::Clone>::clone - shim)')

COPY_FNS = [
    # (regex on instance key, result ADT path, description)
    (r"^memmem::Finder::<'_>::into_owned$", 'memmem::Finder'),
    (r"^memmem::Finder::<'_>::as_ref$", 'memmem::Finder'),
    (r"^memmem::FinderRev::<'_>::into_owned$", 'memmem::FinderRev'),
    (r"^memmem::FinderRev::<'_>::as_ref$", 'memmem::FinderRev'),
    (r"^memmem::FindIter::<'_, '_>::into_owned$", 'memmem::FindIter'),
    (r"^memmem::FindRevIter::<'_, '_>::into_owned$", 'memmem::FindRevIter'),
    (r"^<memmem::Finder<'_> as core::clone::Clone>::clone$", 'memmem::Finder'),
    (r"^<memmem::FinderRev<'_> as core::clone::Clone>::clone$", 'memmem::FinderRev'),
    (r"^<memmem::FindIter<'_, '_> as core::clone::Clone>::clone$", 'memmem::FindIter'),
    (r"^<memmem::FindRevIter<'_, '_> as core::clone::Clone>::clone$", 'memmem::FindRevIter'),
    (r"^<memmem::searcher::Searcher as core::clone::Clone>::clone$", 'memmem::searcher::Searcher'),
    (r"^<memmem::searcher::SearcherRev as core::clone::Clone>::clone$", 'memmem::searcher::SearcherRev'),
    (r"^<memmem::searcher::PrefilterState as core::clone::Clone>::clone$", 'memmem::searcher::PrefilterState'),
]
ALLOC_ONLY = {'into_owned'}


def aggregates_into_return(inst, adt_path):
    """aggregate rvalues of ADT `adt_path` that flow into _0"""
    out = []
    for src in sources(inst, 0):
        if src[0] == 'rv' and src[2]['k'] == 'agg' and src[2].get('ak') == 'adt' and src[2]['path'] == adt_path:
            out.append(src[2])
        elif src[0] == 'arg':
            out.append(('whole-arg', src[1]))
        elif src[0] == 'proj':
            out.append(('proj', src[1]))
    return out


def run(ctx):
    rep = Report(PID, 'proof',
                 'PURE (receiver types + Freeze + the C15 effects inventory), FRESH (per-call PrefilterState from a '
                 'nullary constructor in the caller frame), COPY/NEEDLE (inter-procedural derived-from analysis: each '
                 'result field comes from the same field of self only), E5 compile-fail witnesses for the borrow '
                 'relation. Decides that no state can leak between searches and that copies are field-wise; that the '
                 'copied searcher then behaves identically follows from it being the same value.',
                 trusted_base=['rustc nightly type checker / borrow checker / Freeze query', 'mcsa exporter',
                               'derived-from analysis (mcai/derive.py): flow-insensitive, descends into crate-local callees'],
                 assumptions=['leaf clone/deref/From<&[u8]> functions of core/alloc return a faithful copy of their argument'])
    cfgs = ctx.cfgs(quick=['x64-std', 'a64', 'x64-core'])
    for cfg in cfgs:
        P = ctx.prog(cfg)
        has_alloc = any(c == 'feature=alloc' for c in P.d['cfg'])
        # ---- PURE: the whole effects inventory (shared with C15)
        c15.effects(rep, P, cfg)
        adt = {a['path']: a for a in P.facts['adts']}
        for t in ['memmem::Finder', 'memmem::FinderRev', 'memmem::searcher::Searcher', 'memmem::searcher::SearcherRev',
                  'memmem::searcher::Prefilter', 'cow::CowBytes', 'memmem::FindIter', 'memmem::FindRevIter']:
            if t not in adt:
                rep.anchor_missing(f'ADT {t}', cfg)
                continue
            rep.add('PURE/freeze', t, adt[t]['freeze'], where=adt[t]['loc'], cfg=cfg,
                    detail='' if adt[t]['freeze'] else 'interior mutability inside a finder: results may depend on earlier searches')
        # ---- FRESH
        try:
            f = P.one(r"^memmem::Finder::<'_>::find$")
            n = 0
            for b, t in f.calls():
                ck = t['callee'].get('inst', '')
                if re.search(r'Searcher::find$', ck):
                    n += 1
                    ok, why = False, 'prefilter state argument not traced to a fresh local'
                    for src in sources(f, t['args'][1]):
                        if src[0] == 'rv' and src[2]['k'] == 'ref' and not src[2]['p']['pr']:
                            L = src[2]['p']['l']
                            defs = f.assignments_to(L)
                            if defs and all(i == 'term' and not d['args'] and d['callee'].get('krate') == 'memchr' for (_, i, d) in defs):
                                ok = True
                                why = f"state local _{L} is produced by nullary {defs[0][2]['callee'].get('inst')} in this frame"
                            else:
                                why = f"state local _{L} has definitions other than a nullary constructor call"
                    rep.add('FRESH/prefilter-state-per-call', 'memmem::Finder::find', ok, where=t['loc'], cfg=cfg, detail=why)
            if n == 0:
                rep.anchor_missing('call of Searcher::find in Finder::find', cfg)
            # the top-level convenience function builds a new Finder per call
        except KeyError as e:
            rep.anchor_missing(str(e), cfg)
        # ---- COPY
        n_copy = 0
        for rx, adt_path in COPY_FNS:
            insts = P.find(rx)
            if not insts:
                if 'into_owned' in rx and not has_alloc:
                    continue
                rep.anchor_missing(f'copy function {rx}', cfg)
                continue
            inst = insts[0]
            if not inst.has_body:
                rep.anchor_missing(f'body of {inst.key}', cfg)
                continue
            aggs = aggregates_into_return(inst, adt_path)
            if not aggs:
                rep.add('COPY/result-built-fieldwise', inst.path, False, where=inst.loc, cfg=cfg,
                        detail='no aggregate of the result type flows into the return value')
                continue
            for ag in aggs:
                if isinstance(ag, tuple):
                    # returning *self (Copy) or a projection of self: a faithful copy iff it is argument 1 itself
                    ok = ag[0] == 'whole-arg' or (ag[0] == 'proj' and ag[1]['l'] == 1 and not derive.field_path(ag[1]))
                    rep.add('COPY/result-built-fieldwise', inst.path, ok, where=inst.loc, cfg=cfg,
                            detail='returns *self' if ok else 'returns a projection of self')
                    n_copy += 1
                    continue
                fields = adt[adt_path]['variants'][ag['variant']]['fields'] if adt_path in adt else []
                for i, o in enumerate(ag['ops']):
                    d = derive.derives(P, inst, o)
                    fname = fields[i]['name'] if i < len(fields) else str(i)
                    want_prefix = (i,)
                    bad_roots = [r for r in d.roots if not (r[0] == 'arg' and r[1] == 1 and r[2][:1] == want_prefix) and r != ('unit',)]
                    bad_via = sorted(v for v in d.via if not LEAF_OK.search(v))
                    ok = any(r[0] == 'arg' for r in d.roots) and not bad_roots and not d.computed and not bad_via
                    det = f"field `{fname}` <- {sorted(d.roots)} via {sorted(d.via)}"
                    if bad_roots:
                        det += f"; NOT from self.{fname}: {bad_roots}"
                    if d.computed:
                        det += '; involves arithmetic/comparison'
                    if bad_via:
                        det += f"; passes through unlisted leaf function(s) {bad_via}"
                    rep.add('COPY/field-from-same-field', f"{inst.path}#{fname}", ok, where=inst.loc, cfg=cfg, detail=det)
                    n_copy += 1
        rep.floor(f'copy-fields[{cfg}]', n_copy, 20 if has_alloc else 12)
        # CowBytes::into_owned / Imp clone: bytes come from the stored bytes
        for rx in ([r"^cow::CowBytes::<'_>::into_owned$", r"^<cow::Imp<'_> as core::clone::Clone>::clone$"] if has_alloc else []):
            insts = P.find(rx)
            if not insts:
                rep.anchor_missing(f'copy function {rx}', cfg)
                continue
            d = derive.return_summary(P, insts[0])
            bad = [r for r in d.roots if not (r[0] == 'arg' and r[1] == 1)]
            bad_via = sorted(v for v in d.via if not LEAF_OK.search(v))
            rep.add('COPY/needle-bytes', insts[0].path, bool(d.roots) and not bad and not d.computed and not bad_via,
                    where=insts[0].loc, cfg=cfg, detail=f"result <- {sorted(d.roots)} via {sorted(d.via)}")
        # ---- NEEDLE
        for rx, t in [(r"^memmem::Finder::<'_>::needle$", 'memmem::Finder'), (r"^memmem::FinderRev::<'_>::needle$", 'memmem::FinderRev')]:
            insts = P.find(rx)
            if not insts:
                rep.anchor_missing(f'accessor {rx}', cfg)
                continue
            d = derive.return_summary(P, insts[0])
            idx = [i for i, fl in enumerate(adt[t]['variants'][0]['fields']) if 'CowBytes' in fl['ty']]
            ok = len(idx) == 1 and bool(d.roots) and all(r[0] == 'arg' and r[1] == 1 and r[2][:1] == (idx[0],) for r in d.roots) and not d.computed
            rep.add('NEEDLE/returns-stored-needle', insts[0].path, ok, where=insts[0].loc, cfg=cfg,
                    detail=f"result <- {sorted(d.roots)} via {sorted(d.via)}")
    # ---- E5 witnesses (thorough tier and quick: cheap)
    from .. import witness
    witness.run(rep, ['finder_outlives_needle', 'finder_into_owned_twin', 'finditer_outlives_needle', 'finditer_into_owned_twin',
                      'finderrev_outlives_needle', 'finderrev_into_owned_twin', 'finder_shared_search_twin', 'finditer_next_needs_mut'])
    rep.extra['configs'] = cfgs
    return rep
