"""C04 -- reverse substring search returns exactly the rightmost occurrence.

Mirror image of C03 (see there for what is and is not decided): strategy table of SearcherRev (Empty iff len = 0,
OneByte iff len = 1, Two-Way otherwise), reverse Two-Way relation (1 <= critical_pos <= len, 1 <= period/shift <=
len, 2*shift >= len), Some(i) => i + needle.len() <= haystack.len(), POST-VERIFIED for reverse Rabin-Karp, reverse
Two-Way large period and memmem::FinderRev::rfind, and the reverse shift-memory discipline
  MEMO  after an iteration shift == needle.len(), or the last move of `pos` was exactly -period and shift >= period;
the empty needle answers Some(haystack.len()); SUFFIX-STEP and PERIOD-TEST for Suffix::reverse / Shift::reverse."""
from . import c03

PID = 'C04'
ROOTS = (r"^memmem::rfind$|^memmem::FinderRev::<.*>::(rfind(::<.*>)?|new(::<.*>)?)$|^memmem::FinderBuilder::build_reverse(::<.*>)?$"
         r"|^arch::all::twoway::FinderRev::(new|rfind)$|^arch::all::rabinkarp::FinderRev::(new|rfind)$")
FLOORS = {'REL-POST': 30, 'REL-PRE': 4, 'POST-VERIFIED': 3, 'MEMO': 1}


def run(ctx):
    return c03.run(ctx, pid=PID, roots=ROOTS, floors=FLOORS, what='reverse', min_roots=7)
