"""C13 -- substring search does linear work.

Executed step counts are a runtime quantity; no static bound on them is in
reach of this technique.  What IS visible in the shape of the code are the
three guards whose removal makes the work super-linear; this check decides
those and nothing more (necessary conditions of the property):

 LIN-1  do_packed_search(needle) can return true only under
        needle.len() <= K for a compile-time constant K < 2^12, and a
        packed-pair SearcherKind (confirm-by-memcmp, O(n*m)) is constructed
        only on the true edge of do_packed_search(needle).
 LIN-2  every call of the quadratic Rabin-Karp searcher from the memmem layer
        is dominated by a guard bounding haystack.len() (or needle.len()) by a
        constant K' < 2^12, or by haystack.len() < min_haystack_len() of a
        packed-pair finder (bounded through LIN-1 and C19).
 LIN-3  the adaptive prefilter shut-off exists and is consulted: the inert
        sentinel is written only in PrefilterState::is_effective, which
        compares against two compile-time constants; Pre::find is the only
        caller of update() and always calls it; every Pre::find call in
        Two-Way is dominated by the true edge of Pre::is_effective()."""
import re
from ..report import Report
from .. import guards, derive
from ..prog import sources, dominating_edges, edge_truth, bool_condition

PID = 'C13'
KMAX = 1 << 12

RK_FIND = re.compile(r'^arch::all::rabinkarp::(Finder::find|FinderRev::rfind)$')


def const_bounded(facts, want_roots=None):
    """facts giving a constant upper bound < KMAX on a slice length"""
    out = []
    for (subj, op, bd) in facts:
        if bd[0] == 'const' and bd[1] < KMAX:
            if want_roots is None or (subj[1] & want_roots):
                out.append((subj, op, bd))
    return out


def run(ctx):
    rep = Report(PID, 'other',
                 'Guard rules (LIN-1 length cap of the memcmp-confirming vector searcher, LIN-2 every Rabin-Karp '
                 'call guarded by a constant length bound, LIN-3 adaptive prefilter shut-off present and consulted), '
                 'decided by dominance + derived-from queries on MIR, plus LIN-4 from the E2 engine: every constructed large-period '
                 'Two-Way shift is >= len/2 and every constructed vector searcher has its needle length capped by a constant; and LIN-5: the suffix scans of the Two-Way preprocessing have a strictly increasing, linearly bounded potential. These are NECESSARY conditions for linear work; '
                 'this check does NOT bound executed steps, does not decide linearity of Two-Way (period memory) or of '
                 'preprocessing, and gives no constant.',
                 trusted_base=['rustc nightly MIR', 'mcsa exporter', 'dominator computation'],
                 assumptions=['step counts themselves are outside static reach; only the three guards are decided'])
    cfgs = ctx.cfgs(quick=['x64-std', 'a64'])
    caps = {}
    for cfg in cfgs:
        P = ctx.prog(cfg)
        # ---------------- LIN-1
        try:
            dps = P.one(r'^memmem::searcher::do_packed_search$')
        except KeyError as e:
            rep.anchor_missing(str(e), cfg)
            dps = None
        if dps:
            facts_per_source = []
            ok = True
            why = []
            for src in sources(dps, 0):
                if src[0] == 'const':
                    if src[1].get('v') != 0:
                        ok = False
                        why.append('may return constant true')
                    continue
                if src[0] == 'rv' and src[2]['k'] == 'bin':
                    fs = guards.facts_of_cmp(P, dps, src[2]['op'], src[2]['a'], src[2]['b'], True)
                    fs += guards.edge_facts(P, dps, src[1])
                    cb = const_bounded(fs, {('arg', 1, ())})
                    if not cb:
                        ok = False
                        why.append(f"true-source {src[2]['op']} gives no constant upper bound on needle.len()")
                    else:
                        k = min(b[2][1] - (1 if b[1] == '<' else 0) for b in cb)
                        caps[cfg] = k
                        why.append(f"needle.len() <= {k}")
                else:
                    ok = False
                    why.append(f"return value from {src[0]}")
            rep.add('LIN-1/length-cap', 'memmem::searcher::do_packed_search', ok, where=dps.loc, cfg=cfg, detail='; '.join(why))
        # packed kinds only under do_packed_search
        n_packed = 0
        for inst in P.find(r'^memmem::searcher::Searcher::new::<'):
            for b, i, s in inst.stmts():
                if s['k'] == 'assign' and s['rv']['k'] == 'agg' and s['rv'].get('ak') == 'adt' \
                        and s['rv']['path'] == 'memmem::searcher::SearcherKind' and 'union_field' in s['rv']:
                    uty = P.types[s['rv']['ty']]
                    fld = uty['variants'][0]['fields'][s['rv']['union_field']]
                    fty = P.types[fld['ty']]
                    if 'packedpair::Finder' not in fty['str']:
                        continue
                    n_packed += 1
                    guarded = False
                    for (sb, kind, value, tt) in dominating_edges(inst, b):
                        cond = bool_condition(inst, sb)
                        if cond and cond[0] == 'call' and cond[1]['callee'].get('path') == 'memmem::searcher::do_packed_search' \
                                and edge_truth(kind, value):
                            d = derive.derives(P, inst, cond[1]['args'][0])
                            # needle is the last argument of Searcher::new
                            guarded = d.roots == {('arg', inst.arg_count, ())}
                    rep.add('LIN-1/packed-kind-under-cap', f"{inst.path}#{fld['name']}", guarded, where=s['loc'], cfg=cfg,
                            detail='constructed on the true edge of do_packed_search(needle)' if guarded else
                            'packed-pair searcher kind constructed without the needle-length cap')
        if cfg in ('x64-std', 'x64-alloc', 'x64-core', 'x64-avx2'):
            rep.floor(f'packed-kinds[{cfg}]', n_packed, 2)
        elif cfg in ('a64', 'a64be', 'wasm'):
            rep.floor(f'packed-kinds[{cfg}]', n_packed, 1)
        # ---------------- LIN-2
        n_rk = 0
        for inst in P.local_instances():
            if not inst.has_body or inst.path.startswith('arch::all::rabinkarp::'):
                continue
            for b, t in inst.calls():
                cp = t['callee'].get('path', '')
                if not RK_FIND.match(cp):
                    continue
                n_rk += 1
                fs = guards.edge_facts(P, inst, b)
                cb = const_bounded(fs)
                mhl = [f for f in fs if f[2][0] == 'call' and f[2][1].endswith('packedpair::Finder::min_haystack_len')]
                ok = bool(cb or mhl)
                det = '; '.join(f"len({sorted(f[0][1])}) {f[1]} {f[2][1]}" for f in (cb or mhl)) or \
                    'Rabin-Karp (O(n*m)) call not dominated by any constant length bound'
                rep.add('LIN-2/rabinkarp-guarded', f"{inst.path} -> {cp}", ok, where=t['loc'], cfg=cfg, detail=det)
        rep.floor(f'rabinkarp-call-sites[{cfg}]', n_rk, 5)
        # ---------------- LIN-3
        adt = {a['path']: a for a in P.facts['adts']}
        ps = adt.get('memmem::searcher::PrefilterState')
        if not ps:
            rep.anchor_missing('ADT PrefilterState', cfg)
            continue
        try:
            is_eff = P.one(r'^memmem::searcher::PrefilterState::is_effective$')
            upd = P.one(r'^memmem::searcher::PrefilterState::update$')
            pre_find = P.one(r"^memmem::searcher::Pre::<'_>::find$")
        except KeyError as e:
            rep.anchor_missing(str(e), cfg)
            continue
        # (a) sentinel writes: constant stores into a u32 field of PrefilterState
        zero_writers = set()
        for inst in P.local_instances():
            if not inst.has_body:
                continue
            for b, i, s in inst.stmts():
                if s['k'] != 'assign' or not s['p']['pr']:
                    continue
                last = s['p']['pr'][-1]
                if last['k'] != 'field':
                    continue
                # base type must be PrefilterState
                base_tid = s['p']['pr'][-2]['ty'] if len(s['p']['pr']) >= 2 else inst.locals[s['p']['l']]
                bt = P.types[base_tid]
                if bt.get('path') != 'memmem::searcher::PrefilterState':
                    continue
                rv = s['rv']
                if rv['k'] == 'use' and rv['op']['k'] == 'const' and rv['op'].get('v') == 0:
                    zero_writers.add(inst.path)
        rep.add('LIN-3/sentinel-writer', 'PrefilterState inert sentinel', zero_writers == {is_eff.path}, where=is_eff.loc, cfg=cfg,
                detail=f"constant-0 stores into PrefilterState fields occur in {sorted(zero_writers)}")
        # (b) the decision of is_effective is a function of the PrefilterState alone: every branch condition
        #     derives only from constants and from fields of `self`; and both answers are possible
        from ..derive import derives
        bad_roots, n_sw = set(), 0
        for b in is_eff.rpo():
            t = is_eff.term(b)
            if t['k'] == 'switch':
                n_sw += 1
                d = derives(P, is_eff, t['op'])
                for r in d.roots:
                    if not (r[0] == 'const' or (r[0] == 'arg' and r[1] == 1)):
                        bad_roots.add(str(r))
        rets = {src[1].get('v') for src in sources(is_eff, 0) if src[0] == 'const'}
        rep.add('LIN-3/thresholds-constant', is_eff.path, n_sw >= 2 and not bad_roots and rets == {0, 1}, where=is_eff.loc, cfg=cfg,
                detail=f"{n_sw} branch conditions, all derived from constants and self" + (f"; foreign inputs {sorted(bad_roots)}" if bad_roots else '')
                + f"; returns {sorted(rets)}")
        # (c) update() called only from Pre::find, on every path
        callers = set()
        for inst in P.local_instances():
            if inst.has_body:
                for b, t in inst.calls():
                    if t['callee'].get('path') == upd.path:
                        callers.add(inst.path)
        rep.add('LIN-3/update-only-from-Pre::find', upd.path, callers == {pre_find.path}, where=upd.loc, cfg=cfg,
                detail=f"callers of update(): {sorted(callers)}")
        pd = pre_find.ipdom_sets()
        upd_blocks = [b for b, t in pre_find.calls() if t['callee'].get('path') == upd.path]
        always = any(ub in pd.get(0, set()) for ub in upd_blocks)
        rep.add('LIN-3/update-on-every-path', pre_find.path, always, where=pre_find.loc, cfg=cfg,
                detail='update() post-dominates the entry of Pre::find' if always else 'a path through Pre::find skips update()')
        # (d) every Pre::find in Two-Way is under is_effective()
        n_pf = 0
        for inst in P.find(r'^arch::all::twoway::'):
            if not inst.has_body:
                continue
            for b, t in inst.calls():
                if t['callee'].get('path') != pre_find.path:
                    continue
                n_pf += 1
                ok = False
                for (sb, kind, value, tt) in dominating_edges(inst, b):
                    cond = bool_condition(inst, sb)
                    if cond and cond[0] == 'call' and cond[1]['callee'].get('path', '').endswith("Pre::<'a>::is_effective") and edge_truth(kind, value):
                        ok = True
                rep.add('LIN-3/prefilter-consults-state', f"{inst.path} -> Pre::find", ok, where=t['loc'], cfg=cfg,
                        detail='dominated by the true edge of Pre::is_effective()' if ok else 'prefilter called without consulting the adaptive state')
        rep.floor(f'prefilter-call-sites[{cfg}]', n_pf, 2)
    if len(set(caps.values())) > 1:
        rep.add('LIN-1/cap-same-in-all-configs', 'do_packed_search', False, detail=f"different caps per configuration: {caps}")
    else:
        rep.add('LIN-1/cap-same-in-all-configs', 'do_packed_search', True, detail=f"{caps}", nontrivial=False)
    rep.extra['configs'] = cfgs
    rep.extra['length_cap'] = caps
    # ---------------- LIN-4 (from the E2 engine, debug configurations): the two relations the linear-work argument uses
    #   * the large-period Two-Way shift is at least half the needle (a failed left part moves >= len/2)
    #   * a memcmp-confirming vector searcher is only ever built for needles whose length a constant caps (32 today)
    from . import e2common
    sites, _, errs = e2common.root_table(ctx, cfgs, r'^arch::all::twoway::(Finder|FinderRev)::new$|^memmem::FinderBuilder::build_forward_with_ranker', ('REL-POST',))
    for cfg_, root_, err_ in errs:
        rep.add('E2-ROOT', root_, False, cfg=cfg_, detail=err_.splitlines()[0][:300])
    n4 = 0
    for (kind, path, role), s_ in sorted(sites.items()):
        if '2 * shift >= needle.len()' in role or 'is capped by a constant' in role:
            n4 += 1
            det = s_['detail'] if s_['ok'] else '; '.join(f"[{c}] root {r} ({v}): {d}" for c, r, v, d in s_['fail'][:2])
            rep.add('LIN-4/' + kind, f"{path}|{role}", s_['ok'], where=s_['loc'], cfg=','.join(sorted(s_['cfgs'])), detail=(det or '')[:500])
    rep.floor('LIN-4-sites', n4, 3)
    # ---------------- LIN-5 (E2): the suffix scans of Two-Way's preprocessing do linear work -- a potential function that
    # strictly increases per iteration and is bounded by 3 * needle.len()
    rsites, _, rerrs = e2common.root_table(ctx, cfgs, r'^arch::all::twoway::(Finder|FinderRev)::new$', ('SUFFIX-RANK',))
    for cfg_, root_, err_ in rerrs:
        rep.add('E2-ROOT', root_, False, cfg=cfg_, detail=err_.splitlines()[0][:300])
    n5 = 0
    for (kind, path, role), s_ in sorted(rsites.items()):
        n5 += 1
        det = s_['detail'] if s_['ok'] else '; '.join(f"[{c}] root {r} ({v}): {d}" for c, r, v, d in s_['fail'][:2])
        rep.add('LIN-5/' + kind, f"{path}|{role}", s_['ok'], where=s_['loc'], cfg=','.join(sorted(s_['cfgs'])), detail=(det or '')[:500])
    rep.floor('LIN-5-sites', n5, 2)
    return rep
