"""C14 -- no panic, abort or arithmetic overflow on any input in the documented domain.

Decided by the E2 abstract interpreter in the DEBUG configurations (debug assertions and
overflow checks compiled in, so every `debug_assert!`, every `+ - * <<` overflow check,
every bounds / slice-range check, `unwrap`, `assert!` ... is a diverging edge in the MIR):
every public entry point is interpreted with arbitrary arguments of its types (public
`unsafe fn`s under their `# Safety` contracts, the substring building blocks under the
documented "needle must be the one given to the constructor" relation -- mcai/mm.py), and

  PANIC      every diverging edge is unreachable: its guard is entailed by the linear store,
             loop invariants being inferred (Houdini) and re-checked
  REL-PRE    wherever one public function calls another one that is analysed on its own, the
             callee's documented precondition / searcher-needle relation holds at the call
  REL-POST   every constructor establishes the relation it is assumed to have established
             (two-way critical position and shift within the needle, pair offsets distinct and
             inside the needle, min_haystack_len, iterator windows, index results in range)
  DOC-PANIC  the one documented panic: packed-pair `find` / `find_prefilter` are analysed on
             BOTH sides of `haystack.len() >= min_haystack_len()`: inside the domain the
             `assert!` is unreachable like every other panic; outside it there is no normal
             return and the only reachable panic is that `assert!` (exactness)
  SPEC-POST  the public getter min_haystack_len() returns the value that DOC-PANIC's domain is stated in
  NO-ABORT   no call of abort/exit is reachable from a public entry point

Not decided here (stated, not claimed): termination (an endless loop also "does not return
normally"); allocation failure; panics inside user-supplied `HeuristicFrequencyRank` impls;
and the site of LEMMAS below, whose safety needs reasoning outside the linear domain.  (The two-way
reverse searchers' `pos -= critical_pos - i + 1` at i == 0 is decided through the EQ ghost: i reaches 0 only
via `needle[0] == haystack[pos - nlen]`, which refutes the other disjunct of the branch.)"""
import re
from ..report import Report
from . import e2common

PID = 'C14'
KINDS = ('PANIC', 'REL-PRE', 'REL-POST', 'DOC-PANIC')

# the documented panic (class D): generic packed-pair find / find_prefilter `assert!(haystack.len() >= min_haystack_len)`
DOC_SITE = re.compile(r'^arch::generic::packedpair::Finder::<V>::(find|find_prefilter)$')

# Obligations the engine cannot decide, with the pen-and-paper reason (class U).  Keyed by
# (function, role) with the NUMBER of such sites: one more undecided site of the same role in the
# same function is reported.
LEMMAS = {
    ('arch::all::shiftor::Finder::find', 'overflow:Sub'): (
        1, "`i + 1 - self.needle_len` runs only when bit `needle_len` of `result` is clear; bit k of `result` can only be "
           "cleared after k shifts (bit 0 is the only bit cleared by `!1`, each step moves it up by one), so i + 1 >= needle_len: "
           "a bit-vector invariant, outside the linear domain"),
}

FLOORS = {'PANIC': 120, 'REL-PRE': 80, 'REL-POST': 400, 'DOC-PANIC': 4}   # counted on the pinned tree (quick tier): 132 / 108 / 538 / 6
ABORT = re.compile(r'(^|::)(abort|exit)$')


def run(ctx):
    rep = Report(PID, 'proof',
                 'E2 abstract interpretation of every public entry point over the monomorphic MIR of the DEBUG configurations '
                 '(overflow checks and debug assertions are diverging edges there): symbolic slices of unconstrained address, '
                 'length and contents, arbitrary finder values satisfying the type invariants, the documented needle/finder relation '
                 'for the substring building blocks; every diverging edge must be refuted by the exact linear-integer store under '
                 'inferred, re-checked loop invariants; calls between public functions are assume-guarantee steps whose two halves '
                 '(REL-PRE at the call, REL-POST at the constructor root) are both obligations; the documented packed-pair panic is '
                 'analysed on both sides of its condition.',
                 trusted_base=['rustc nightly MIR (mir-opt-level=0, debug-assertions on, overflow-checks on) as exported by mcsa',
                               'mcai E2 engine (lin/loops/interp/models) and the relation table mcai/mm.py',
                               'axioms about alloc: Box<[u8]>::from(&[u8]) and Box<[u8]>::clone preserve the length'],
                 assumptions=['termination is not decided', 'allocation failure and panics inside user HeuristicFrequencyRank impls are out of scope']
                 + [f"LEMMA (undecided, trusted) {k[0]} [{k[1]}] x{v[0]}: {v[1]}" for k, v in sorted(LEMMAS.items())])
    from .. import configs as _c
    cfgs = ctx.cfgs(quick=['x64-std', 'a64'], thorough=list(_c.ALL))
    sites, errors, stats = e2common.site_table(ctx, cfgs, KINDS)
    for cfg, root, err in errors:
        rep.add('E2-ROOT', root, False, cfg=cfg, detail=err.splitlines()[0][:300])
    per_kind = {}
    lemma_hits = {}
    doc_reached = {}
    agg = {}
    for (kind, path, role, loc), s in sorted(sites.items()):
        fails = list(s['fail'])
        if kind == 'PANIC' and DOC_SITE.match(path) and 'assert!' in (s.get('macros') or [role]) and role == 'assert!':
            # documented panic: must be reachable ONLY outside the domain
            inside = [f for f in fails if not f[2].endswith('|out-of-domain')]
            outside = [f for f in fails if f[2].endswith('|out-of-domain')]
            for f in outside:
                doc_reached.setdefault((path, f[0]), 0)
                doc_reached[(path, f[0])] += 1
            fails = inside
        key = (kind, path, role)
        if kind == 'PANIC' and fails and (path, role) in LEMMAS:
            lemma_hits.setdefault((path, role), set()).add(loc)
            fails = []
        a = agg.setdefault(key, {'ok': True, 'n': 0, 'cfgs': set(), 'fail': [], 'loc': loc, 'detail': s['detail']})
        a['n'] += s['n']
        a['cfgs'] |= s['cfgs']
        if fails:
            a['ok'] = False
            a['fail'] += fails
            a['loc'] = loc
    for (kind, path, role), a in sorted(agg.items()):
        if (path, role) in lemma_hits and a['ok'] and kind == 'PANIC':
            # every instance of this role in the function is either proved or covered by the lemma
            pass
        per_kind[kind] = per_kind.get(kind, 0) + 1
        det = a['detail'] if a['ok'] else '; '.join(f"[{c}] root {r} ({v}): {d}" for c, r, v, d in a['fail'][:2])
        rep.add(kind, f"{path}|{role}", a['ok'], where=a['loc'], cfg=','.join(sorted(a['cfgs'])), detail=(det or '')[:600])
    # lemma sites: exactly as many undecided sites as were triaged by hand
    for (path, role), locs in sorted(lemma_hits.items()):
        n_allowed = LEMMAS[(path, role)][0]
        ok = len(locs) <= n_allowed
        rep.add('LEMMA-SCOPE', f"{path}|{role}", ok, where=sorted(locs)[0],
                detail=f"{len(locs)} undecided site(s) {sorted(locs)}; the recorded lemma covers {n_allowed}", nontrivial=False)
    rep.notes += [f"undecided, covered by lemma: {p} [{r}] at {sorted(l)}" for (p, r), l in sorted(lemma_hits.items())]
    # exactness of the documented panic: reachable outside the domain in every configuration that has the function
    doc_cfgs = {}
    for (kind, path, role, loc), s in sites.items():
        if kind == 'PANIC' and DOC_SITE.match(path) and role == 'assert!':
            for c in s['cfgs']:
                doc_cfgs.setdefault(path, set()).add(c)
    for path, cs in sorted(doc_cfgs.items()):
        for c in sorted(cs):
            ok = doc_reached.get((path, c), 0) > 0
            rep.add('DOC-PANIC-SITE', f"{path}|the documented assert! is what fires outside the domain", ok, cfg=c,
                    detail='' if ok else 'the documented assert! is not reachable when haystack.len() < min_haystack_len()')
    # the domain of the documented panic is stated in terms of the PUBLIC getter: min_haystack_len() must return the very
    # value the two-sided analysis above used (the stored minimum of the finder's first vector half)
    gsites, _, gerrs = e2common.root_table(ctx, cfgs, r'::packedpair::Finder::min_haystack_len$', ('SPEC-POST',))
    for cfg_, root_, err_ in gerrs:
        rep.add('E2-ROOT', root_, False, cfg=cfg_, detail=err_.splitlines()[0][:300])
    pk_g = e2common.emit(rep, gsites, [])
    rep.floor('min_haystack_len-getters', pk_g.get('SPEC-POST', 0), 1)
    # NO-ABORT
    from .. import e2all
    for cfg in cfgs:
        P = ctx.prog(cfg)
        roots = e2all.public_roots(P)
        seen = P.reachable_from(roots, stop=lambda k: not (P.instances.get(k) is not None and P.instances[k].krate == 'memchr'))
        bad = []
        n_calls = 0
        for k in seen:
            inst = P.instances.get(k)
            if inst is None or not inst.has_body or inst.krate != 'memchr':
                continue
            for b, t in inst.calls():
                n_calls += 1
                p = t['callee'].get('path') or ''
                if ABORT.search(p.split('::<')[0]):
                    bad.append(f"{inst.path} calls {p} at {t['loc']}")
        rep.add('NO-ABORT', 'no abort/exit call reachable from a public entry point', not bad, cfg=cfg,
                detail=('; '.join(bad[:3]) if bad else f'{n_calls} call sites in {len(seen)} reachable functions examined'))
    for k, fl in FLOORS.items():
        rep.floor(f'sites-{k}', per_kind.get(k, 0), fl)
    rep.extra.update({'configs': cfgs, 'roots': stats['roots'], 'variants': stats['variants'], 'loops': stats['loops'],
                      'invariants_kept': stats['invariants'], 'cut_calls': stats['cuts'], 'sites_by_kind': per_kind,
                      'obligation_instances': stats['obligations'], 'lemmas': {f"{k[0]}|{k[1]}": v[0] for k, v in LEMMAS.items()},
                      'engine_wall_s': round(stats['time'], 1)})
    return rep
