"""LANE-LAW obligations (E6, mcai/lanes.py): the vector axioms the E2/E3 proofs are relative to, decided per
backend from the MIR of src/vector.rs by a bit-provenance dataflow.  Shared by C01/C02/C07/C09/C11: each takes
the laws its own argument uses."""
from .. import lanes

SUBSETS = {
    'C01': ('V.splat', 'V.load_aligned', 'V.load_unaligned', 'V.cmpeq', 'V.or', 'V.movemask', 'V.movemask_will_have_non_zero',
            'M.has_non_zero', 'M.or', 'M.first_offset', 'S.has_zero_byte', 'S.splat'),
    'C02': ('V.splat', 'V.load_aligned', 'V.load_unaligned', 'V.cmpeq', 'V.or', 'V.movemask', 'V.movemask_will_have_non_zero',
            'M.has_non_zero', 'M.or', 'M.last_offset', 'S.has_zero_byte', 'S.splat'),
    'C07': ('V.splat', 'V.load_aligned', 'V.load_unaligned', 'V.cmpeq', 'V.movemask', 'M.count_ones'),
    'C11': ('V.splat', 'V.load_unaligned', 'V.cmpeq', 'V.and', 'V.movemask', 'M.has_non_zero', 'M.and', 'M.first_offset',
            'M.clear_least_significant_bit', 'M.all_zeros_except_least_significant'),
    'C09': tuple(lanes.LAW_TEXT),
}
# laws enumerated per configuration family on the pinned tree (counted by hand: 8 Vector + 8 MoveMask methods per vector type)
EXPECTED = (('x64', 32), ('a64', 16), ('wasm', 16), ('i686', 0), ('s390x', 0))


def expected(cfg):
    return next(v for k, v in EXPECTED if cfg.startswith(k))


def emit(rep, ctx, cfgs, pid):
    want = set(SUBSETS[pid])
    merged, undecided, info_all = {}, [], {}
    for cfg in cfgs:
        P = ctx.prog(cfg)
        res, info = lanes.check_config(P.d)
        info_all[cfg] = info
        rep.floor(f'lane-laws-enumerated[{cfg}]', len(res), expected(cfg))
        for r in res:
            if r.law not in want:
                continue
            m = merged.setdefault((r.law, r.impl), {'ok': [], 'bad': [], 'unk': [], 'badc': [], 'unkc': [], 'loc': r.loc})
            if r.ok is False:
                m['bad'].append(f'[{cfg}] {r.detail}')
                m['badc'].append(cfg)
                m['loc'] = r.loc
            elif r.ok is None:
                m['unk'].append(f'[{cfg}] {r.detail}')
                m['unkc'].append(cfg)
            else:
                m['ok'].append(cfg)
    n_dec = 0
    for (law, impl), m in sorted(merged.items()):
        key = f'{law}|{impl}'
        text = lanes.LAW_TEXT[law]
        if m['bad']:
            rep.add('LANE-LAW', key, False, where=m['loc'], cfg=','.join(m['badc']), detail=f"{text}: " + '; '.join(m['bad'][:2]))
        elif m['ok']:
            n_dec += 1
            rep.add('LANE-LAW', key, True, where=m['loc'], cfg=','.join(m['ok']), detail=text)
        if m['unk']:
            undecided.append({'law': key, 'configs': m['unkc'], 'why': m['unk'][:2]})
            rep.add('LANE-LAW-UNDECIDED', key, True, where=m['loc'], cfg=','.join(m['unkc']), nontrivial=False,
                    detail=f"NOT DECIDED (no alarm): {text}: " + '; '.join(m['unk'][:2]))
    rep.extra['lane_laws'] = {'decided': n_dec, 'undecided': undecided,
                              'per_config': {c: {'vector_impls': i['vector_impls'], 'transfer_functions_used': i['transfer_functions_used'],
                                                 'operations_without_transfer_function': i['unknown_ops']} for c, i in info_all.items()}}
    if undecided:
        rep.notes.append(f"{len(undecided)} lane law(s) could not be decided (an operation in src/vector.rs has no transfer function in mcai/lanes.py); "
                         "they are listed under lane_laws.undecided and are not counted as held")
    return n_dec
