"""C08 -- substring iterators yield the greedy non-overlapping match sequence.

Transfer obligations of the iterator induction (the induction itself -- "the yielded sequence is: leftmost occurrence
in haystack[pos..], resume at match + max(len, 1)" -- is by hand, and is only as good as C03/C04 for the underlying
search).  E2 on FindIter / FindRevIter with an arbitrary iterator value (window invariant only) per searcher kind:

  IT-TRANSFER  next (fwd): None leaves pos unchanged; Some(i) => pos <= i, i + needle.len() <= haystack.len(),
               pos' = i + max(needle.len(), 1)
               next (rev): None leaves pos unchanged; Some(i) => i + needle.len() <= pos; i < pos => pos' = Some(i);
               i == pos (empty needle) => pos' = pos.checked_sub(1)  (so offset 0 is yielded once, then None forever)
  SIZE-HINT    exhausted (pos > len) => (0, Some(0)); empty needle => both bounds len - pos + 1; otherwise lower 0
               and upper floor((len - pos) / needle.len()) -- the exact maximum of non-overlapping matches
  SPEC-POST    find_iter / rfind_iter start at pos = 0 / Some(len) on the haystack given; into_owned keeps haystack,
               position and needle length
  REL-POST / TYINV  the iterator's finder relation and window invariant (Some(p) => p <= len) hold at every exit
  MEMO         the shift-memory discipline inside the inlined small-period Two-Way (state carried across next() calls
               is only the prefilter-effectiveness counters: C10)"""
from . import c03

PID = 'C08'
ROOTS = (r"^<memmem::(FindIter|FindRevIter)<.*> as core::iter::Iterator>::(next|size_hint)$|^memmem::(FindIter|FindRevIter)::<.*>::into_owned$"
         r"|^memmem::r?find_iter(::<.*>)?$|^memmem::Finder::<.*>::find_iter$|^memmem::FinderRev::<.*>::rfind_iter$")
KINDS = ('IT-TRANSFER', 'SIZE-HINT', 'SPEC-POST', 'REL-POST', 'REL-PRE', 'TYINV', 'MEMO')
FLOORS = {'IT-TRANSFER': 10, 'SIZE-HINT': 3, 'SPEC-POST': 8, 'REL-POST': 20}


def run(ctx):
    return c03.run(ctx, pid=PID, roots=ROOTS, kinds=KINDS, floors=FLOORS, what='iterator', min_roots=7)   # 7 in no-alloc configurations (no into_owned)
