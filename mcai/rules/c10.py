"""C10 -- performance heuristics never change search results.

Decided here (each a necessary condition; the semantic core -- a correct
prefilter plus full re-verification gives the same result -- rests on C11
for the prefilters and on Two-Way's correctness, which is undecided):

 TAINT-R   the frequency ranker is consulted only at construction time (no
           function reachable from a search entry reaches `rank`), and a rank
           value never becomes data: no aggregate or return value in the crate
           derives from a `rank()` result (it only feeds comparisons).
 TAINT-P   PrefilterConfig is read only through is_none(); its value decides
           only between "Two-Way" and "Two-Way + prefilter": no packed-pair
           searcher kind is constructed under either edge of that test.
 PRE-REGION in Two-Way's forward search loops, code controlled by
           `pre.is_effective()` never returns Some(..): every reported match
           goes through the same verification code as without a prefilter;
           and after the prefilter moved `pos`, the window bound is re-checked
           before the haystack is indexed.
 SHIFT-PAIR in the small-period loop every assignment to `pos` is followed,
           on every path back to the loop head, by an assignment to `shift`
           (Two-Way's memory of an already-matched prefix is only valid for
           the position it was computed for), and `shift` is set to a
           non-zero value only where `pos` advanced by `period`.
 PRE-ADAPT  = LIN-3 of C13 (adaptive shut-off consulted before every
           prefilter call)."""
import re
from ..report import Report
from .. import derive
from ..prog import sources, uses, dominating_edges, edge_truth, bool_condition

PID = 'C10'

RANK = re.compile(r'HeuristicFrequencyRank>::rank$')
SEARCH_ROOTS = [r'^memmem::searcher::Searcher::find$', r'^memmem::searcher::SearcherRev::rfind$',
                r"^<memmem::FindIter<'_, '_> as core::iter::Iterator>::next$",
                r"^<memmem::FindRevIter<'_, '_> as core::iter::Iterator>::next$",
                r"^memmem::Finder::<'_>::find$", r"^memmem::FinderRev::<'_>::rfind::<&\[u8\]>$"]


def user_locals(inst, name):
    return set(inst.local_named(name))


def assigns_local(inst, b, locals_, start=0):
    """index of first statement in block b (from `start`) that assigns one of locals_ (whole), or call dest"""
    blk = inst.blocks[b]
    for i in range(start, len(blk['stmts'])):
        s = blk['stmts'][i]
        if s['k'] == 'assign' and not s['p']['pr'] and s['p']['l'] in locals_:
            return i
    t = blk['term']
    if t['k'] == 'call' and not t['dest']['pr'] and t['dest']['l'] in locals_:
        return len(blk['stmts'])
    return None


def assigned_just_before(inst, b, i, locals_, limit=16):
    """is one of locals_ assigned on the straight-line chain ending right before statement i of block b, with no
    read of it in between?  (walks back through blocks that have a single non-cleanup predecessor)"""
    from ..prog import rv_operands, rv_places

    def reads(s):
        if s['k'] != 'assign':
            return False
        return any(o['k'] in ('copy', 'move') and o['p']['l'] in locals_ for o in rv_operands(s['rv'])) or \
            any(p['l'] in locals_ for p in rv_places(s['rv']))
    cur, idx = b, i
    for _ in range(limit):
        stmts = inst.blocks[cur]['stmts']
        for k in range(idx - 1, -1, -1):
            s = stmts[k]
            if s['k'] == 'assign' and not s['p']['pr'] and s['p']['l'] in locals_:
                return True
            if reads(s):
                return False
        ps = [p for p in inst.pred(cur) if not inst.blocks[p].get('cleanup')]
        if len(ps) != 1:
            return False
        p = ps[0]
        t = inst.term(p)
        if t['k'] == 'switch':
            return False
        if t['k'] == 'call':
            if not t['dest']['pr'] and t['dest']['l'] in locals_:
                return True
            if any(a['k'] in ('copy', 'move') and a['p']['l'] in locals_ for a in t['args']):
                return False
        cur, idx = p, len(inst.blocks[p]['stmts'])
    return False


def reads_local(inst, b, locals_, start=0):
    """index of the first statement (from `start`) in block b that reads one of locals_
    (as an operand or through a borrow); terminator counts as len(stmts)"""
    blk = inst.blocks[b]

    def op_reads(o):
        return o['k'] in ('copy', 'move') and o['p']['l'] in locals_

    for i in range(start, len(blk['stmts'])):
        s = blk['stmts'][i]
        if s['k'] != 'assign':
            continue
        rv = s['rv']
        from ..prog import rv_operands, rv_places
        if any(op_reads(o) for o in rv_operands(rv)) or any(p['l'] in locals_ for p in rv_places(rv)):
            return i
    t = blk['term']
    n = len(blk['stmts'])
    if t['k'] == 'call' and any(op_reads(a) for a in t['args']):
        return n
    if t['k'] == 'switch' and op_reads(t['op']):
        return n
    if t['k'] == 'assert' and op_reads(t['cond']):
        return n
    return None


def run(ctx):
    rep = Report(PID, 'other',
                 'TAINT-R/TAINT-P (heuristic inputs are confined: ranker only at construction and only in comparisons; '
                 'prefilter config only selects Two-Way with/without prefilter), PRE-REGION and SHIFT-PAIR (structure of '
                 'the Two-Way forward loops: no match is reported from prefilter-controlled code, window bound re-checked, '
                 'Two-Way memory reset whenever the position changes by anything but the period), PRE-ADAPT. Decided by '
                 'call-graph reachability, derived-from dataflow, dominance and path queries on MIR. Does NOT decide that '
                 'Two-Way itself is correct (see DESIGN section 7) nor that prefilters are complete (C11).',
                 trusted_base=['rustc nightly MIR + debug info (user variable names pos/shift)', 'mcsa exporter', 'mcai dominance/path queries'],
                 assumptions=['C11: prefilters never skip a match', 'Two-Way correctness (critical factorisation) is not decided'])
    cfgs = ctx.cfgs(quick=['x64-std', 'a64'])
    from . import c13
    for cfg in cfgs:
        P = ctx.prog(cfg)
        # ---------------- TAINT-R
        rank_insts = [k for k, i in P.instances.items() if RANK.search(k) or RANK.search(i.path)]
        rep.add('TAINT-R/anchor', f'rank instances [{cfg}]', len(rank_insts) >= 1, cfg=cfg, nontrivial=False,
                detail=f"{len(rank_insts)} instance(s) of HeuristicFrequencyRank::rank")
        roots = []
        for rx in SEARCH_ROOTS:
            xs = P.find(rx)
            if not xs:
                rep.anchor_missing(f'search root {rx}', cfg)
            roots += [x.key for x in xs]
        seen = P.reachable_from(roots)
        hit = [k for k in seen if k in rank_insts]
        rep.add('TAINT-R/ranker-only-at-construction', f'search entry points [{cfg}]', not hit, cfg=cfg,
                detail=('search-time code reaches the ranker: ' + ' -> '.join(P.chain(seen, hit[0]))) if hit else
                f"{len(seen)} instances reachable from {len(roots)} search roots, none is rank()")
        n_rank_callers = 0
        for inst in P.local_instances():
            if not inst.has_body:
                continue
            calls_rank = [t for b, t in inst.calls() if RANK.search(t['callee'].get('inst', '') or '') or RANK.search(t['callee'].get('path', ''))]
            if not calls_rank or RANK.search(inst.path):
                continue
            n_rank_callers += 1
            bad = []
            for b, i, s in inst.stmts():
                if s['k'] == 'assign' and s['rv']['k'] == 'agg':
                    for o in s['rv']['ops']:
                        d = derive.derives(P, inst, o)
                        if any(RANK.search(v) for v in d.via):
                            bad.append(s['loc'])
            d0 = derive.derives(P, inst, 0)
            if any(RANK.search(v) for v in d0.via) and not d0.computed:
                bad.append('return value')
            rep.add('TAINT-R/rank-never-becomes-data', inst.key, not bad, where=inst.loc, cfg=cfg,
                    detail=f"a rank() result flows into stored/returned data at {bad}" if bad else
                    'rank() results feed comparisons only')
        rep.floor(f'rank-callers[{cfg}]', n_rank_callers, 2)
        # ---------------- TAINT-P
        for inst in P.find(r'^memmem::searcher::Searcher::new::<'):
            if not inst.has_body:
                continue
            # arg1 = prefilter config
            pt = P.types[inst.locals[1]]
            if pt.get('path') != 'memmem::searcher::PrefilterConfig':
                rep.anchor_missing('Searcher::new first parameter of type PrefilterConfig', cfg)
                continue
            bad_uses = []
            isnone_switch_blocks = []
            for (b, role, node) in uses(inst, 1):
                if role == 'borrow' and node['k'] == 'assign' and not node['p']['pr']:
                    # the borrowed ref must only be passed to is_none
                    for (b2, role2, node2) in uses(inst, node['p']['l']):
                        if role2 == 'arg0' and node2['callee'].get('path', '').endswith('PrefilterConfig::is_none'):
                            dl = node2['dest']['l']
                            for (b3, role3, node3) in uses(inst, dl):
                                if role3 == 'switch':
                                    isnone_switch_blocks.append(b3)
                                else:
                                    bad_uses.append(f"is_none() result used as {role3}")
                        else:
                            bad_uses.append(f"&prefilter used as {role2} of {node2.get('k')} {node2.get('callee', {}).get('path', '')}")
                else:
                    bad_uses.append(f"prefilter used as {role}")
            rep.add('TAINT-P/config-only-through-is_none', inst.path, not bad_uses and len(isnone_switch_blocks) >= 1, where=inst.loc, cfg=cfg,
                    detail='; '.join(bad_uses) or f"{len(isnone_switch_blocks)} is_none() test(s), results only branch")
            # no packed kind / non-twoway construction under those switches
            bad = []
            for sb in isnone_switch_blocks:
                for tgt in inst.succ(sb):
                    if inst.pred(tgt) != [sb]:
                        continue
                    region = {x for x in inst.rpo() if inst.dominates(tgt, x)}
                    for x in region:
                        for s in inst.blocks[x]['stmts']:
                            if s['k'] == 'assign' and s['rv']['k'] == 'agg' and s['rv'].get('path') in ('memmem::searcher::SearcherKind', 'memmem::searcher::Searcher'):
                                bad.append(s['loc'])
            rep.add('TAINT-P/config-selects-only-twoway-variants', inst.path, not bad, where=inst.loc, cfg=cfg,
                    detail=f"searcher kinds constructed under the prefilter-config test at {bad}" if bad else
                    'both edges of every is_none() test only call Searcher::twoway / Prefilter constructors')
        # ---------------- PRE-REGION and SHIFT-PAIR
        for fname in ('find_small_imp', 'find_large_imp'):
            try:
                inst = P.one(rf'^arch::all::twoway::Finder::{fname}$')
            except KeyError as e:
                rep.anchor_missing(str(e), cfg)
                continue
            from .. import mm as _mm
            roles = _mm.memo_roles(inst) if fname == 'find_small_imp' else None
            pos = {roles['pos']} if roles else user_locals(inst, 'pos')
            if not pos:
                # (large-period loop: the one integer local that is updated from its own previous value)
                r2 = _mm._memo_roles(inst)
                pos = {r2['pos']} if r2 else set()
            if not pos:
                rep.anchor_missing(f'the position variable of {fname}', cfg)
                continue
            # region controlled by is_effective()
            region = set()
            for sb in inst.rpo():
                cond = bool_condition(inst, sb) if inst.term(sb)['k'] == 'switch' else None
                if cond and cond[0] == 'call' and 'is_effective' in cond[1]['callee'].get('path', ''):
                    t = inst.term(sb)
                    for tgt in inst.succ(sb):
                        if inst.pred(tgt) == [sb]:
                            kind = [('case', v) for v, tt in t['cases'] if tt == tgt] or [('otherwise', [v for v, _ in t['cases']])]
                            if edge_truth(kind[0][0], kind[0][1]):
                                # blocks dominated by tgt, up to the join: blocks dominated by tgt
                                region |= {x for x in inst.rpo() if inst.dominates(tgt, x)}
            if not region:
                rep.anchor_missing(f'is_effective()-controlled region in {fname}', cfg)
                continue
            some_in_region = []
            bound_recheck = False
            for x in region:
                for s in inst.blocks[x]['stmts']:
                    if s['k'] == 'assign' and s['p']['l'] == 0 and s['rv']['k'] == 'agg' and s['rv'].get('ak') == 'adt' \
                            and s['rv']['path'] == 'core::option::Option' and s['rv']['variant'] == 1:
                        some_in_region.append(s['loc'])
                t = inst.term(x)
                if t['k'] == 'switch':
                    c = bool_condition(inst, x)
                    if c and c[0] == 'cmp' and c[1] in ('Gt', 'Ge', 'Lt', 'Le'):
                        bound_recheck = True
            rep.add('PRE-REGION/no-match-reported-from-prefilter-code', f"twoway::Finder::{fname}", not some_in_region, where=inst.loc, cfg=cfg,
                    detail=f"Some(..) returned from prefilter-controlled code at {some_in_region}" if some_in_region else
                    f"{len(region)} block(s) controlled by is_effective(); none assigns Some to the return place")
            rep.add('PRE-REGION/window-bound-rechecked', f"twoway::Finder::{fname}", bound_recheck, where=inst.loc, cfg=cfg,
                    detail='a comparison guards the window after the prefilter moved pos' if bound_recheck else
                    'no bound re-check after `pos += pre.find(..)` (window may exceed the haystack)')
            if fname != 'find_small_imp':
                continue
            shift = {roles['shift']} if roles else user_locals(inst, 'shift')
            if not shift:
                rep.anchor_missing('the shift-memory variable of find_small_imp', cfg)
                continue
            loops = inst.natural_loops()
            # outermost loop containing a pos assignment
            n_pos_assign = 0
            for b in inst.rpo():
                blk = inst.blocks[b]
                for i, s in enumerate(blk['stmts']):
                    if not (s['k'] == 'assign' and not s['p']['pr'] and s['p']['l'] in pos):
                        continue
                    heads = [h for h, body in loops.items() if b in body]
                    if not heads:
                        continue   # initialisation before the loop
                    head = max(heads, key=lambda h: len(loops[h]))
                    n_pos_assign += 1
                    # forward search (within the loop, around the back edge too) for a
                    # path that READS `shift` before re-assigning it
                    ok, where_read = True, None
                    r0 = reads_local(inst, b, shift, i + 1)
                    a0 = assigns_local(inst, b, shift, i + 1)
                    if assigned_just_before(inst, b, i, shift):
                        pass        # `shift = ..; pos += ..` in this order: the same pairing, written the other way round
                    elif r0 is not None and (a0 is None or r0 <= a0):
                        ok, where_read = False, b
                    elif a0 is None:
                        stack, seen = list(inst.succ(b)), set()
                        while stack and ok:
                            x = stack.pop()
                            if x in seen or x not in loops[head]:
                                continue
                            seen.add(x)
                            r = reads_local(inst, x, shift)
                            a = assigns_local(inst, x, shift)
                            if r is not None and (a is None or r <= a):
                                ok, where_read = False, x
                                break
                            if a is not None:
                                continue
                            stack.extend(inst.succ(x))
                    rep.add('SHIFT-PAIR/pos-change-resets-memory', f"find_small_imp pos-assignment#{n_pos_assign}", ok, where=s['loc'], cfg=cfg,
                            detail='`shift` is re-assigned before it is read again on every path' if ok else
                            f"`pos` changes and bb{where_read} then reads the old `shift` (stale Two-Way memory: a prefix is assumed matched at a position it was not verified for)")
            rep.floor(f'pos-assignments-in-small-loop[{cfg}]', n_pos_assign, 4)
            # "non-zero memory only right after a move by `period`, and at most len - period of it" is the MEMO transfer
            # obligation of the E2 engine (decided per back edge from the abstract state: independent of statement order)
        # ---------------- PRE-ADAPT (shared with C13 LIN-3) -- re-run those obligations here
    from . import e2common
    msites, _, merrs = e2common.root_table(ctx, cfgs, r'^arch::all::twoway::(Finder::find|FinderRev::rfind)$|^memmem::Finder::<.*>::find$', ('MEMO',))
    for cfg_, root_, err_ in merrs:
        rep.add('E2-ROOT', root_, False, cfg=cfg_, detail=err_.splitlines()[0][:300])
    pk = e2common.emit(rep, msites, [])
    rep.floor('MEMO-sites', pk.get('MEMO', 0), 2)
    sub = c13.run(ctx)
    for o in sub.obs:
        if o.rule.startswith('LIN-3'):
            rep.add('PRE-ADAPT/' + o.rule[6:], o.key, o.ok, where=o.where, cfg=o.cfg, detail=o.detail)
    rep.extra['configs'] = cfgs
    return rep
