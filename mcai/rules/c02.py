"""C02 -- reverse byte search returns exactly the last matching position (mirror image of C01:
ghost `lo[n]` = start of the contiguous suffix proved free of needle n; last_offset; POST-LAST)."""
from . import c01

PID = 'C02'
ROOTS = (r'^memchr::memrchr[23]?$|^arch::(all|x86_64::sse2|x86_64::avx2|aarch64::neon|wasm32::simd128)::memchr::(One|Two|Three)::(rfind|rfind_raw)$')
KINDS = ('POST', 'POST-NONE', 'POST-RANGE', 'POST-MATCH', 'POST-LAST', 'AXIOM-PRE')


def run(ctx):
    return c01.run(ctx, PID, ROOTS, KINDS, 'reverse')
