"""C17 -- searching performs no heap allocation.

Rule NOALLOC (call-graph reachability over the resolved, monomorphic program):
from every public entry point of the crate -- except the explicitly owning
conversions and the Shift-Or searcher, which the property exempts -- no
instance belonging to crate `alloc` (or `std` beyond CPU-feature detection)
is reachable through direct calls, function-item/closure mentions, or the
function pointers stored in the ifunc statics.  `core` cannot allocate."""
import re
from ..report import Report

PID = 'C17'

# Entry points the property itself exempts ("only the explicitly owning
# conversions (into_owned) and the Shift-Or searcher allocate"), plus Clone /
# Debug impls (cloning an *owned* finder copies its needle; not a search).
EXEMPT = [
    (re.compile(r'::into_owned$'), 'explicitly owning conversion'),
    (re.compile(r'^arch::all::shiftor::'), 'Shift-Or searcher (exempted by the property)'),
    (re.compile(r'^cow::'), 'crate-private needle storage; reached only through into_owned/clone'),
]
# Clone of the four needle-owning memmem types copies an *owned* needle.
EXEMPT_CLONE_SELF = re.compile(r'^(memmem::(Finder|FinderRev|FindIter|FindRevIter)<|cow::)')
# external subtrees that are allowed and not descended into
ALLOWED_EXTERNAL = [(re.compile(r'^std_detect::'), 'CPU feature detection cache (std)')]


def exempt(path, fact):
    for rx, why in EXEMPT:
        if rx.search(path):
            return why
    if fact.get('impl_trait') == 'core::clone::Clone' and EXEMPT_CLONE_SELF.search(fact.get('impl_self', '')):
        return 'clone of a finder/iterator that owns its needle copies the needle'
    return None


def run(ctx):
    rep = Report(PID, 'proof',
                 'NOALLOC: reachability in the resolved monomorphic call graph (direct calls + fn-item/closure '
                 'mentions + ifunc static initialisers and stores) from every public entry point except '
                 'into_owned/Shift-Or/clone-of-owning-finder to any instance of crate alloc/std. User callbacks '
                 '(AsRef, HeuristicFrequencyRank) are instantiated with [u8]/DefaultFrequencyRank and are outside the claim.',
                 trusted_base=['rustc nightly type checker, trait resolution and MIR construction',
                               'mcsa exporter: resolved callees (Instance::try_resolve) and fn-item mentions',
                               'crate core contains no allocator'],
                 assumptions=['user-supplied AsRef/HeuristicFrequencyRank implementations are not analysed',
                              'the optional `logging` feature is not analysed'])
    cfgs = ctx.cfgs(quick=['x64-std', 'a64', 'x64-core'])
    total_roots = 0
    for cfg in cfgs:
        P = ctx.prog(cfg)
        facts = P.fn_facts
        roots = []
        exempted = []
        for key in P.roots:
            inst = P.instances[key]
            f = facts.get(inst.path)
            if not f or not f.get('reachable'):
                continue
            why = exempt(inst.path, f)
            if why:
                exempted.append((inst.path, why))
                continue
            roots.append(key)
        total_roots += len(roots)
        rep.floor(f'public-entry-points[{cfg}]', len(roots), 150 if cfg.startswith('x64') else 100)

        def stop(k):
            i = P.instances[k]
            return any(rx.search(i.path) or rx.search(k) for rx, _ in ALLOWED_EXTERNAL)

        seen = P.reachable_from(roots, stop=stop)
        bad = {}
        for k in seen:
            i = P.instances[k]
            if i.krate in ('memchr', 'core'):
                continue
            if any(rx.search(i.path) or rx.search(k) for rx, _ in ALLOWED_EXTERNAL):
                continue
            bad[k] = i
        # one obligation per root: "reaches no allocating instance".  Reverse
        # reachability from the offending instances names every root.
        cg = P.callgraph()
        rev = {}
        for k in seen:
            if stop(k):
                continue
            for c in cg.get(k, ()):
                if c in seen:
                    rev.setdefault(c, []).append(k)
        reach_bad = {}
        stack = [(k, k) for k in bad]
        while stack:
            k, nxt = stack.pop()
            if k in reach_bad:
                continue
            reach_bad[k] = nxt
            for p_ in rev.get(k, ()):
                if p_ not in reach_bad:
                    stack.append((p_, k))
        for r in roots:
            inst = P.instances[r]
            if r in reach_bad:
                ch = [r]
                while ch[-1] not in bad and len(ch) < 40:
                    ch.append(reach_bad[ch[-1]])
                rep.add('NOALLOC', inst.path, False, where=inst.loc, cfg=cfg,
                        detail='reaches allocating/std code: ' + ' -> '.join(ch))
            else:
                rep.add('NOALLOC', inst.path, True, where=inst.loc, cfg=cfg)
        # positive control: the detector must see allocation where the crate
        # is known to allocate (only when the alloc feature is compiled in)
        has_alloc_feature = any(c == 'feature=alloc' for c in P.d['cfg'])
        ex_roots = [k for k in P.roots if P.instances[k].path in {p for p, _ in exempted}]
        seen2 = P.reachable_from(ex_roots, stop=stop)
        alloc_hit = sorted({P.instances[k].path for k in seen2 if P.instances[k].krate == 'alloc'})
        if has_alloc_feature:
            rep.add('NOALLOC-CONTROL', f'exempted entry points reach alloc [{cfg}]', len(alloc_hit) > 0, cfg=cfg,
                    detail=f"{len(alloc_hit)} alloc instances reachable from the exempted entry points, e.g. {alloc_hit[:3]}",
                    nontrivial=False)
        else:
            n_alloc = sum(1 for i in P.instances.values() if i.krate == 'alloc')
            rep.add('NOALLOC-NOALLOC-CRATE', f'crate alloc not linked [{cfg}]', n_alloc == 0, cfg=cfg,
                    detail=f"{n_alloc} instances of crate alloc in a build without the alloc feature", nontrivial=False)
        rep.extra.setdefault('per_config', {})[cfg] = {
            'roots': len(roots), 'exempted_entry_points': sorted({p for p, _ in exempted}),
            'instances_reachable': len(seen), 'instances_total': len(P.instances)}
    rep.extra['configs'] = cfgs
    return rep
