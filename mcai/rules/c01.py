"""C01 -- forward byte search returns exactly the first matching position.

E2+E3: every forward search root (memchr/memchr2/memchr3, find and find_raw of every
One/Two/Three of every backend compiled in the configuration, through every member of
the ifunc sets) is interpreted with a symbolic haystack (address, length, contents
unconstrained) and symbolic needles, carrying the ghost `hi[n]` = end of the contiguous
prefix proved free of needle n.  Obligations at every return:
  POST-NONE   None   => hi[n] >= end for every needle (no byte skipped, no needle dropped)
  POST-RANGE  Some(p) => start <= p < end (index < len)
  POST-MATCH  Some(p) => p is a set lane of a non-zero mask whose leaves are
                         cmpeq(splat(needle), load(chunk)) of one chunk, or an assumed byte == needle
  POST-FIRST  Some(p) => hi[n] >= chunk base for all needles, mask covers all needles, first_offset used
relative to the vector axioms (meaning of the Vector/MoveMask trait methods, has_zero_byte)."""
from ..report import Report
from . import e2common, lanelaws

PID = 'C01'
ROOTS = (r'^memchr::memchr[23]?$|^arch::(all|x86_64::sse2|x86_64::avx2|aarch64::neon|wasm32::simd128)::memchr::(One|Two|Three)::(find|find_raw)$')
KINDS = ('POST', 'POST-NONE', 'POST-RANGE', 'POST-MATCH', 'POST-FIRST', 'AXIOM-PRE')
MODE_WORD = 'fwd'


def run(ctx, pid=PID, roots=ROOTS, kinds=KINDS, what='forward', floor_roots=9, floors=None):
    rep = Report(pid, 'proof',
                 f"E2+E3 abstract interpretation of every {what} byte-search root with symbolic haystack and needles and a ghost "
                 "scan-coverage pointer per needle; the post-conditions None=>everything examined, Some(p)=>in range, a real match, "
                 "and no earlier (later) match are entailment obligations at every return, for every length, alignment and match "
                 "position at once, per backend (SSE2, AVX2, SWAR, NEON, simd128) and through all ifunc members. Relative to the "
                 "vector axioms: lane-wise meaning of the Vector/MoveMask trait methods and of has_zero_byte.",
                 trusted_base=['rustc nightly MIR as exported by mcsa', 'mcai E2 engine (lin/loops/interp/models)',
                               'mcai/e3.py ghost coverage', 'vector axioms (DESIGN section 4): cmpeq/or/movemask/first_offset/last_offset/has_zero_byte'],
                 assumptions=['the lane-wise meaning of the Vector/MoveMask methods is decided per backend by the LANE-LAW obligations (E6, '
                              'bit-provenance dataflow over src/vector.rs; trusted: the transfer functions of the vendor intrinsics in mcai/lanes.py); '
                              'has_zero_byte (SWAR) is an axiom'])
    from .. import configs as _c
    cfgs = ctx.cfgs(quick=['x64-std@rel', 'a64@rel', 'i686@rel'], thorough=[c + '@rel' for c in _c.ALL])
    sites, roots_seen, errors = e2common.root_table(ctx, cfgs, roots, kinds)
    per_kind = e2common.emit(rep, sites, errors)
    for cfg in cfgs:
        n = len(set(roots_seen.get(cfg, [])))
        fl = floor_roots if not cfg.startswith(('i686', 's390x')) else 9
        if cfg.startswith(('x64-std', 'x64-alloc', 'x64-core', 'x64-avx2')):
            fl = 21
        elif cfg.startswith(('a64', 'wasm')):
            fl = 15
        elif cfg.startswith('x64-nosse2'):
            fl = 9
        if floors is not None:
            fl = next((v for k, v in floors if cfg.startswith(k)), floor_roots)
        rep.floor(f'{what}-search-roots[{cfg}]', n, fl)
    if pid in lanelaws.SUBSETS:
        lanelaws.emit(rep, ctx, cfgs, pid)
    rep.extra.update({'configs': cfgs, 'roots_per_config': {c: sorted(set(v)) for c, v in roots_seen.items()}, 'sites_by_kind': per_kind})
    return rep
