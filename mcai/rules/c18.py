"""C18 -- is_equal, is_prefix and is_suffix coincide with slice comparison.

E2 + EQ ghost (mcai/eqg.py): each of arch::all::{is_equal_raw, is_equal, is_prefix, is_suffix}
is interpreted with symbolic operands (two regions of unconstrained address, length and
contents; is_equal_raw under its documented contract "x and y valid for n bytes").  The ghost
records which bytes were compared equal (a contiguous interval under one displacement, built
only by successful byte / 2-byte / 4-byte comparisons) and which comparisons failed.  At every
return:

  EQ-TRUE   `true`  => the length conditions of the specification hold (equal lengths /
                      needle.len() <= haystack.len()) AND the compared-equal interval covers the
                      WHOLE specified range (so no byte of the 4/2/1-byte tail is skipped and the
                      right sub-slice of the haystack is used)
  EQ-FALSE  `false` => a length condition fails, or a failed comparison lies inside the range at
                      corresponding offsets (so the slices really differ)
  EQ-SPEC   the result is decided on every path, and both answers occur (non-vacuity)
  READ      every read stays inside the operands (no over-read of the tail; "next page unmapped")

Equality of a k-byte load on both sides <=> equality of the k bytes is the only axiom."""
from ..report import Report
from . import e2common

PID = 'C18'
ROOTS = r'^arch::all::(is_equal_raw|is_equal|is_prefix|is_suffix)$'
KINDS = ('EQ-TRUE', 'EQ-FALSE', 'EQ-SPEC', 'READ')


def run(ctx):
    rep = Report(PID, 'proof',
                 'E2 abstract interpretation with the byte-equality coverage ghost: for symbolic operands of every length, address '
                 'and content, `true` is returned only after every byte of the specified range was compared equal (interval coverage '
                 'entailed by the linear store under inferred loop invariants) and `false` only with a failed comparison inside the '
                 'range or a failed length condition; reads stay in bounds.',
                 trusted_base=['rustc nightly MIR as exported by mcsa', 'mcai E2 engine', 'mcai/eqg.py + mcai/eqspec.py',
                               'axiom: two k-byte loads are equal iff the k bytes are pairwise equal'],
                 assumptions=['the two operands are analysed as distinct regions (aliasing operands are read-only, so the result is the same)'])
    from .. import configs as _c
    cfgs = ctx.cfgs(quick=['x64-std@rel', 'a64@rel'], thorough=[c + '@rel' for c in _c.ALL])
    sites, roots_seen, errors = e2common.root_table(ctx, cfgs, ROOTS, KINDS)
    per_kind = e2common.emit(rep, sites, errors)
    for cfg in cfgs:
        rep.floor(f'comparison-roots[{cfg}]', len(set(roots_seen.get(cfg, []))), 4)
    rep.floor('EQ-TRUE-sites', per_kind.get('EQ-TRUE', 0), 4)
    rep.floor('EQ-FALSE-sites', per_kind.get('EQ-FALSE', 0), 4)
    rep.floor('READ-sites', per_kind.get('READ', 0), 3)
    rep.extra.update({'configs': cfgs, 'roots_per_config': {c: sorted(set(v)) for c, v in roots_seen.items()}, 'sites_by_kind': per_kind})
    return rep
