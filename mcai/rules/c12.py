"""C12 -- each public substring building block agrees with naive search.

Per block, what is decided (level: other; completeness of Two-Way, of the rolling hash and of the Shift-Or
automaton are NOT):
  Two-Way fwd/rev   REL-POST at new (critical position, period/shift inside the needle, 2*shift >= len), PANIC-free
                    (C14), Some(i) in range, POST-VERIFIED (large period: the whole needle; small period: everything the shift
                    memory does not vouch for), MEMO, SUFFIX-STEP (suffix scans), PERIOD-TEST (small/large classification)
  Rabin-Karp        Some(i) in range and POST-VERIFIED (a hash hit alone never answers), forward and reverse
  Shift-Or          new returns None exactly when needle.len() > 15 and otherwise stores that length (SPEC-POST);
                    Some(i) in range
  packed pair       new/with_pair: relation of the stored pair/bytes to the needle; find: documented panic exact
                    (DOC-PANIC), Some(i) in range, POST-VERIFIED, and COMPLETE (POST-NONE / POST-FIRST over candidate
                    positions: pair-mask lanes, lane-by-lane confirmation loop, masked overlapping tail, early exits):
                    together a proof that `find` returns exactly the leftmost occurrence on its documented domain,
                    relative to the vector axioms; prefilter completeness is C11"""
from . import c03

PID = 'C12'
ROOTS = (r"^arch::all::twoway::(Finder::(new|find)|FinderRev::(new|rfind))$|^arch::all::rabinkarp::(Finder::(new|find)|FinderRev::(new|rfind))$"
         r"|^arch::all::shiftor::Finder::(new|find)$"
         r"|^arch::(all|x86_64::sse2|x86_64::avx2|aarch64::neon|wasm32::simd128)::packedpair::Finder::(find|new|with_pair)$")
FLOORS = {'REL-POST': 40, 'POST-VERIFIED': 6, 'MEMO': 2, 'SPEC-POST': 4, 'POST-NONE': 2, 'POST-FIRST': 2, 'SUFFIX-STEP': 2, 'PERIOD-TEST': 4}


def run(ctx):
    return c03.run(ctx, pid=PID, roots=ROOTS, floors=FLOORS, what='building-block', min_roots=12)
