"""C05 -- safe searches never read outside the slices they are given.

Decided by the E2 abstract interpreter: every public entry point of the crate
(safe functions with ARBITRARY arguments of their types -- symbolic slices of
unconstrained address and length, finders satisfying only their type
invariants, needles unrelated to construction needles; public unsafe
functions under their documented pointer contracts) is interpreted over its
monomorphic MIR with all crate-local unsafe callees inlined; every memory
access becomes an obligation the linear store must entail:

 READ   offset >= 0 and offset + size <= len of an input region
 ALIGN  address = 0 (mod align) for aligned vector loads, `read()` of wider types
 DIST   `offset_from` operands in one object, and the result non-negative
        (reaching `unwrap_unchecked`'s unreachable is the UB obligation)
 UNION  a union field is read only when it is the active one (I-SRCH/I-PRE)
 FNPTR  a transmuted/stored fn pointer has exactly the callee's type
 TYINV  type invariants assumed for arguments are established at construction
 WRITE  no write through raw pointers
Loops are handled by inferred inductive invariants (drop-only Houdini)."""
from ..report import Report
from . import e2common

PID = 'C05'
KINDS = ('READ', 'ALIGN', 'DIST', 'UB', 'UNION', 'FNPTR', 'TYINV', 'WRITE')

FLOORS = {   # sites confirmed on the pinned tree (per kind, summed over the quick configurations)
    'READ': 60, 'ALIGN': 8, 'DIST': 1, 'UNION': 10, 'FNPTR': 8, 'TYINV': 4,
}


def run(ctx):
    rep = Report(PID, 'proof',
                 'E2 abstract interpretation of every public entry point over monomorphic MIR with symbolic regions '
                 '(base address and length unconstrained => every alignment, every length, "next page unmapped" included), '
                 'arbitrary arguments for safe functions, documented pointer contracts for unsafe ones; inferred inductive '
                 'loop invariants; obligations READ/ALIGN/DIST/UB/UNION/FNPTR/TYINV/WRITE must be entailed by an exact '
                 'linear-integer store (Fourier-Motzkin with integer tightening). Fails closed on anything unsupported.',
                 trusted_base=['rustc nightly MIR (mir-opt-level=0) as exported by mcsa',
                               'mcai interpreter: linear store/FM entailment, Houdini loop invariants, models of ~60 core functions',
                               'vendor load intrinsics: size and alignment requirement only',
                               'type-invariant table (I-ITER, I-PP, I-SPLAT, I-SRCH, I-PRE), re-checked at construction sites (TYINV)'],
                 assumptions=['language-level UB that is not a read (out-of-allocation pointer arithmetic) is reported as ARITH notes, not decided here',
                              'allocator / fmt internals are opaque'])
    # release semantics (debug assertions off, wrapping arithmetic): what users run; a debug_assert!
    # must not be what keeps a read in bounds
    from .. import configs as _c
    cfgs = ctx.cfgs(quick=['x64-std@rel', 'a64@rel'], thorough=[c + '@rel' for c in _c.ALL])
    sites, errors, stats = e2common.site_table(ctx, cfgs, KINDS + ('ARITH',))
    for cfg, root, err in errors:
        rep.add('E2-ROOT', root, False, cfg=cfg, detail=err.splitlines()[0][:300])
    per_kind = {}
    arith_notes = []
    for (kind, path, role, loc), s in sorted(sites.items()):
        if kind == 'ARITH':
            if not s['ok']:
                arith_notes.append(f"{loc} {path} {role}: {s['fail'][0][3][:160]}")
            continue
        per_kind[kind] = per_kind.get(kind, 0) + 1
        det = s['detail'] if s['ok'] else '; '.join(f"[{c}] root {r} ({v}): {d}" for c, r, v, d in s['fail'][:2])
        rep.add(kind, f"{path}|{role}", s['ok'], where=loc, cfg=','.join(sorted(s['cfgs'])), detail=det[:600])
    for k, fl in FLOORS.items():
        rep.floor(f'sites-{k}', per_kind.get(k, 0), fl)
    rep.notes += [f"ARITH note (not a verdict input): {n}" for n in arith_notes[:10]]
    bad_havoc = sorted(n for n in stats['havoc_notes'] if n.startswith('HAVOC call') and ('memchr' in n.split()[-1] and '::' in n and not n.split()[-1].startswith(('core::', 'std::', 'alloc::'))))
    rep.extra.update({'configs': cfgs, 'roots': stats['roots'], 'variants': stats['variants'], 'loops': stats['loops'],
                      'invariants_kept': stats['invariants'], 'cut_calls': stats['cuts'], 'sites_by_kind': per_kind,
                      'obligation_instances': stats['obligations'], 'notes_ARITH': len(arith_notes),
                      'havoc_notes': sorted(stats['havoc_notes'])[:40], 'engine_wall_s': round(stats['time'], 1)})
    return rep
