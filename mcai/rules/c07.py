"""C07 -- byte counting equals the number of matching bytes (also of a consumed iterator).

E2+E3 with the counting measure F (CountOf([a,b)) = F(b) - F(a), so adjacent pieces telescope
in the linear store): every count / count_raw root and every iterator `count` returns exactly
CountOf([start, end), needle) for the CURRENT window [self.start, self.end) -- scalar head up
to alignment, 4x unrolled popcounts, vector loop and scalar tail tile the window with no gap
and no overlap.  Relative to the axioms: popcount of a lane mask = number of equal lanes,
(byte == n) contributes exactly one."""
from . import c01

PID = 'C07'
ROOTS = (r"::memchr::One::(count|count_raw)$|^<(memchr::Memchr<'h>|arch::.*::memchr::OneIter<'a, 'h>) as core::iter::Iterator>::count$")
KINDS = ('POST', 'POST-COUNT')


def run(ctx):
    rep = c01.run(ctx, PID, ROOTS, KINDS, 'counting', floor_roots=3,
                  floors=[('x64-nosse2', 3), ('x64', 10), ('a64', 7), ('wasm', 7), ('i686', 3), ('s390x', 3)])
    return rep
