"""C11 -- candidate prefilters never skip a real match.

E2+E3 over CANDIDATE POSITIONS.  The prefilter value is arbitrary (type invariants only); the
needle it was built from is a ghost: some length n >= 2 with index1, index2 < n (and, for the
vector finders, min_haystack_len - V::BYTES < n <= min_haystack_len -- all that the finder's
own fields say about it).  A position p is *rejected* when haystack[p+index1] != b1 or
haystack[p+index2] != b2 (b1, b2 = the splatted / stored comparison bytes), or when it lies
before the haystack or after the last position where n bytes still fit.  The ghost hi = end of
the contiguous rejected prefix advances only through
  * a pair mask  movemask(and(cmpeq(load(cur+index1), v1), cmpeq(load(cur+index2), v2)))  with no
    lane set                                            -> [cur, cur + V::BYTES) rejected
  * the scan summary of a cut single-byte search (what C01 proves): memchr(b1, haystack[i..])
    = Some(k) / None                                    -> positions [i-index1, i+k-index1) rejected
  * a byte disequality haystack[q] != b2 assumed on a branch -> position q-index2 rejected
Obligations at every return of every public packed-pair `find_prefilter` (portable, SSE2, AVX2,
NEON, simd128) and of the private short-haystack fallback `Prefilter::find_simple`:
  POST-NONE   None    => hi >= haystack.len() - n + 1: every position where the needle fits was rejected
  POST-FIRST  Some(c) => every position before c was rejected (so c <= the first occurrence), and
                         the vector code used first_offset on a mask of the chunk at c's base
  POST-MATCH  Some(c) => both pair bytes really are at c+index1, c+index2 (a set lane of the pair
                         mask, or two assumed byte equalities)      [not for find_simple: it clamps]
and of the private dispatch targets prefilter_kind_* (under the Prefilter invariants I-PRE and rarest = first pair
byte, both established by the constructors below; the vector prefilter they call is summarised by what its own
root proves), so that the short-haystack switch to find_simple is covered as it is actually wired;
and at the constructors (public with_pair of every backend; the private Prefilter::{sse2,avx2,
neon,simd128,fallback} analysed as extra roots under the relation their only caller establishes):
  SPEC-POST   the stored comparison bytes are needle[index1], needle[index2]; rarest_byte is
              needle[rarest_offset] and rarest_offset is index1 of the stored finder
  REL-PRE     every prefilter_kind_* calls the vector prefilter only when haystack.len() >=
              min_haystack_len() (otherwise find_simple)
Relative to the vector axioms (lane-wise meaning of cmpeq/and/movemask/first_offset)."""
from ..report import Report
from . import e2common

PID = 'C11'
_ARCH = r'(all|x86_64::sse2|x86_64::avx2|aarch64::neon|wasm32::simd128)'
ROOTS = (r'^arch::' + _ARCH + r'::packedpair::Finder::(find_prefilter|with_pair)$'
         r'|^memmem::searcher::Prefilter::(find_simple|sse2|avx2|neon|simd128|fallback(::<.*>)?)$'
         r'|^memmem::searcher::prefilter_kind_(sse2|avx2|neon|simd128|fallback)$')
KINDS = ('POST', 'POST-NONE', 'POST-FIRST', 'POST-MATCH', 'SPEC-POST', 'AXIOM-PRE')


def run(ctx):
    rep = Report(PID, 'proof',
                 'E2+E3 abstract interpretation of every packed-pair prefilter (portable, SSE2, AVX2, NEON, simd128) and of the private '
                 'short-haystack fallback with a symbolic haystack, an arbitrary prefilter value and a ghost needle; the contiguous '
                 'prefix of REJECTED candidate positions is a ghost pointer that only pair-mask / scan-summary / byte-disequality '
                 'events advance; None => every position where the needle fits was rejected, Some(c) => every position before c was '
                 'rejected and c has the pair; constructors store needle[index1], needle[index2]; all as entailment obligations for '
                 'every haystack length (both sides of min_haystack_len), pair and content at once.',
                 trusted_base=['rustc nightly MIR as exported by mcsa', 'mcai E2/E3 engine (e3.py pair leaves, specs.install_pair)',
                               'vector axioms: lane-wise cmpeq/and/movemask/first_offset', 'C01 scan summary of memchr / One::find (proved by C01)'],
                 assumptions=['the prefilter was built by its constructor from SOME needle (ghost length n); nothing else about the needle is assumed'])
    from .. import configs as _c
    cfgs = ctx.cfgs(quick=['x64-std', 'a64'], thorough=list(_c.ALL))
    sites, roots_seen, errors = e2common.root_table(ctx, cfgs, ROOTS, KINDS)
    per_kind = e2common.emit(rep, sites, errors)
    # the dispatch below min_haystack_len (REL-PRE at the prefilter_kind_* call sites, recorded under the roots that inline them)
    s2, _, _ = e2common.root_table(ctx, cfgs, r"^memmem::Finder::<'.*>::find$|^<memmem::FindIter<.*> as core::iter::Iterator>::next$", ('REL-PRE',))
    s2 = {k: v for k, v in s2.items() if 'prefilter_kind_' in k[1]}
    pk2 = e2common.emit(rep, s2, [])
    for cfg in cfgs:
        n = len(set(roots_seen.get(cfg, [])))
        rep.floor(f'prefilter-roots[{cfg}]', n, 8 if cfg.startswith(('x64-std', 'x64-alloc', 'x64-avx2')) else 5)
    rep.floor('POST-NONE-sites', per_kind.get('POST-NONE', 0), 4)
    rep.floor('POST-FIRST-sites', per_kind.get('POST-FIRST', 0), 4)
    rep.floor('POST-MATCH-sites', per_kind.get('POST-MATCH', 0), 3)
    rep.floor('SPEC-POST-sites', per_kind.get('SPEC-POST', 0), 6)
    rep.floor('dispatch-sites', pk2.get('REL-PRE', 0), 2)
    from . import lanelaws
    lanelaws.emit(rep, ctx, cfgs, PID)
    rep.extra.update({'configs': cfgs, 'roots_per_config': {c: sorted(set(v)) for c, v in roots_seen.items()}, 'sites_by_kind': dict(per_kind, **{'REL-PRE(dispatch)': pk2.get('REL-PRE', 0)})})
    return rep
