"""C09 -- every backend and build configuration returns identical answers.

If every backend equals the specification (C01/C02/C07, per configuration)
the backends equal each other; what remains, and what this check decides, is
the *wiring*:

 DISP      for every public byte-search entry point, in every configuration
           and through every member of the ifunc sets, the set of
           (searcher kind, method) reached at the backend boundary is the
           singleton implied by the entry point's own name
           (memrchr2 => Two / rfind_raw ...), and needles/start/end are
           forwarded argument-for-argument.
 AVAIL-IS  each is_available() can return true only from a compile-time
           constant when the configuration enables every feature its module's
           #[target_feature] functions need, or from a runtime detection macro
           for a feature that implies them.
 AVAIL-CALL every call of a #[target_feature] function from a function lacking
           those features has a receiver of a capability type of that module,
           or is control-dependent on the matching is_available().
 CAP       capability types are constructed only inside functions that have
           the features (new_unchecked / with_pair_impl) or from an existing
           value of the type.
 IFUNC-AVAIL in each `detect`, a #[target_feature] function is selected only on
           the true edge of the is_available() of a module that establishes
           its features; the ladder ends in a feature-less fallback.
 FEAT-DIFF for every function reachable from the search entry points, the
           canonical MIR is identical in the std / alloc / core builds of the
           same target, except for a reasoned allow-list."""
import hashlib, json, re
from ..report import Report
from .. import ifunc, derive
from ..prog import sources

PID = 'C09'

FACADE = re.compile(r'^arch::(all|x86_64::sse2|x86_64::avx2|aarch64::neon|wasm32::simd128)::memchr::(One|Two|Three)::(find_raw|rfind_raw|count_raw)$')
KIND_OF_DIGIT = {'': 'One', '2': 'Two', '3': 'Three'}

# public entry points and the (kind, method) their names imply
def expected_entry_points(P):
    out = []
    for n, kind in (('', 'One'), ('2', 'Two'), ('3', 'Three')):
        out.append((f'memchr::memchr{n}', kind, 'find_raw'))
        out.append((f'memchr::memrchr{n}', kind, 'rfind_raw'))
        it = f"memchr::Memchr{n}"
        out.append((f"<{it}<'h> as core::iter::Iterator>::next", kind, 'find_raw'))
        out.append((f"<{it}<'h> as core::iter::DoubleEndedIterator>::next_back", kind, 'rfind_raw'))
    out.append(("<memchr::Memchr<'h> as core::iter::Iterator>::count", 'One', 'count_raw'))
    return out


def module_of(path):
    m = re.match(r'^(arch::(?:x86_64::(?:sse2|avx2)|aarch64::neon|wasm32::simd128))::', path)
    return m.group(1) if m else None


def canon(P, x):
    """canonical form of an exported body: type ids -> strings, no locations"""
    if isinstance(x, dict):
        out = {}
        for k, v in x.items():
            if k in ('loc', 'macros', 'ext_depth'):
                continue
            if k in ('ty', 'aty', 'from', 'fty', 'to', 'elem') and isinstance(v, int):
                out[k] = P.types[v]['str']
            elif k in ('locals', 'targs') and isinstance(v, list) and all(isinstance(i, int) for i in v):
                out[k] = [P.types[i]['str'] for i in v]
            else:
                out[k] = canon(P, v)
        return out
    if isinstance(x, list):
        return [canon(P, i) for i in x]
    return x


def body_hash(P, inst):
    """hash of the canonical body, insensitive to drop elaboration: `drop`
    terminators are gotos, empty goto-only blocks are skipped, blocks are
    renumbered in DFS preorder (alloc builds add drops of the needle storage)."""
    blocks = inst.j['blocks']

    def resolve(b, depth=0):
        while depth < 64:
            blk = blocks[b]
            if blk.get('cleanup'):
                return b
            t = blk['term']
            if not blk['stmts'] and t['k'] in ('goto', 'drop'):
                b = t['t']
                depth += 1
                continue
            return b
        return b
    order, index = [], {}
    stack = [resolve(0)]
    while stack:
        b = stack.pop()
        if b in index:
            continue
        index[b] = len(order)
        order.append(b)
        for s_ in reversed(inst.succ(b)):
            r = resolve(s_)
            if r not in index:
                stack.append(r)
    out = []
    for b in order:
        blk = blocks[b]
        t = dict(blk['term'])
        if t['k'] == 'drop':
            t = {'k': 'goto', 't': t['t']}
        for key in ('t', 'otherwise'):
            if isinstance(t.get(key), int):
                t[key] = index.get(resolve(t[key]), -1)
        if 'cases' in t:
            t['cases'] = [[v, index.get(resolve(tt), -1)] for v, tt in t['cases']]
        out.append({'stmts': blk['stmts'], 'term': t})
    j = canon(P, {'blocks': out, 'locals': inst.j['locals'], 'arg_count': inst.j['arg_count']})
    return hashlib.sha256(json.dumps(j, sort_keys=True).encode()).hexdigest()[:16]


# FEAT-DIFF allow-list: functions reachable from search entry points whose body legitimately
# differs between feature sets of the same target (regex on path, reason)
FEAT_DIFF_OK = [
    (re.compile(r'^arch::x86_64::avx2::(memchr::(One|Two|Three)|packedpair::Finder)::is_available$'),
     'std => runtime AVX2 detection; otherwise compile-time constant (checked by AVAIL-IS)'),
    (re.compile(r"^cow::|^<cow::"), 'needle storage: enum with an owned arm under alloc vs plain borrow (checked by C16 COPY/NEEDLE)'),
    (re.compile(r"arch::all::shiftor::"), 'Shift-Or exists only with the alloc feature (not on any memmem search path)'),
]


def search_roots(P):
    """public entry points that perform searches (the C17 root set)"""
    from . import c17
    roots = []
    for key in P.roots:
        inst = P.instances[key]
        f = P.fn_facts.get(inst.path)
        if f and f.get('reachable') and not c17.exempt(inst.path, f):
            roots.append(key)
    return roots


def run(ctx):
    rep = Report(PID, 'other',
                 'Wiring rules over the resolved call graph of each configuration: DISP (dispatch singleton incl. all ifunc '
                 'members, argument forwarding), AVAIL-IS / AVAIL-CALL / CAP / IFUNC-AVAIL (a vector routine runs only where '
                 'its ISA was established), FEAT-DIFF (no feature-dependent code on any search path). Together with the '
                 'per-backend checks C01/C02/C07 (each backend equals the specification) this gives backend agreement; '
                 'this check alone decides the wiring, not the per-backend semantics.',
                 trusted_base=['rustc nightly (cfg evaluation, trait/callee resolution, target-feature attributes incl. implied features)',
                               'mcsa exporter', 'vendor semantics of is_x86_feature_detected!'],
                 assumptions=['C01/C02/C07 decide that each backend routine meets the specification',
                              'memmem agreement across backends additionally rests on C03'])
    cfgs = ctx.cfgs(quick=['x64-std', 'a64', 'x64-core'])
    hashes = {}
    for cfg in cfgs:
        P = ctx.prog(cfg)
        cfg_feats = {c.split('=', 1)[1] for c in P.d['cfg'] if c.startswith('target_feature=')}
        implied = P.facts.get('tf_implied', {})
        statics = ifunc.analyse(P)

        # features each facade module needs = union over its #[target_feature] fns
        need = {}
        for inst in P.local_instances():
            m = module_of(inst.path)
            if m and inst.target_features:
                need.setdefault(m, set()).update(inst.target_features)

        # ---------------- DISP
        n_disp = 0
        for (root_path, kind, method) in expected_entry_points(P):
            insts = P.by_path.get(root_path)
            if not insts:
                rep.anchor_missing(f'entry point {root_path}', cfg)
                continue
            root = insts[0]
            seen = P.reachable_from([root.key], stop=lambda k: bool(FACADE.match(P.instances[k].path)))
            hits = sorted({P.instances[k].path for k in seen if FACADE.match(P.instances[k].path)})
            kinds = {(FACADE.match(h).group(2), FACADE.match(h).group(3)) for h in hits}
            ok = kinds == {(kind, method)}
            rep.add('DISP/singleton', root_path, ok, where=root.loc, cfg=cfg,
                    detail=f"reaches {hits}; expected only {kind}::{method}")
            n_disp += 1
            # argument forwarding along the chain: every function between root and facade
            for k in seen:
                inst = P.instances[k]
                if not inst.local or not inst.has_body or FACADE.match(inst.path):
                    continue
                for b, t in inst.calls():
                    cp = t['callee'].get('path', '')
                    fm = FACADE.match(cp)
                    if not fm:
                        continue
                    # (self, start, end): start/end must come from the two last args of this fn, in order
                    a_s, a_e = t['args'][1], t['args'][2]
                    ds, de = derive.derives(P, inst, a_s), derive.derives(P, inst, a_e)
                    nargs = inst.arg_count
                    is_closure = inst.j.get('def_kind') == 'Closure'
                    want_s = {('arg', nargs - 1, ())}
                    want_e = {('arg', nargs, ())}
                    okf = ds.roots == want_s and de.roots == want_e and not ds.computed and not de.computed
                    rep.add('DISP/start-end-forwarded', inst.key, okf, where=t['loc'], cfg=cfg,
                            detail=f"start <- {sorted(ds.roots)}, end <- {sorted(de.roots)} (expected args {nargs-1},{nargs})")
                    # needles: the searcher (arg0) derives from all remaining (needle) args
                    if not is_closure:
                        dn = derive.derives(P, inst, t['args'][0])
                        got = {r[1] for r in dn.roots if r[0] == 'arg'}
                        wantn = set(range(1, nargs - 1))
                        okn = got == wantn
                        rep.add('DISP/needles-forwarded', inst.key, okn, where=t['loc'], cfg=cfg,
                                detail=f"searcher built from args {sorted(got)}; needle args are {sorted(wantn)}")
        rep.floor(f'dispatch-entry-points[{cfg}]', n_disp, 13)

        # ---------------- AVAIL-IS
        n_is = 0
        for inst in P.local_instances():
            if not inst.path.endswith('::is_available') or not inst.has_body:
                continue
            m = module_of(inst.path)
            if not m:
                continue
            n_is += 1
            needed = need.get(m, set())
            missing = needed - cfg_feats
            problems = []
            for src in sources(inst, 0):
                if src[0] == 'const':
                    v = src[1].get('v')
                    if v == 1 and missing:
                        problems.append(f"returns constant true although {sorted(missing)} are not compile-time target features")
                    elif v not in (0, 1):
                        problems.append('non-boolean constant')
                elif src[0] == 'call':
                    cp = src[2]['callee'].get('inst', '')
                    dm = re.match(r'^std_detect::detect::arch::\w+::__is_feature_detected::(\w+)$', cp)
                    if dm:
                        f = dm.group(1).replace('_', '.') if dm.group(1) not in implied else dm.group(1)
                        cover = set(implied.get(f, [f])) | cfg_feats
                        if not missing <= cover:
                            problems.append(f"detects `{f}` which does not imply {sorted(missing - cover)}")
                    else:
                        problems.append(f"value comes from call {cp}")
                else:
                    problems.append(f"untraceable source {src[0]}")
            rep.add('AVAIL-IS', inst.path, not problems, where=inst.loc, cfg=cfg,
                    detail='; '.join(problems) or f"true only if {sorted(needed)} available (compile-time: {sorted(needed & cfg_feats)})")
        if cfg.startswith('x64') or cfg in ('a64', 'a64be', 'wasm'):
            rep.floor(f'is_available-fns[{cfg}]', n_is, 4)

        # ---------------- AVAIL-CALL and CAP
        n_tfcalls = 0
        for inst in P.local_instances():
            if not inst.has_body:
                continue
            have = set(inst.target_features) | cfg_feats
            # closures inherit nothing in MIR terms; treat their parent's features as theirs
            if inst.j.get('def_kind') == 'Closure':
                parent = inst.path.rsplit('::{closure', 1)[0]
                for pi in P.by_path.get(parent, []):
                    have |= set(pi.target_features)
            for b, t in inst.calls():
                c = t['callee']
                ck = c.get('inst')
                callee = P.instances.get(ck) if ck else None
                if callee is None or not callee.local:
                    continue
                miss = set(callee.target_features) - have
                if not miss:
                    continue
                n_tfcalls += 1
                cm = module_of(callee.path)
                why = None
                # (a) capability receiver: first argument is (a reference to) a facade type of the callee's module
                if t['args']:
                    a0 = t['args'][0]
                    if a0['k'] in ('copy', 'move'):
                        tid = a0['p']['pr'][-1]['ty'] if a0['p']['pr'] else inst.locals[a0['p']['l']]
                        ty = P.types[tid]
                        while ty['kind'] in ('ref', 'ptr'):
                            ty = P.types[ty['to']]
                        if ty['kind'] == 'adt' and cm and ty['path'].startswith(cm + '::') and miss <= need.get(cm, set()):
                            why = f"capability receiver {ty['path']}"
                # (b) control dependence on is_available() of a module establishing the features
                if why is None:
                    g = guarded_by_is_available(P, inst, b, need)
                    if g and miss <= g[1]:
                        why = f"guarded by {g[0]}"
                rep.add('AVAIL-CALL', f"{inst.key} -> {callee.path}", why is not None, where=t['loc'], cfg=cfg,
                        detail=why or f"calls #[target_feature] fn needing {sorted(miss)} without capability receiver or is_available() guard")
            # CAP: construction of capability types
            for b, i, s in inst.stmts():
                if s['k'] == 'assign' and s['rv']['k'] == 'agg' and s['rv'].get('ak') == 'adt':
                    m = module_of(s['rv']['path'])
                    if not m:
                        continue
                    needed = need.get(m, set())
                    miss = needed - have
                    if not miss:
                        continue
                    # from an existing value of the same type (Clone/Copy)?
                    okc = False
                    if inst.arg_count >= 1:
                        ty = P.types[inst.locals[1]]
                        while ty['kind'] in ('ref', 'ptr'):
                            ty = P.types[ty['to']]
                        okc = ty['kind'] == 'adt' and ty['path'].startswith(m + '::')
                    g = guarded_by_is_available(P, inst, b, need)
                    okc = okc or bool(g and miss <= g[1])
                    rep.add('CAP/constructed-with-features', f"{inst.key} builds {s['rv']['path']}", okc, where=s['loc'], cfg=cfg,
                            detail='' if okc else f"capability type built in a function lacking {sorted(miss)} and not under is_available()")
        if cfg in ('x64-std', 'x64-alloc', 'x64-core'):
            rep.floor(f'target-feature-calls[{cfg}]', n_tfcalls, 13)

        # ---------------- IFUNC-AVAIL
        for path, st in statics.items():
            for (inst, b, stt, fns, unk) in st.stores:
                # every definition of the stored local
                has_fallback = False
                for (sel, db, di, rv) in _selection_sites(P, inst, stt['args'][1]):
                    if di == 'term' or rv['k'] != 'cast':
                        continue
                    f = None
                    if rv['op']['k'] == 'const':
                        f = (P.types[rv['op']['ty']].get('callee') or {}).get('inst')
                    if not f or f not in P.instances:
                        continue
                    fi = P.instances[f]
                    miss = set(fi.target_features) - cfg_feats
                    if not miss:
                        has_fallback = True
                        rep.add('IFUNC-AVAIL/selected-under-guard', f"{inst.path} selects {fi.path}", True, where=rv.get('loc', inst.loc), cfg=cfg,
                                detail='needs no feature beyond the configuration', nontrivial=False)
                        continue
                    g = guarded_by_is_available(P, sel, db, need)
                    ok = bool(g and miss <= g[1])
                    rep.add('IFUNC-AVAIL/selected-under-guard', f"{inst.path} selects {fi.path}", ok, where=inst.loc, cfg=cfg,
                            detail=(f"guarded by {g[0]} establishing {sorted(g[1])}" if g else 'not control-dependent on any is_available()')
                            + f"; needs {sorted(miss)}")
                rep.add('IFUNC-AVAIL/ladder-total', inst.path, has_fallback, where=inst.loc, cfg=cfg,
                        detail='ladder ends in a function needing no extra feature' if has_fallback else 'no feature-less fallback selected on some path')

        # ---------------- FEAT-DIFF (collect)
        roots = search_roots(P)
        seen = P.reachable_from(roots)
        hashes[cfg] = {k: body_hash(P, P.instances[k]) for k in seen if P.instances[k].local and P.instances[k].has_body}

    # ---------------- FEAT-DIFF (compare feature sets of the same target)
    groups = [g for g in (['x64-std', 'x64-alloc', 'x64-core'],) if sum(1 for c in g if c in hashes) >= 2]
    for g in groups:
        g = [c for c in g if c in hashes]
        base = g[0]
        n_cmp = 0
        for other in g[1:]:
            common = set(hashes[base]) & set(hashes[other])
            for k in sorted(common):
                n_cmp += 1
                same = hashes[base][k] == hashes[other][k]
                path = ctx.prog(base).instances[k].path
                if not same:
                    allowed = [why for rx, why in FEAT_DIFF_OK if rx.search(path)]
                    if allowed:
                        rep.notes.append(f"FEAT-DIFF allowed difference {path} [{base} vs {other}]: {allowed[0]}")
                        rep.add('FEAT-DIFF', f"{path} [{base} vs {other}]", True, cfg=other, detail='listed exception: ' + allowed[0])
                    else:
                        rep.add('FEAT-DIFF', f"{path} [{base} vs {other}]", False, where=ctx.prog(base).instances[k].loc, cfg=other,
                                detail=f"function on a search path has a different body in {base} and {other} (cargo-feature dependent code)")
                else:
                    rep.add('FEAT-DIFF', f"{path} [{base} vs {other}]", True, cfg=other, nontrivial=False)
            only = (set(hashes[base]) ^ set(hashes[other]))
            only_paths = sorted({(ctx.prog(base) if k in hashes[base] else ctx.prog(other)).instances[k].path for k in only})
            bad = [p for p in only_paths if not any(rx.search(p) for rx, _ in FEAT_DIFF_OK)
                   and not p.startswith('std_detect::')]
            rep.add('FEAT-DIFF/same-reachable-set', f"[{base} vs {other}]", not bad, cfg=other,
                    detail=f"functions on search paths present in only one build: {bad[:8]}" if bad else f"{len(only_paths)} allowed one-sided functions")
        rep.floor(f'feat-diff-compared[{"+".join(g)}]', n_cmp, 300)
    from . import lanelaws
    lanelaws.emit(rep, ctx, cfgs, PID)
    rep.extra['configs'] = cfgs
    return rep


def _selection_sites(P, inst, op, depth=0):
    """(function, block, index, rvalue) of every definition on the copy/cast chain feeding `op`; a call of a crate-local
    helper on that chain (the ladder written as its own function) contributes the definitions feeding ITS return value"""
    out = []
    locs = _locals_feeding(inst, op) if isinstance(op, dict) else _locals_feeding(inst, {'k': 'copy', 'p': {'l': op, 'pr': []}})
    for l in locs:
        for (b, i, d) in inst.assignments_to(l):
            if i == 'term' and depth < 3:
                callee = P.instances.get(d['callee'].get('inst') or '')
                if callee is not None and callee.local and callee.has_body:
                    out += _selection_sites(P, callee, 0, depth + 1)
                    continue
            out.append((inst, b, i, d))
    return out


def _locals_feeding(inst, op, seen=None):
    """locals on the copy/move/cast chain feeding operand `op` (incl. itself)"""
    seen = set() if seen is None else seen
    if op['k'] not in ('copy', 'move') or op['p']['pr']:
        return seen
    l = op['p']['l']
    if l in seen:
        return seen
    seen.add(l)
    for (b, i, rv) in inst.assignments_to(l):
        if i != 'term' and rv['k'] in ('use', 'cast'):
            _locals_feeding(inst, rv['op'], seen)
    return seen


def guarded_by_is_available(P, inst, b, need):
    """If block b is dominated by the true edge of a switch on the result of
    some `<module>::...::is_available()`, return (callee path, features)."""
    best = None
    for sb in inst.rpo():
        t = inst.term(sb)
        if t['k'] != 'switch' or t['op']['k'] not in ('copy', 'move') or t['op']['p']['pr']:
            continue
        l = t['op']['p']['l']
        srcs = sources(inst, l)
        if len(srcs) != 1 or srcs[0][0] != 'call':
            continue
        cp = srcs[0][2]['callee'].get('path', '')
        if not cp.endswith('::is_available'):
            continue
        m = module_of(cp)
        if not m:
            continue
        # true edge = every target whose case value is not 0
        true_targets = {t['otherwise']} | {tt for v, tt in t['cases'] if v != 0}
        false_targets = {tt for v, tt in t['cases'] if v == 0}
        true_targets -= false_targets
        for tt in true_targets:
            if inst.pred(tt) == [sb] and inst.dominates(tt, b):
                best = (cp, set(need.get(m, set())))
    return best
