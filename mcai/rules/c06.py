"""C06 -- byte-search iterators yield every match exactly once, in any call order.

Induction (stated once, here): let the window be [start, end).  Invariant W: the matches not yet
yielded are exactly the matches inside the window.  W holds after `new` (window = haystack).
next() yields the least match m of the window and sets start = m+1 -- the removed positions
[start, m] contain exactly one match; next_back() symmetric with end = m; None leaves the state
unchanged, so an exhausted iterator stays exhausted.  Hence every interleaving yields each match
once, ascending from the front and descending from the back.

This check decides the hypotheses of that induction on MIR, for Memchr/Memchr2/Memchr3 and
every One/Two/ThreeIter of every backend:
  POST-*        next() returns the FIRST match of the current window (E3, as C01), next_back() the LAST
  IT-TRANSFER   Some(i): only start (resp. end) moves, to found+1 (resp. found); None: window unchanged
  TYINV I-ITER  original_start <= start <= end inside the haystack, at construction and at every exit
  SIZE-HINT     lower bound 0; upper bound >= end - start (every remaining match is a distinct position)
  TRAITS        each iterator implements Iterator and DoubleEndedIterator (fusedness is the IT-TRANSFER None clause,
                not the marker trait: the arch::all iterators do not carry the FusedIterator marker)"""
import re
from ..report import Report
from . import e2common

PID = 'C06'
ITER_ROOT = r"^<(memchr::Memchr[23]?<'h>|arch::.*::memchr::(One|Two|Three)Iter<'a, 'h>) as core::iter::(Iterator>::next|DoubleEndedIterator>::next_back|Iterator>::size_hint)$|^arch::generic::memchr::Iter::<'h>::new$|^memchr::Memchr[23]?::<'h>::new$|::memchr::(One|Two|Three)::iter$"
KINDS = ('POST', 'POST-NONE', 'POST-RANGE', 'POST-MATCH', 'POST-FIRST', 'POST-LAST', 'IT-TRANSFER', 'TYINV', 'SIZE-HINT')


def run(ctx):
    rep = Report(PID, 'proof',
                 'Transfer obligations of the iterator induction (see module doc / DESIGN 5-C06), decided by E2+E3 on MIR for every '
                 'byte-search iterator of every backend: first/last match of the CURRENT window, exact state update, window '
                 'invariant, size_hint bounds, plus trait-impl facts. The induction itself (any call sequence) is a short '
                 'pen-and-paper argument over these per-call facts.',
                 trusted_base=['rustc nightly MIR via mcsa', 'mcai E2/E3 engine', 'vector axioms (as C01/C02)'],
                 assumptions=['the induction from per-call transfer facts to all call histories is by hand (documented)'])
    from .. import configs as _c
    cfgs = ctx.cfgs(quick=['x64-std@rel', 'a64@rel'], thorough=[c + '@rel' for c in _c.ALL])
    sites, roots_seen, errors = e2common.root_table(ctx, cfgs, ITER_ROOT, KINDS)
    per_kind = e2common.emit(rep, sites, errors)
    for cfg in cfgs:
        n = len(set(roots_seen.get(cfg, [])))
        rep.floor(f'iterator-roots[{cfg}]', n, 30 if cfg.startswith(('x64', 'a64', 'wasm')) else 20)
    rep.floor('IT-TRANSFER-sites', per_kind.get('IT-TRANSFER', 0), 20)
    # TRAITS
    for cfg in cfgs:
        P = ctx.prog(cfg)
        impls = {}
        for im in P.facts['impls']:
            if im.get('of_trait'):
                impls.setdefault(re.sub(r"<.*$", '', im['self_ty']), set()).add(im['trait'])
        iters = [a['path'] for a in P.facts['adts'] if re.search(r'(^memchr::Memchr[23]?$|::memchr::(One|Two|Three)Iter$)', a['path'])]
        for it in iters:
            have = impls.get(it, set())
            for tr in ('core::iter::Iterator', 'core::iter::DoubleEndedIterator'):
                rep.add('TRAITS', f"{it}: {tr.rsplit('::', 1)[1]}", tr in have, cfg=cfg,
                        detail='' if tr in have else f"{it} does not implement {tr}", nontrivial=False)
        rep.floor(f'iterator-types[{cfg}]', len(iters), 6)
    rep.extra.update({'configs': cfgs, 'sites_by_kind': per_kind})
    return rep
