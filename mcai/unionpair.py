"""UNION-PAIR facts: function pointer <-> active union field pairing of the
memmem meta searcher (`Searcher{call,kind}`) and prefilter (`Prefilter{call,kind}`)."""
from .prog import sources, fn_const_instance

TARGETS = {
    'memmem::searcher::Searcher': 'memmem::searcher::SearcherKind',
    'memmem::searcher::Prefilter': 'memmem::searcher::PrefilterKind',
}


def union_reads(P, inst):
    """set of (union path, field index) read by projections in inst's body"""
    out = set()
    if not inst.has_body:
        return out

    def scan_place(p):
        ty = P.types[inst.locals[p['l']]]
        for e in p['pr']:
            if e['k'] == 'field' and e.get('union') and ty.get('kind') == 'adt':
                out.add((ty['path'], e['i']))
            ty = P.types[e['ty']]
    for b, i, s in inst.stmts():
        if s['k'] != 'assign':
            continue
        scan_place(s['p'])
        rv = s['rv']
        for key in ('op', 'a', 'b'):
            o = rv.get(key)
            if isinstance(o, dict) and o.get('k') in ('copy', 'move'):
                scan_place(o['p'])
        for o in rv.get('ops', []):
            if o.get('k') in ('copy', 'move'):
                scan_place(o['p'])
        if 'p' in rv and isinstance(rv['p'], dict):
            scan_place(rv['p'])
    for b, t in inst.calls():
        for a in t['args']:
            if a.get('k') in ('copy', 'move'):
                scan_place(a['p'])
    return out


def construction_sites(P):
    """[(struct path, inst, loc, fn instance key or None, union field idx or None, problems)]"""
    sites = []
    for inst in P.local_instances():
        if not inst.has_body:
            continue
        for b, i, s in inst.stmts():
            if s['k'] != 'assign' or s['rv']['k'] != 'agg' or s['rv'].get('ak') != 'adt':
                continue
            path = s['rv']['path']
            if path not in TARGETS:
                continue
            sty = P.types[s['rv']['ty']]
            fields = sty['variants'][0]['fields']
            fn_key, ufield, problems = None, None, []
            for fi, f in enumerate(fields):
                fty = P.types[f['ty']]
                o = s['rv']['ops'][fi]
                if fty['kind'] == 'fnptr':
                    fs = []
                    for src in sources(inst, o):
                        c = fn_const_instance(P, src[1]) if src[0] == 'const' else None
                        if c:
                            fs.append(c['inst'])
                        else:
                            problems.append(f"fn-pointer field from {src[0]}")
                    if len(set(fs)) == 1:
                        fn_key = fs[0]
                    elif fs:
                        problems.append(f"several functions flow into the fn-pointer field: {sorted(set(fs))}")
                elif fty.get('path') == TARGETS[path]:
                    us = []
                    for src in sources(inst, o):
                        if src[0] == 'rv' and src[2]['k'] == 'agg' and 'union_field' in src[2]:
                            us.append(src[2]['union_field'])
                        else:
                            problems.append(f"union field from {src[0]}")
                    if len(set(us)) == 1:
                        ufield = us[0]
                    elif us:
                        problems.append(f"several union fields: {sorted(set(us))}")
            sites.append((path, inst, s['loc'], fn_key, ufield, problems))
    return sites


def pairs(P):
    """{struct path: sorted list of (fn key, union field idx)} over all construction sites"""
    out = {}
    for (path, inst, loc, fn_key, ufield, problems) in construction_sites(P):
        if fn_key is not None and ufield is not None:
            out.setdefault(path, set()).add((fn_key, ufield))
    return {k: sorted(v) for k, v in out.items()}
