"""IFUNC-SET: points-to analysis of the crate's function-pointer statics.

For every `static` of the crate: its const-evaluated initialiser, every
reference to it in any body, what that reference is used for (only
AtomicPtr::load / ::store as receiver is accepted), and the set of function
items that can flow into a store.  Also the call made through the loaded
value (transmute target type vs. member signatures)."""
from .prog import sources, uses, fn_const_instance

ATOMIC_LOAD = 'core::sync::atomic::Atomic::<*mut ()>::load'
ATOMIC_STORE = 'core::sync::atomic::Atomic::<*mut ()>::store'


class Static:
    def __init__(self, fact):
        self.path = fact['path']
        self.fact = fact
        self.init = [p['fn'] for p in fact['init_ptrs'] if 'fn' in p]
        self.init_other = [p for p in fact['init_ptrs'] if 'fn' not in p]
        self.loads = []      # (inst, bb, term)
        self.stores = []     # (inst, bb, term, [callee records], unknown_sources)
        self.bad_uses = []   # (inst, bb, description)

    def fnset(self):
        s = {f['inst']: f for f in self.init}
        for (_, _, _, fns, _) in self.stores:
            for f in fns:
                s[f['inst']] = f
        return s


def analyse(P):
    statics = {f['path']: Static(f) for f in P.facts['statics']}
    for inst in P.local_instances():
        if not inst.has_body:
            continue
        # locals that hold a reference to a static
        holders = {}
        for b, i, s in inst.stmts():
            if s['k'] != 'assign':
                continue
            rv = s['rv']
            for o in ([rv['op']] if rv['k'] in ('use', 'cast') and 'op' in rv else []):
                if o['k'] == 'const' and o.get('ck') == 'ptr' and 'static' in o:
                    if s['p']['pr']:
                        st = statics.get(o['static'])
                        if st:
                            st.bad_uses.append((inst, b, 'static reference stored into a projection'))
                    else:
                        holders.setdefault(s['p']['l'], set()).add(o['static'])
        # static refs passed directly as call args
        for b, t in inst.calls():
            for a in t['args']:
                if a['k'] == 'const' and a.get('ck') == 'ptr' and 'static' in a:
                    st = statics.get(a['static'])
                    if st:
                        st.bad_uses.append((inst, b, 'static reference passed directly to a call'))
        # propagate through reborrows / copies
        changed = True
        while changed:
            changed = False
            for b, i, s in inst.stmts():
                if s['k'] != 'assign' or s['p']['pr']:
                    continue
                rv = s['rv']
                src = None
                if rv['k'] == 'ref' and len(rv['p']['pr']) == 1 and rv['p']['pr'][0]['k'] == 'deref':
                    src = rv['p']['l']
                elif rv['k'] in ('use', 'cast') and rv['op']['k'] in ('copy', 'move') and not rv['op']['p']['pr']:
                    src = rv['op']['p']['l']
                if src in holders:
                    cur = holders.setdefault(s['p']['l'], set())
                    if not holders[src] <= cur:
                        cur |= holders[src]
                        changed = True
        for l, sts in holders.items():
            for (b, role, node) in uses(inst, l):
                ok = False
                if role == 'borrow' and node['k'] == 'assign' and node['rv']['k'] == 'ref' and not node['p']['pr']:
                    ok = True   # reborrow into another tracked holder
                elif role == 'operand' and node['k'] == 'assign' and node['rv']['k'] in ('use', 'cast') and not node['p']['pr'] \
                        and node['p']['l'] in holders:
                    ok = True
                elif role == 'arg0' and node['k'] == 'call':
                    cp = node['callee'].get('inst')
                    if cp == ATOMIC_LOAD:
                        ok = True
                        for s_ in sts:
                            statics[s_].loads.append((inst, b, node))
                    elif cp == ATOMIC_STORE:
                        ok = True
                        fns, unknown = stored_fn_items(P, inst, node['args'][1])
                        for s_ in sts:
                            statics[s_].stores.append((inst, b, node, fns, unknown))
                if not ok:
                    for s_ in sts:
                        if s_ in statics:
                            statics[s_].bad_uses.append((inst, b, f'use of static reference as {role} of {node.get("k")}'))
    return statics


def stored_fn_items(P, inst, op, depth=0):
    """function items that can flow into operand `op`: constants on its copy/cast chain, and -- through a call of a
    crate-local helper (a selection ladder written as its own function) -- whatever that helper can return"""
    fns, unknown = [], []
    for sr in sources(inst, op):
        if sr[0] == 'const':
            f = fn_const_instance(P, sr[1])
            if f:
                fns.append(f)
                continue
        if sr[0] == 'call' and depth < 3:
            callee = P.instances.get(sr[2]['callee'].get('inst') or '')
            if callee is not None and callee.local and callee.has_body:
                f2, u2 = stored_fn_items(P, callee, 0, depth + 1)
                if f2 or u2:
                    fns += f2
                    unknown += u2
                    continue
        unknown.append(sr[0])
    return fns, unknown


def fn_signature(P, callee):
    """(arg type strs, ret type str, unsafe) of an instance from its body locals"""
    inst = P.instances.get(callee['inst']) if callee.get('inst') else None
    if inst is None or not inst.has_body:
        return None
    n = inst.arg_count
    tys = [P.types[t]['str'] for t in inst.locals[:n + 1]]
    return (tuple(tys[1:]), tys[0], inst.is_unsafe_fn)


def loaded_calls(P, inst, load_term):
    """Indirect calls whose function operand traces back (through casts,
    incl. the transmute) to the result of this FN.load(): [(fnptr type, call term)]."""
    out = []
    for b, t in inst.calls():
        c = t['callee']
        if 'indirect' in c:
            ss = sources(inst, c['indirect'])
            if any(x[0] == 'call' and x[2] is load_term for x in ss):
                out.append((P.types[c['fty']], t))
    return out
