"""E6 -- lane laws: the vector axioms of E2/E3 decided for each backend's implementation.

E2/E3 reason about the searchers relative to the *meaning* of the `Vector` / `MoveMask` trait methods
(DESIGN section 4: cmpeq is lane-wise equality, movemask puts lane i at the mask positions of lane i,
first_offset is the index of the lowest set lane, count_ones the number of set lanes, ...).  This module
decides those axioms from the MIR of `src/vector.rs` itself, per configuration, by a *bit-provenance
dataflow*: every bit of every SIMD / integer value in these small loop-free functions is abstracted by
the Boolean function of the input lane predicates it equals (kept canonical as a reduced ordered BDD, so
"the same function" is node identity), integers are vectors of such bits, and every vendor intrinsic and
integer primitive the functions call has an exact transfer function in the table below.  Nothing is run
and no solver is consulted: the analysis is a forward dataflow over the (acyclic) CFG with an exact join.

A law is  VIOLATED  only when every bit it needs is known and differs; an operation without a transfer
function makes the affected bits unknown and the law UNDECIDED (reported in the evidence, not an alarm)."""
import re

# ------------------------------------------------------------------ reduced ordered BDDs
class BDD:
    def __init__(self):
        self.n = [(1 << 30, 0, 0), (1 << 30, 1, 1)]     # (var, lo, hi); 0 = False, 1 = True
        self.u = {}
        self.names = []
        self.memo = {}

    def var(self, name):
        self.names.append(name)
        return self.mk(len(self.names) - 1, 0, 1)

    def mk(self, v, lo, hi):
        if lo == hi:
            return lo
        k = (v, lo, hi)
        r = self.u.get(k)
        if r is None:
            r = len(self.n)
            self.n.append(k)
            self.u[k] = r
        return r

    def ite(self, f, g, h):
        if f == 1:
            return g
        if f == 0:
            return h
        if g == h:
            return g
        if g == 1 and h == 0:
            return f
        k = (f, g, h)
        r = self.memo.get(k)
        if r is not None:
            return r
        n = self.n
        v = min(n[f][0], n[g][0], n[h][0])
        def co(x, b):
            return (n[x][2] if b else n[x][1]) if n[x][0] == v else x
        r = self.mk(v, self.ite(co(f, 0), co(g, 0), co(h, 0)), self.ite(co(f, 1), co(g, 1), co(h, 1)))
        self.memo[k] = r
        return r

    def NOT(self, a):
        return self.ite(a, 0, 1)

    def AND(self, a, b):
        return self.ite(a, b, 0)

    def OR(self, a, b):
        return self.ite(a, 1, b)

    def XOR(self, a, b):
        return self.ite(a, self.NOT(b), b)

    def witness(self, f):
        """one assignment making f true: the names of the variables set to 1 (all others 0 / don't care)"""
        on = []
        while f not in (0, 1):
            v, lo, hi = self.n[f]
            if lo != 0:
                f = lo
            else:
                on.append(self.names[v])
                f = hi
        return on

    def value(self, f, on):
        on = set(on)
        while f not in (0, 1):
            v, lo, hi = self.n[f]
            f = hi if self.names[v] in on else lo
        return f

    def show(self, f, depth=0):
        if f in (0, 1):
            return str(f)
        v, lo, hi = self.n[f]
        if lo == 0 and hi == 1:
            return self.names[v]
        if lo == 1 and hi == 0:
            return '!' + self.names[v]
        if depth > 2:
            return f'<fn of {self.names[v]}..>'
        return f'({self.names[v]} ? {self.show(hi, depth + 1)} : {self.show(lo, depth + 1)})'


class Undecided(Exception):
    pass


# ------------------------------------------------------------------ bits (BDD node or None = unknown)
class Bits:
    """operations on single abstract bits: a BDD node, or None when unknown"""
    def __init__(self, bdd):
        self.b = bdd

    def AND(self, x, y):
        if x == 0 or y == 0:
            return 0
        if x is None or y is None:
            return None
        return self.b.AND(x, y)

    def OR(self, x, y):
        if x == 1 or y == 1:
            return 1
        if x is None or y is None:
            return None
        return self.b.OR(x, y)

    def XOR(self, x, y):
        if x is None or y is None:
            return None
        return self.b.XOR(x, y)

    def NOT(self, x):
        return None if x is None else self.b.NOT(x)

    def ITE(self, c, x, y):
        if c == 1:
            return x
        if c == 0:
            return y
        if x is not None and x == y:
            return x
        if c is None or x is None or y is None:
            return None
        return self.b.ite(c, x, y)


class BV:
    """little-endian vector of abstract bits"""
    __slots__ = ('bits',)

    def __init__(self, bits):
        self.bits = list(bits)

    @property
    def w(self):
        return len(self.bits)


class Tup:
    __slots__ = ('vals',)

    def __init__(self, vals):
        self.vals = list(vals)


class Ptr:
    __slots__ = ('name',)

    def __init__(self, name):
        self.name = name


def const_bv(v, w):
    return BV([(v >> i) & 1 for i in range(w)])


def unknown_bv(w):
    return BV([None] * w)


# ------------------------------------------------------------------ the evaluator
class Eval:
    def __init__(self, facts):
        self.P = facts
        self.T = facts['types']
        self.I = facts['instances']
        self.bdd = BDD()
        self.B = Bits(self.bdd)
        self.mem = {}
        self.unknown_ops = []          # operations without a transfer function that were met
        self.ops_seen = set()

    # ---- bit-vector arithmetic
    def zext(self, x, w):
        return BV(x.bits[:w] + [0] * max(0, w - x.w))

    def sext(self, x, w):
        return BV(x.bits[:w] + [x.bits[-1]] * max(0, w - x.w))

    def bitwise(self, op, x, y):
        f = {'and': self.B.AND, 'or': self.B.OR, 'xor': self.B.XOR}[op]
        return BV([f(a, b) for a, b in zip(x.bits, y.bits)])

    def NOTv(self, x):
        return BV([self.B.NOT(a) for a in x.bits])

    def add(self, x, y, cin=0):
        B = self.B
        out, c = [], cin
        for a, b in zip(x.bits, y.bits):
            axb = B.XOR(a, b)
            out.append(B.XOR(axb, c))
            c = B.OR(B.AND(a, b), B.AND(axb, c))
        return BV(out), c

    def sub(self, x, y):
        r, c = self.add(x, self.NOTv(y), 1)
        return r, self.B.NOT(c)          # borrow

    def ult(self, x, y):
        return self.sub(x, y)[1]

    def eqv(self, x, y):
        B = self.B
        r = 1
        for a, b in zip(x.bits, y.bits):
            r = B.AND(r, B.NOT(B.XOR(a, b)))
        return r

    def orall(self, x):
        r = 0
        for a in x.bits:
            r = self.B.OR(r, a)
        return r

    def mux(self, c, x, y):
        return BV([self.B.ITE(c, a, b) for a, b in zip(x.bits, y.bits)])

    def shl_const(self, x, k):
        k = min(k, x.w)
        return BV([0] * k + x.bits[:x.w - k])

    def shr_const(self, x, k, signed=False):
        k = min(k, x.w)
        fill = x.bits[-1] if signed else 0
        return BV(x.bits[k:] + [fill] * k)

    def shift(self, x, amt, left, signed=False):
        """barrel shifter; the amount is taken modulo the width (a wider amount panics in debug builds and
        is masked otherwise -- the laws only use in-range amounts)"""
        r = x
        nb = max(1, (x.w - 1).bit_length())
        for k in range(min(nb, amt.w)):
            s = self.shl_const(r, 1 << k) if left else self.shr_const(r, 1 << k, signed)
            r = self.mux(amt.bits[k], s, r)
        return r

    def popcount(self, x, w):
        acc = const_bv(0, w)
        for a in x.bits:
            acc, _ = self.add(acc, BV([a] + [0] * (w - 1)))
        return acc

    def tz(self, x, w):
        r = const_bv(x.w, w)
        for p in range(x.w - 1, -1, -1):
            r = self.mux(x.bits[p], const_bv(p, w), r)
        return r

    def lz(self, x, w):
        r = const_bv(x.w, w)
        for p in range(x.w):
            r = self.mux(x.bits[p], const_bv(x.w - 1 - p, w), r)
        return r

    def umax(self, x, y):
        return self.mux(self.ult(x, y), y, x)

    def lanes(self, x, lw):
        return [BV(x.bits[i:i + lw]) for i in range(0, x.w, lw)]

    def join(self, ls):
        out = []
        for l in ls:
            out += l.bits
        return BV(out)

    # ---- types
    def width(self, tid):
        t = self.T[tid]
        if t['kind'] == 'bool':
            return 1
        return t.get('size', 0) * 8

    def signed(self, tid):
        return bool(self.T[tid].get('signed'))

    def load(self, p, nbytes):
        key = (p.name, nbytes)
        if key not in self.mem:
            self.mem[key] = BV([self.bdd.var(f'{p.name}[{i}].{k}') for i in range(nbytes) for k in range(8)])
        return self.mem[key]

    # ---- function evaluation: forward dataflow over the acyclic CFG with exact (guarded) join
    def call_fn(self, key, args, depth=0):
        fn = self.I.get(key)
        if fn is None or 'blocks' not in fn or depth > 8:
            raise Undecided(f'no body for {key}')
        blocks = fn['blocks']
        order, state = [], {}
        def dfs(b):
            if state.get(b) == 1:
                raise Undecided(f'loop in {key}')
            if state.get(b) == 2:
                return
            state[b] = 1
            for s in self.succs(blocks[b]['term']):
                dfs(s)
            state[b] = 2
            order.append(b)
        dfs(0)
        order.reverse()
        env0 = {i + 1: a for i, a in enumerate(args)}
        incoming = {0: [(1, env0)]}
        returns = []
        for b in order:
            ins = [(g, e) for g, e in incoming.get(b, []) if g != 0]
            if not ins:
                continue
            guard, env = self.merge(ins)
            for s in blocks[b]['stmts']:
                if s['k'] == 'assign':
                    self.assign(fn, env, s['p'], self.rvalue(fn, env, s['rv']))
            t = blocks[b]['term']
            k = t['k']
            def edge(tgt, g):
                if tgt is not None and g != 0:
                    incoming.setdefault(tgt, []).append((g, dict(env)))
            if k == 'goto' or k == 'drop':
                edge(t['t'], guard)
            elif k == 'return':
                returns.append((guard, env.get(0)))
            elif k == 'switch':
                v = self.operand(fn, env, t['op'])
                rest = guard
                for val, tgt in t['cases']:
                    c = self.eqv(v, const_bv(val, v.w)) if isinstance(v, BV) else None
                    edge(tgt, self.B.AND(rest, c))
                    rest = self.B.AND(rest, self.B.NOT(c))
                edge(t['otherwise'], rest)
            elif k == 'assert':
                c = self.operand(fn, env, t['cond'])
                c = c.bits[0] if isinstance(c, BV) else None
                if not t.get('expected', True):
                    c = self.B.NOT(c)
                # the panicking edge is not followed: the laws are stated under the methods' preconditions
                edge(t['t'], guard if c is None else self.B.AND(guard, c) if self.B.AND(guard, c) is not None else guard)
            elif k == 'call':
                r = self.call(fn, env, t, depth)
                if t.get('t') is not None:
                    self.assign(fn, env, t['dest'], r)
                    edge(t['t'], guard)
            elif k == 'unreachable':
                pass
            else:
                raise Undecided(f'terminator {k} in {key}')
        if not returns:
            raise Undecided(f'{key} never returns')
        res = returns[-1][1]
        for g, v in reversed(returns[:-1]):
            res = self.muxval(g, v, res)
        return res

    def succs(self, t):
        k = t['k']
        if k in ('goto', 'drop', 'assert'):
            return [t['t']]
        if k == 'switch':
            return [x[1] for x in t['cases']] + [t['otherwise']]
        if k == 'call':
            return [t['t']] if t.get('t') is not None else []
        return []

    def muxval(self, c, x, y):
        if x is y:
            return x
        if isinstance(x, BV) and isinstance(y, BV) and x.w == y.w:
            return self.mux(c, x, y)
        if isinstance(x, Tup) and isinstance(y, Tup) and len(x.vals) == len(y.vals):
            return Tup([self.muxval(c, a, b) for a, b in zip(x.vals, y.vals)])
        if isinstance(x, Ptr) and isinstance(y, Ptr) and x.name == y.name:
            return x
        if isinstance(x, BV):
            return unknown_bv(x.w)
        if isinstance(y, BV):
            return unknown_bv(y.w)
        return None

    def merge(self, ins):
        if len(ins) == 1:
            return ins[0]
        guard = 0
        for g, _ in ins:
            guard = self.B.OR(guard, g)
        env = dict(ins[-1][1])
        for g, e in reversed(ins[:-1]):
            for l in set(env) | set(e):
                if l in env and l in e:
                    env[l] = self.muxval(g, e[l], env[l])
                elif l in e:
                    env[l] = e[l]
        return guard, env

    # ---- places / operands / rvalues
    def local_ty(self, fn, l):
        d = fn['locals'][l]
        return d['ty'] if isinstance(d, dict) else d

    def fresh_for(self, tid):
        w = self.width(tid)
        return unknown_bv(w) if w else None

    def read_place(self, fn, env, p):
        v = env.get(p['l'])
        for pr in p['pr']:
            if pr['k'] == 'field':
                if isinstance(v, Tup):
                    v = v.vals[pr['i']]
                elif isinstance(v, BV) and pr['i'] == 0 and self.width(pr['ty']) == v.w:
                    pass                                   # transparent single-field wrapper (NeonMoveMask(u64), SIMD newtypes)
                else:
                    v = self.fresh_for(pr['ty'])
            elif pr['k'] == 'deref':
                if isinstance(v, Ptr):
                    v = self.load(v, self.T[pr['ty']].get('size', 0))
                else:
                    v = self.fresh_for(pr['ty'])
            else:
                v = self.fresh_for(pr.get('ty')) if pr.get('ty') is not None else None
        return v

    def assign(self, fn, env, p, v):
        if not p['pr']:
            if v is None:
                v = self.fresh_for(self.local_ty(fn, p['l']))
            env[p['l']] = v
        elif len(p['pr']) == 1 and p['pr'][0]['k'] == 'field' and isinstance(env.get(p['l']), Tup):
            t = env[p['l']]
            vals = list(t.vals)
            vals[p['pr'][0]['i']] = v
            env[p['l']] = Tup(vals)
        else:
            env[p['l']] = self.fresh_for(self.local_ty(fn, p['l']))

    def operand(self, fn, env, op):
        if op['k'] in ('copy', 'move'):
            return self.read_place(fn, env, op['p'])
        if op['k'] == 'const':
            if op.get('ck') == 'int':
                w = self.width(op['ty'])
                return const_bv(op['v'] & ((1 << w) - 1), w)
            if op.get('ck') == 'bool':
                return const_bv(1 if op.get('v') else 0, 1)
            return self.fresh_for(op['ty'])
        return None

    def rvalue(self, fn, env, rv):
        k = rv['k']
        if k == 'use':
            return self.operand(fn, env, rv['op'])
        if k == 'cast':
            v = self.operand(fn, env, rv['op'])
            ck = rv['ck']
            if ck == 'IntToInt' and isinstance(v, BV):
                w = self.width(rv['ty'])
                return self.sext(v, w) if self.signed(rv['from']) else self.zext(v, w)
            if ck in ('PtrToPtr', 'Transmute') or ck.startswith('Coerce') or ck.startswith('Pointer'):
                if isinstance(v, Ptr):
                    return v
                if ck == 'Transmute' and isinstance(v, BV) and v.w == self.width(rv['ty']):
                    return v if self.P.get('endian', 'little') == 'little' else unknown_bv(v.w)
            return self.fresh_for(rv['ty'])
        if k == 'bin':
            return self.binop(fn, env, rv)
        if k == 'un':
            v = self.operand(fn, env, rv['a'])
            if isinstance(v, BV):
                if rv['op'] == 'Not':
                    return self.NOTv(v)
                if rv['op'] == 'Neg':
                    return self.sub(const_bv(0, v.w), v)[0]
            return self.fresh_for(rv['ty'])
        if k == 'agg':
            ops = [self.operand(fn, env, o) for o in rv['ops']]
            if rv.get('ak') == 'adt' and len(ops) == 1 and isinstance(ops[0], BV) and ops[0].w == self.width(rv['ty']):
                return ops[0]
            if rv.get('ak') == 'tuple':
                return Tup(ops)
            return self.fresh_for(rv['ty'])
        if k in ('ref', 'rawptr'):
            p = rv['p']
            if len(p['pr']) == 1 and p['pr'][0]['k'] == 'deref' and isinstance(env.get(p['l']), Ptr):
                return env[p['l']]
            return None
        return self.fresh_for(rv['ty']) if rv.get('ty') is not None else None

    def binop(self, fn, env, rv):
        op = rv['op']
        a, b = self.operand(fn, env, rv['a']), self.operand(fn, env, rv['b'])
        w = self.width(rv['ty']) if self.T[rv['ty']]['kind'] != 'tuple' else None
        if not (isinstance(a, BV) and isinstance(b, BV)):
            return self.fresh_for(rv['ty']) if w else Tup([self.fresh_for(rv['aty']), unknown_bv(1)])
        sg = self.signed(rv['aty'])
        if op in ('Shl', 'Shr', 'ShlUnchecked', 'ShrUnchecked'):
            return self.shift(a, b, op.startswith('Shl'), sg)
        if a.w != b.w:
            return self.fresh_for(rv['ty'])
        if op == 'BitAnd':
            return self.bitwise('and', a, b)
        if op == 'BitOr':
            return self.bitwise('or', a, b)
        if op == 'BitXor':
            return self.bitwise('xor', a, b)
        if op in ('Add', 'AddUnchecked'):
            return self.add(a, b)[0]
        if op in ('Sub', 'SubUnchecked'):
            return self.sub(a, b)[0]
        if op in ('AddWithOverflow', 'SubWithOverflow') and not sg:
            r, c = self.add(a, b) if op.startswith('Add') else self.sub(a, b)
            return Tup([r, BV([c])])
        def cval(x):
            return sum(bit << i for i, bit in enumerate(x.bits)) if all(bit in (0, 1) for bit in x.bits) else None
        ca, cb = cval(a), cval(b)
        if op in ('Div', 'Rem') and not sg and ca is not None and cb:
            return const_bv(ca // cb if op == 'Div' else ca % cb, a.w)
        if op in ('Mul', 'MulUnchecked', 'MulWithOverflow') and (ca is not None or cb is not None):
            x, c = (b, ca) if ca is not None else (a, cb)        # multiplication by a constant: shift-and-add
            acc = const_bv(0, a.w)
            for k in range(a.w):
                if (c >> k) & 1:
                    acc, _ = self.add(acc, self.shl_const(x, k))
            if op == 'MulWithOverflow':
                return Tup([acc, unknown_bv(1)])
            return acc
        if op in ('Div', 'Rem', 'Mul', 'MulUnchecked') and not sg and all(x in (0, 1) for x in b.bits) and sum(b.bits) == 1:
            k = b.bits.index(1)               # by a constant power of two
            if op == 'Div':
                return self.shr_const(a, k)
            if op == 'Rem':
                return BV(a.bits[:k] + [0] * (a.w - k))
            return self.shl_const(a, k)
        if op in ('Eq', 'Ne'):
            e = self.eqv(a, b)
            return BV([e if op == 'Eq' else self.B.NOT(e)])
        if op in ('Lt', 'Le', 'Gt', 'Ge'):
            if sg:                                   # flip the sign bits: signed order = unsigned order of the flipped values
                a = BV(a.bits[:-1] + [self.B.NOT(a.bits[-1])])
                b = BV(b.bits[:-1] + [self.B.NOT(b.bits[-1])])
            lt = self.ult(a, b) if op in ('Lt', 'Ge') else self.ult(b, a)
            return BV([lt if op in ('Lt', 'Gt') else self.B.NOT(lt)])
        self.note_unknown(f'binop {op}')
        if w:
            return unknown_bv(w)
        return Tup([unknown_bv(a.w), unknown_bv(1)])

    def note_unknown(self, what):
        if what not in self.unknown_ops:
            self.unknown_ops.append(what)

    # ---- calls: transfer functions of the vendor intrinsics and integer primitives
    def call(self, fn, env, t, depth):
        cal = t['callee']
        inst, path = cal.get('inst', ''), cal.get('path', '')
        args = [self.operand(fn, env, a) for a in t['args']]
        rty = self.local_ty(fn, t['dest']['l']) if not t['dest']['pr'] else None
        rw = self.width(rty) if rty is not None else 0
        if cal.get('krate') == self.P['crate'] and inst in self.I and 'blocks' in self.I[inst]:
            return self.call_fn(inst, args, depth + 1)
        r = self.intrinsic(inst, path, args, rw, t, fn)
        if r is not None:
            self.ops_seen.add(path)
            return r
        self.note_unknown(f'call {path}')
        return unknown_bv(rw) if rw else None

    def generic_const(self, inst):
        m = re.search(r'::<(-?\d+)>$', inst)
        return int(m.group(1)) if m else None

    def intrinsic(self, inst, path, args, rw, t, fn):
        B = self.B
        name = path.rsplit('::', 1)[-1]
        a0 = args[0] if args else None
        a1 = args[1] if len(args) > 1 else None
        vec = path.startswith(('core::arch::', 'core::core_arch::'))
        le = self.P.get('endian', 'little') == 'little'
        if vec and isinstance(a0, (BV, type(None))) or vec and isinstance(a0, Ptr):
            # ---- aarch64 NEON
            if re.match(r'^vreinterpretq?_[a-z]\d+_[a-z]\d+$', name) and isinstance(a0, BV):
                if le:
                    return a0
                self.note_unknown('vreinterpret on a big-endian target (the lane order of the reinterpretation is not modelled)')
                return unknown_bv(rw) if rw else None
            m = re.match(r'^vshrn_n_u(16|32|64)$', name)
            if m and isinstance(a0, BV):
                lw, n = int(m.group(1)), self.generic_const(inst)
                if n is not None:
                    return self.join([BV(self.shr_const(l, n).bits[:lw // 2]) for l in self.lanes(a0, lw)])
            m = re.match(r'^vgetq?_lane_[us](8|16|32|64)$', name)
            if m and isinstance(a0, BV):
                lw, i = int(m.group(1)), self.generic_const(inst)
                if i is not None and (i + 1) * lw <= a0.w:
                    return BV(a0.bits[i * lw:(i + 1) * lw])
            if name in ('vpmaxq_u8', 'vpmax_u8') and isinstance(a0, BV) and isinstance(a1, BV):
                out = []
                for src in (a0, a1):
                    ls = self.lanes(src, 8)
                    out += [self.umax(ls[2 * j], ls[2 * j + 1]) for j in range(len(ls) // 2)]
                return self.join(out)
            if name in ('vmaxvq_u8', 'vmaxv_u8') and isinstance(a0, BV):
                ls = self.lanes(a0, 8)
                r = ls[0]
                for l in ls[1:]:
                    r = self.umax(r, l)
                return r
            m = re.match(r'^vshrq?_n_u(8|16|32|64)$', name)
            if m and isinstance(a0, BV) and self.generic_const(inst) is not None:
                return self.join([self.shr_const(l, self.generic_const(inst)) for l in self.lanes(a0, int(m.group(1)))])
            m = re.match(r'^vshlq?_n_u(8|16|32|64)$', name)
            if m and isinstance(a0, BV) and self.generic_const(inst) is not None:
                return self.join([self.shl_const(l, self.generic_const(inst)) for l in self.lanes(a0, int(m.group(1)))])
            m = re.match(r'^(?:vceqq?_[us](\d+)|_mm(?:256)?_cmpeq_epi(\d+)|[ui](\d+)x\d+_eq)$', name)
            if m and isinstance(a0, BV) and isinstance(a1, BV):
                lw = int(m.group(1) or m.group(2) or m.group(3))
                return self.join([BV([self.eqv(x, y)] * lw) for x, y in zip(self.lanes(a0, lw), self.lanes(a1, lw))])
            if re.match(r'^(vandq?_u(8|16|32|64)|_mm_and_si128|_mm256_and_si256|v128_and)$', name) and isinstance(a0, BV) and isinstance(a1, BV):
                return self.bitwise('and', a0, a1)
            if re.match(r'^(vorrq?_u(8|16|32|64)|_mm_or_si128|_mm256_or_si256|v128_or)$', name) and isinstance(a0, BV) and isinstance(a1, BV):
                return self.bitwise('or', a0, a1)
            if re.match(r'^(veorq?_u(8|16|32|64)|_mm_xor_si128|_mm256_xor_si256|v128_xor)$', name) and isinstance(a0, BV) and isinstance(a1, BV):
                return self.bitwise('xor', a0, a1)
            if re.match(r'^(vmvnq?_u(8|16|32)|v128_not)$', name) and isinstance(a0, BV):
                return self.NOTv(a0)
            if name in ('vdupq_n_u8', 'vmovq_n_u8', '_mm_set1_epi8', '_mm256_set1_epi8', 'u8x16_splat', 'i8x16_splat') and isinstance(a0, BV) and a0.w == 8 and rw:
                return self.join([a0] * (rw // 8))
            if name in ('_mm_setzero_si128', '_mm256_setzero_si256') and rw:
                return const_bv(0, rw)
            if name in ('vld1q_u8', '_mm_load_si128', '_mm_loadu_si128', '_mm256_load_si256', '_mm256_loadu_si256', 'v128_load') and isinstance(a0, Ptr) and rw:
                return self.load(a0, rw // 8)
            if name in ('_mm_movemask_epi8', '_mm256_movemask_epi8', 'u8x16_bitmask', 'i8x16_bitmask') and isinstance(a0, BV) and rw:
                ls = self.lanes(a0, 8)
                return self.zext(BV([l.bits[7] for l in ls]), rw)
            if name == 'v128_any_true' and isinstance(a0, BV):
                return BV([self.orall(a0)])
            return None
        m = re.match(r'^core::num::<impl ([ui])(\d+|size)>::(\w+)$', path)
        if m and isinstance(a0, BV):
            meth = m.group(3)
            if meth == 'trailing_zeros':
                return self.tz(a0, rw)
            if meth == 'leading_zeros':
                return self.lz(a0, rw)
            if meth == 'count_ones':
                return self.popcount(a0, rw)
            if meth == 'count_zeros':
                return self.popcount(self.NOTv(a0), rw)
            if meth == 'swap_bytes':
                return self.join(list(reversed(self.lanes(a0, 8))))
            if meth in ('to_le', 'from_le'):
                return a0 if le else self.join(list(reversed(self.lanes(a0, 8))))
            if meth in ('to_be', 'from_be'):
                return a0 if not le else self.join(list(reversed(self.lanes(a0, 8))))
            if meth == 'wrapping_sub' and isinstance(a1, BV):
                return self.sub(a0, a1)[0]
            if meth == 'wrapping_add' and isinstance(a1, BV):
                return self.add(a0, a1)[0]
            if meth == 'wrapping_neg':
                return self.sub(const_bv(0, a0.w), a0)[0]
            if meth in ('wrapping_shl', 'wrapping_shr', 'unchecked_shl', 'unchecked_shr') and isinstance(a1, BV):
                return self.shift(a0, a1, meth.endswith('shl'), m.group(1) == 'i')
            if meth == 'is_power_of_two':
                r, _ = self.sub(a0, const_bv(1, a0.w))
                return BV([B.AND(self.orall(a0), B.NOT(self.orall(self.bitwise('and', a0, r))))])
            return None
        if name in ('from', 'into') and ('core::convert::' in path or 'convert::num' in path) and isinstance(a0, BV) and rw >= a0.w:
            src = t['args'][0]
            sty = self.local_ty(fn, src['p']['l']) if src.get('p') and not src['p']['pr'] else None
            if sty is not None and self.T[sty]['kind'] in ('int', 'bool'):
                return self.sext(a0, rw) if self.signed(sty) else self.zext(a0, rw)
            return None
        if re.search(r'::(cast|cast_const|cast_mut|as_ptr)(::<.*>)?$', inst) and isinstance(a0, Ptr):
            return a0
        if re.search(r'core::ptr::(read|read_unaligned)(::<.*>)?$', inst) and isinstance(a0, Ptr) and rw:
            return self.load(a0, rw // 8)
        if path in ('core::intrinsics::cttz', 'core::intrinsics::cttz_nonzero') and isinstance(a0, BV):
            return self.tz(a0, rw)
        if path in ('core::intrinsics::ctlz', 'core::intrinsics::ctlz_nonzero') and isinstance(a0, BV):
            return self.lz(a0, rw)
        if path == 'core::intrinsics::ctpop' and isinstance(a0, BV):
            return self.popcount(a0, rw)
        return None


# ------------------------------------------------------------------ the laws
VEC_RE = re.compile(r'<impl vector::Vector for (?P<T>[^>]+)>::(?P<m>\w+)$|^<(?P<T2>[^ ]+) as vector::Vector>::(?P<m2>\w+)$')
MASK_RE = re.compile(r'^<(?P<M>[^ ]+) as vector::MoveMask>::(?P<m>\w+)$|<impl vector::MoveMask for (?P<M2>[^>]+)>::(?P<m2>\w+)$')

VECTOR_LAWS = ('splat', 'load_aligned', 'load_unaligned', 'cmpeq', 'and', 'or', 'movemask', 'movemask_will_have_non_zero')
MASK_LAWS = ('has_non_zero', 'count_ones', 'and', 'or', 'clear_least_significant_bit', 'first_offset', 'last_offset',
             'all_zeros_except_least_significant')

LAW_TEXT = {
    'V.splat': 'every lane of splat(b) is the byte b',
    'V.load_aligned': 'load_aligned(p) is the BYTES bytes at p in address order',
    'V.load_unaligned': 'load_unaligned(p) is the BYTES bytes at p in address order',
    'V.cmpeq': 'lane i of cmpeq(a, b) is all-ones when a[i] == b[i] and all-zeros otherwise',
    'V.and': 'and is bitwise',
    'V.or': 'or is bitwise',
    'V.movemask': 'movemask of lane predicates: every mask bit is 0 or the predicate of ONE lane, every lane reaches the mask, '
                  'and lanes appear in ascending bit order',
    'V.movemask_will_have_non_zero': 'movemask_will_have_non_zero(v) is true exactly when some lane predicate of v is true',
    'S.has_zero_byte': 'has_zero_byte(x) (portable SWAR) is true whenever some byte of the word x is zero (no false negative; a false positive only costs a byte-wise rescan)',
    'S.splat': 'every byte of the word splat(b) (portable SWAR) is b',
    'M.has_non_zero': 'has_non_zero(m) is true exactly when some lane of m is set',
    'M.count_ones': 'count_ones(m) is the NUMBER of set lanes of m',
    'M.and': 'and(m1, m2) has exactly the lanes set in both',
    'M.or': 'or(m1, m2) has exactly the lanes set in either',
    'M.clear_least_significant_bit': 'clear_least_significant_bit(m), m non-zero, has the lanes of m except the lowest set one',
    'M.first_offset': 'first_offset(m), m non-zero, is the index of the lowest set lane',
    'M.last_offset': 'last_offset(m), m non-zero, is the index of the highest set lane',
    'M.all_zeros_except_least_significant': 'm.and(all_zeros_except_least_significant(n)), n < lanes, keeps every lane >= n '
                                            '(the weak form every backend satisfies and the searchers rely on)',
}


def find_impls(facts):
    vecs, masks, defaults = {}, {}, {}
    for key, fn in facts['instances'].items():
        if 'blocks' not in fn:
            continue
        m = VEC_RE.search(key)
        if m:
            vecs.setdefault(m.group('T') or m.group('T2'), {})[m.group('m') or m.group('m2')] = key
            continue
        m = MASK_RE.search(key)
        if m:
            masks.setdefault(m.group('M') or m.group('M2'), {})[m.group('m') or m.group('m2')] = key
            continue
        if fn.get('path', '').startswith('vector::Vector::'):
            defaults.setdefault(fn['path'].rsplit('::', 1)[-1], []).append(key)
    return vecs, masks, defaults


class LawResult:
    def __init__(self, law, impl, fn_key, loc, ok, detail):
        self.law, self.impl, self.fn_key, self.loc, self.ok, self.detail = law, impl, fn_key, loc, ok, detail   # ok: True/False/None


def check_config(facts):
    """-> (results, info).  results: list of LawResult"""
    out = []
    vecs, masks, defaults = find_impls(facts)
    info = {'vector_impls': sorted(vecs), 'mask_impls': sorted(masks), 'unknown_ops': [], 'transfer_functions_used': []}
    T = facts['types']
    # ---- the portable SWAR primitives (arch::all::memchr)
    for law, path in (('S.has_zero_byte', 'arch::all::memchr::has_zero_byte'), ('S.splat', 'arch::all::memchr::splat')):
        for key, fn in facts['instances'].items():
            if fn.get('path') != path or 'blocks' not in fn:
                continue
            ev = Eval(facts)
            aty = fn['locals'][1]
            aty = aty['ty'] if isinstance(aty, dict) else aty
            rty = fn['locals'][0]
            rty = rty['ty'] if isinstance(rty, dict) else rty
            x = BV([ev.bdd.var(f'x[{i // 8}].{i % 8}') for i in range(ev.width(aty))])
            try:
                r = ev.call_fn(key, [x])
            except Undecided as e:
                out.append(LawResult(law, 'usize', key, fn.get('loc', ''), None, str(e)))
                continue
            if law == 'S.has_zero_byte':
                e = 0
                for l in ev.lanes(x, 8):
                    e = ev.bdd.OR(e, ev.bdd.NOT(ev.orall(l)))
                exp = [e]
            else:
                exp = [x.bits[k % 8] for k in range(ev.width(rty))]
            ok, detail = None, 'result not a bit vector'
            if isinstance(r, BV) and r.w == len(exp):
                ok, detail = True, ''
                for p_, (g, e) in enumerate(zip(r.bits, exp)):
                    if g is None:
                        ok, detail = None, 'some result bits unknown (operation without a transfer function): ' + ', '.join(ev.unknown_ops)
                        break
                    # has_zero_byte is used one way only: `false` lets the scan skip the word, `true` falls back to the
                    # byte-by-byte scan -- a false positive costs time, not correctness, so only "zero byte => true" is a law
                    d = ev.bdd.AND(e, ev.bdd.NOT(g)) if law == 'S.has_zero_byte' else ev.bdd.XOR(g, e)
                    if d != 0:
                        on = ev.bdd.witness(d)
                        ok, detail = False, (f"bit {p_} of the result is {ev.bdd.value(g, on)} but the law requires {ev.bdd.value(e, on)} "
                                             f"when exactly these bits of the argument are 1: {{{', '.join(on) or 'none'}}}")
                        break
            out.append(LawResult(law, 'usize', key, fn.get('loc', ''), ok, detail))
            info['unknown_ops'] += [u for u in ev.unknown_ops if u not in info['unknown_ops']]
            info['transfer_functions_used'] = sorted(set(info['transfer_functions_used']) | ev.ops_seen)
    for vt in sorted(vecs):
        meths = dict(vecs[vt])
        for name, keys in defaults.items():          # provided trait methods instantiated for this vector type
            for k in keys:
                if name not in meths and vt in k:
                    meths[name] = k
        ev = Eval(facts)
        bdd = ev.bdd
        mm_key = meths.get('movemask')
        if mm_key is None:
            continue
        fn_mm = facts['instances'][mm_key]
        vty = fn_mm['locals'][1]
        vty = vty['ty'] if isinstance(vty, dict) else vty
        nl = T[vty]['size']
        mty = fn_mm['locals'][0]
        mty = mty['ty'] if isinstance(mty, dict) else mty
        mname = T[mty]['str']
        # variables: interleave the bits of the two generic operands so lane equality stays linear
        A, Bv = [], []
        for i in range(nl):
            for k in range(8):
                A.append(bdd.var(f'a[{i}].{k}'))
                Bv.append(bdd.var(f'b[{i}].{k}'))
        A, Bv = BV(A), BV(Bv)
        pb = [bdd.var(f'p[{i}]') for i in range(nl)]
        pc = [bdd.var(f'q[{i}]') for i in range(nl)]
        sb = BV([bdd.var(f's.{k}') for k in range(8)])
        lanevec = lambda ps: BV([ps[i] for i in range(nl) for _ in range(8)])

        def run(mkey, args):
            try:
                return ev.call_fn(mkey, args), None
            except Undecided as e:
                return None, str(e)

        def record(law, mkey, impl, ok, detail=''):
            out.append(LawResult(law, impl, mkey, facts['instances'][mkey].get('loc', ''), ok, detail))

        def cmp_bits(law, mkey, impl, got, exp, pre=1, what='bit'):
            """exp: list of expected bits (None = unconstrained)"""
            if got is None or not isinstance(got, BV):
                record(law, mkey, impl, None, 'result not a bit vector')
                return
            if got.w != len(exp):
                record(law, mkey, impl, None, f'result width {got.w} != {len(exp)}')
                return
            unk = 0
            for p, (g, e) in enumerate(zip(got.bits, exp)):
                if e is None:
                    continue
                if g is None:
                    unk += 1
                    continue
                d = bdd.AND(pre, bdd.XOR(g, e))
                if d != 0:
                    on = bdd.witness(d)
                    record(law, mkey, impl, False, f"{what} {p} of the result is {bdd.value(g, on)} but the law requires {bdd.value(e, on)} "
                           f"when exactly these inputs are 1: {{{', '.join(on) or 'none'}}} (result bit = {bdd.show(g)})")
                    return
            record(law, mkey, impl, None if unk else True, f'{unk} result bits unknown (operation without a transfer function)' if unk else '')

        # ---- Vector laws
        for m in VECTOR_LAWS:
            if m not in meths:
                continue
            mkey, law = meths[m], 'V.' + m
            if m == 'splat':
                r, err = run(mkey, [sb])
                exp = [sb.bits[k] for _ in range(nl) for k in range(8)]
            elif m in ('load_aligned', 'load_unaligned'):
                p = Ptr('data')
                r, err = run(mkey, [p])
                exp = list(ev.load(p, nl).bits)
            elif m == 'cmpeq':
                r, err = run(mkey, [A, Bv])
                exp = []
                for x, y in zip(ev.lanes(A, 8), ev.lanes(Bv, 8)):
                    exp += [ev.eqv(x, y)] * 8
            elif m in ('and', 'or'):
                r, err = run(mkey, [A, Bv])
                exp = ev.bitwise(m, A, Bv).bits
            elif m == 'movemask_will_have_non_zero':
                r, err = run(mkey, [lanevec(pb)])
                e = 0
                for x in pb:
                    e = bdd.OR(e, x)
                exp = [e]
            else:
                continue
            if err:
                record(law, mkey, vt, None, err)
            else:
                cmp_bits(law, mkey, vt, r, exp)
        # ---- movemask: derive the encoding
        r, err = run(mm_key, [lanevec(pb)])
        enc = None
        if err or not isinstance(r, BV):
            record('V.movemask', mm_key, vt, None, err or 'result not a bit vector')
        elif any(b is None for b in r.bits):
            record('V.movemask', mm_key, vt, None, 'some mask bits unknown (operation without a transfer function)')
        else:
            pos = {i: [] for i in range(nl)}
            bad = None
            for p, b in enumerate(r.bits):
                if b == 0:
                    continue
                if b in pb:
                    pos[pb.index(b)].append(p)
                else:
                    bad = f'mask bit {p} is {bdd.show(b)}, not the predicate of one lane'
                    break
            if bad is None:
                for i in range(nl):
                    if not pos[i]:
                        bad = f'lane {i} does not reach the mask'
                        break
            if bad is None:
                for i in range(nl - 1):
                    if max(pos[i]) > min(pos[i + 1]):
                        bad = f'lane {i} is placed above lane {i + 1} in the mask'
                        break
            record('V.movemask', mm_key, vt, bad is None, bad or '')
            if bad is None:
                enc = pos
                mw = r.w
        # ---- MoveMask laws under this vector type's encoding
        mimpl = masks.get(mname)
        if mimpl is None:
            info['unknown_ops'] += [u for u in ev.unknown_ops if u not in info['unknown_ops']]
            info['transfer_functions_used'] = sorted(set(info['transfer_functions_used']) | ev.ops_seen)
            continue
        impl = f'{mname} for {vt}'
        if enc is None:
            for m in MASK_LAWS:
                if m in mimpl:
                    record('M.' + m, mimpl[m], impl, None, 'depends on the movemask encoding, which was not established')
            info['unknown_ops'] += [u for u in ev.unknown_ops if u not in info['unknown_ops']]
            info['transfer_functions_used'] = sorted(set(info['transfer_functions_used']) | ev.ops_seen)
            continue

        def encode(fs):
            bits = [0] * mw
            for i in range(nl):
                for p in enc[i]:
                    bits[p] = fs[i]
            return BV(bits)

        anyb = 0
        for x in pb:
            anyb = bdd.OR(anyb, x)
        for m in MASK_LAWS:
            if m not in mimpl:
                continue
            mkey, law = mimpl[m], 'M.' + m
            pre = 1
            fnm = facts['instances'][mkey]
            rty = fnm['locals'][0]
            rty = rty['ty'] if isinstance(rty, dict) else rty
            rw = ev.width(rty)
            if m == 'has_non_zero':
                r, err = run(mkey, [encode(pb)])
                exp = [anyb]
            elif m == 'count_ones':
                r, err = run(mkey, [encode(pb)])
                exp = ev.popcount(BV(pb), rw).bits
            elif m in ('and', 'or'):
                r, err = run(mkey, [encode(pb), encode(pc)])
                f = bdd.AND if m == 'and' else bdd.OR
                exp = encode([f(x, y) for x, y in zip(pb, pc)]).bits
            elif m == 'clear_least_significant_bit':
                r, err = run(mkey, [encode(pb)])
                pre = anyb
                lower, fs = 0, []
                for i in range(nl):
                    fs.append(bdd.AND(pb[i], lower))
                    lower = bdd.OR(lower, pb[i])
                exp = encode(fs).bits
            elif m in ('first_offset', 'last_offset'):
                r, err = run(mkey, [encode(pb)])
                pre = anyb
                e = const_bv(0, rw)
                rng = range(nl - 1, -1, -1) if m == 'first_offset' else range(nl)
                for i in rng:
                    e = ev.mux(pb[i], const_bv(i, rw), e)
                exp = e.bits
            elif m == 'all_zeros_except_least_significant':
                aty = fnm['locals'][1]
                aty = aty['ty'] if isinstance(aty, dict) else aty
                aw = ev.width(aty)
                nbits = (nl - 1).bit_length()
                nv = BV([bdd.var(f'n.{k}') for k in range(nbits)] + [0] * (aw - nbits))
                r, err = run(mkey, [nv])
                if not err and isinstance(r, BV) and r.w == mw:
                    # weak law: lane i >= n  =>  its mask positions are kept (bit = 1)
                    bad, unk = None, 0
                    for i in range(nl):
                        ge = bdd.NOT(ev.ult(const_bv(i, aw), nv))
                        for p in enc[i]:
                            g = r.bits[p]
                            if g is None:
                                unk += 1
                            elif bdd.AND(ge, bdd.NOT(g)) != 0:
                                bad = f'lane {i} (mask bit {p}) is cleared for some n <= {i}: bit is {bdd.show(g)}'
                                break
                        if bad:
                            break
                    record(law, mkey, impl, False if bad else (None if unk else True), bad or (f'{unk} bits unknown' if unk else ''))
                    continue
                exp = None
            else:
                continue
            if err or exp is None:
                record(law, mkey, impl, None, err or 'result shape not understood')
            else:
                cmp_bits(law, mkey, impl, r, exp, pre)
        info['unknown_ops'] += [u for u in ev.unknown_ops if u not in info['unknown_ops']]
        info['transfer_functions_used'] = sorted(set(info['transfer_functions_used']) | ev.ops_seen)
    return out, info
