"""Guard facts: which upper bounds on slice lengths hold on a dominating edge.

A *fact* is (subject, op, bound) read as  subject op bound  with
  subject = ('len', <root>)   length of the slice that derives from <root>
  op      = '<' | '<='
  bound   = ('const', K) | ('call', callee path)
Roots are derive-roots of the function under analysis, e.g. ('arg', 3, ())."""
from .prog import sources, dominating_edges, edge_truth, bool_condition
from . import derive

SLICE_LEN = 'core::slice::<impl [u8]>::len'


def _len_subject(P, inst, o):
    """If operand o is `x.len()` for a slice x, return the derive-roots of x."""
    for src in sources(inst, o):
        if src[0] == 'call' and src[2]['callee'].get('inst', '').startswith('core::slice::<impl [') \
                and src[2]['callee']['inst'].endswith(']>::len'):
            d = derive.derives(P, inst, src[2]['args'][0])
            return frozenset(d.roots)
        return None
    return None


def _bound(P, inst, o):
    srcs = sources(inst, o)
    if len(srcs) != 1:
        return None
    s = srcs[0]
    if s[0] == 'const' and s[1].get('ck') == 'int':
        return ('const', s[1]['v'])
    if s[0] == 'call':
        return ('call', s[2]['callee'].get('path', '?'))
    return None


def facts_of_cmp(P, inst, op, a, b, truth):
    """facts implied by (a op b) == truth"""
    neg = {'Lt': 'Ge', 'Le': 'Gt', 'Gt': 'Le', 'Ge': 'Lt', 'Eq': 'Ne', 'Ne': 'Eq'}
    if not truth:
        op = neg[op]
    out = []
    la, lb = _len_subject(P, inst, a), _len_subject(P, inst, b)
    if la is not None:
        bd = _bound(P, inst, b)
        if bd:
            if op == 'Lt':
                out.append((('len', la), '<', bd))
            elif op in ('Le', 'Eq'):
                out.append((('len', la), '<=', bd))
    if lb is not None:
        bd = _bound(P, inst, a)
        if bd:
            if op == 'Gt':
                out.append((('len', lb), '<', bd))
            elif op in ('Ge', 'Eq'):
                out.append((('len', lb), '<=', bd))
    return out


def facts_when(P, inst, cond, truth, depth=0):
    """facts implied when condition descriptor `cond` evaluates to `truth`"""
    if cond is None or depth > 3:
        return []
    k = cond[0]
    if k == 'cmp':
        return facts_of_cmp(P, inst, cond[1], cond[2], cond[3], truth)
    if k == 'not':
        return facts_when(P, inst, cond[1], not truth, depth + 1)
    if k == 'call' and truth:
        term = cond[1]
        ck = term['callee'].get('inst')
        callee = P.instances.get(ck) if ck else None
        if callee is None or not callee.local or not callee.has_body:
            return []
        # the callee returns true only through some sources; facts common to all true-sources
        per_source = []
        for src in sources(callee, 0):
            if src[0] == 'const':
                if src[1].get('v') == 0:
                    continue
                return []        # may return constant true: no fact
            if src[0] == 'rv' and src[2]['k'] == 'bin' and src[2]['op'] in ('Lt', 'Le', 'Gt', 'Ge', 'Eq'):
                fs = facts_of_cmp(P, callee, src[2]['op'], src[2]['a'], src[2]['b'], True)
                # also facts from edges dominating the defining block
                fs += edge_facts(P, callee, src[1], depth + 1)
                per_source.append(fs)
            elif src[0] == 'call':
                per_source.append(facts_when(P, callee, ('call', src[2]), True, depth + 1))
            else:
                return []
        if not per_source:
            return []
        common = [f for f in per_source[0] if all(f in ps for ps in per_source[1:])]
        # translate callee roots to caller roots
        out = []
        for (subj, op, bd) in common:
            roots = set()
            for r in subj[1]:
                if r[0] == 'arg' and r[1] - 1 < len(term['args']):
                    d = derive.derives(P, inst, term['args'][r[1] - 1])
                    roots |= d.roots
            if roots:
                out.append((('len', frozenset(roots)), op, bd))
        return out
    return []


def edge_facts(P, inst, b, depth=0):
    """all facts that hold on entry to block b (from dominating switch edges)"""
    out = []
    for (sb, kind, value, tt) in dominating_edges(inst, b):
        cond = bool_condition(inst, sb)
        out.extend(facts_when(P, inst, cond, edge_truth(kind, value), depth))
    return out
