//! E5 — compile-fail witnesses and their compiling twins.
//!
//! Every `compile_fail,E0xxx` example must fail with exactly that error code
//! (honoured on nightly), and its twin, which differs only in the offending
//! line, must compile.  Twins are `no_run`: nothing of memchr is executed.

/// A borrowed `Finder` cannot outlive its needle.
/// ```compile_fail,E0597
/// let f = {
///     let needle = vec![b'a', b'b'];
///     memchr::memmem::Finder::new(&needle)
/// };
/// let _ = f.find(b"xab");
/// ```
pub mod finder_outlives_needle {}

/// Twin: `into_owned()` detaches the finder from the needle buffer.
/// ```no_run
/// let f = {
///     let needle = vec![b'a', b'b'];
///     memchr::memmem::Finder::new(&needle).into_owned()
/// };
/// let _ = f.find(b"xab");
/// ```
pub mod finder_into_owned_twin {}

/// A borrowed `FindIter` cannot outlive its needle.
/// ```compile_fail,E0597
/// let mut it = {
///     let needle = vec![b'a'];
///     memchr::memmem::find_iter(b"aaa", &needle)
/// };
/// let _ = it.next();
/// ```
pub mod finditer_outlives_needle {}

/// Twin: the owned iterator may outlive the needle buffer.
/// ```no_run
/// let mut it = {
///     let needle = vec![b'a'];
///     memchr::memmem::find_iter(b"aaa", &needle).into_owned()
/// };
/// let _ = it.next();
/// ```
pub mod finditer_into_owned_twin {}

/// A `FinderRev` cannot outlive its needle either.
/// ```compile_fail,E0597
/// let f = {
///     let needle = vec![b'a', b'b'];
///     memchr::memmem::FinderRev::new(&needle)
/// };
/// let _ = f.rfind(b"xab");
/// ```
pub mod finderrev_outlives_needle {}

/// Twin.
/// ```no_run
/// let f = {
///     let needle = vec![b'a', b'b'];
///     memchr::memmem::FinderRev::new(&needle).into_owned()
/// };
/// let _ = f.rfind(b"xab");
/// ```
pub mod finderrev_into_owned_twin {}

/// The raw-pointer based byte iterator cannot outlive its haystack (this is
/// what justifies its manual `unsafe impl Send/Sync`).
/// ```compile_fail,E0597
/// let mut it = {
///     let hay = vec![1u8, 2, 3];
///     memchr::memchr_iter(1, &hay)
/// };
/// let _ = it.next();
/// ```
pub mod memchr_iter_outlives_haystack {}

/// Twin: haystack declared outside the block.
/// ```no_run
/// let hay = vec![1u8, 2, 3];
/// let mut it = {
///     memchr::memchr_iter(1, &hay)
/// };
/// let _ = it.next();
/// ```
pub mod memchr_iter_twin {}

/// Same for the arch-level iterator which stores the searcher by reference.
/// ```compile_fail,E0597
/// let mut it = {
///     let hay = vec![1u8, 2, 3];
///     let s = memchr::arch::all::memchr::One::new(1);
///     s.iter(&hay)
/// };
/// let _ = it.next();
/// ```
pub mod arch_iter_outlives_haystack {}

/// Twin.
/// ```no_run
/// let hay = vec![1u8, 2, 3];
/// let s = memchr::arch::all::memchr::One::new(1);
/// let mut it = {
///     s.iter(&hay)
/// };
/// let _ = it.next();
/// ```
pub mod arch_iter_twin {}

/// A finder cannot be mutated through a shared reference: `find` takes
/// `&self`, so two searches can run on one finder at the same time (this must
/// compile), ...
/// ```no_run
/// fn is_send_sync<T: Send + Sync>() {}
/// is_send_sync::<memchr::memmem::Finder<'static>>();
/// is_send_sync::<memchr::memmem::FinderRev<'static>>();
/// is_send_sync::<memchr::memmem::FindIter<'static, 'static>>();
/// is_send_sync::<memchr::memmem::FindRevIter<'static, 'static>>();
/// is_send_sync::<memchr::Memchr<'static>>();
/// is_send_sync::<memchr::Memchr2<'static>>();
/// is_send_sync::<memchr::Memchr3<'static>>();
/// let f = memchr::memmem::Finder::new(b"ab");
/// let (a, b) = (&f, &f);
/// let _ = (a.find(b"xab"), b.find(b"ab"));
/// ```
pub mod finder_shared_search_twin {}

/// ... whereas an iterator, which does carry per-iteration state, needs
/// `&mut self`.
/// ```compile_fail,E0596
/// let it = memchr::memmem::find_iter(b"aaa", b"a");
/// let _ = it.next();
/// ```
pub mod finditer_next_needs_mut {}
