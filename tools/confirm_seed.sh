#!/bin/bash
# tools/confirm_seed.sh <name>   -- independently confirm a pending seeded change:
#   (1) applies, builds; (2) 141 lib tests + doctests pass WITH the change;
#   (3) the demonstration FAILS with the change and PASSES without it.
# Writes seeded/_pending/<name>/confirm.json.  Uses a scratch worktree under /tmp/confirm.
set -u
name=$1
src=/verif/seeded/_pending/$name
wt=/tmp/confirm/$name
rm -rf "$wt"; mkdir -p /tmp/confirm
git -C /repo worktree add -q --detach "$wt" HEAD || exit 2
cd "$wt"
res() { echo "$1" >> "$src/confirm.log"; }
: > "$src/confirm.log"
extra=""
grep -qi "no-default-features" "$src/notes.md" && extra_note="notes mention --no-default-features"
if ! git apply "$src/patch.diff"; then res "APPLY_FAIL"; applied=false; else applied=true; fi
files=$(git diff --name-only | tr '\n' ' ')
libout=$(cargo test --offline --lib 2>&1 | tail -5); librc=$?
lib_pass=$(echo "$libout" | grep -o "[0-9]* passed" | head -1)
docout=$(cargo test --offline --doc 2>&1 | tail -5)
doc_pass=$(echo "$docout" | grep -o "[0-9]* passed" | head -1)
mkdir -p tests; cp "$src/demo.rs" tests/demo_seed.rs
demo_with=$(timeout 900 cargo test --offline --test demo_seed 2>&1 | tail -15); 
demo_with_res=$(echo "$demo_with" | grep -E "^test result|error|SIG|signal" | head -3 | tr '\n' ';')
# variants some demos need
demo_with_nd=""
if grep -qi "no-default-features" "$src/notes.md"; then
  demo_with_nd=$(timeout 900 cargo test --offline --no-default-features --test demo_seed 2>&1 | grep -E "^test result|error|signal" | head -3 | tr '\n' ';')
fi
git checkout -q -- src 2>/dev/null; git apply -R "$src/patch.diff" 2>/dev/null
git checkout -q -- . ; cp "$src/demo.rs" tests/demo_seed.rs
demo_without=$(timeout 900 cargo test --offline --test demo_seed 2>&1 | tail -15)
demo_without_res=$(echo "$demo_without" | grep -E "^test result|error|SIG|signal" | head -3 | tr '\n' ';')
python3 - "$src" "$applied" "$files" "$lib_pass" "$doc_pass" "$demo_with_res" "$demo_without_res" "$demo_with_nd" <<'PY'
import json,sys
src,applied,files,lib,doc,dw,dwo,dnd=sys.argv[1:9]
json.dump({'applied':applied=='true','files':files.split(),'lib_tests_with_change':lib,'doctests_with_change':doc,
 'demo_with_change':dw,'demo_without_change':dwo,'demo_with_change_no_default_features':dnd}, open(src+'/confirm.json','w'), indent=1)
PY
cd /; git -C /repo worktree remove --force "$wt"
cat "$src/confirm.json"
