#!/usr/bin/env python3
"""Print the prompt handed to an independent seeding sub-agent for one property.
Only the property's text is included; nothing from /verif's machinery."""
import json, sys
pid = sys.argv[1]
n = sys.argv[2] if len(sys.argv) > 2 else "2"
for l in open('/verif/properties.jsonl'):
    p = json.loads(l)
    if p['id'] == pid:
        break
else:
    sys.exit("no such property")
wt = f"/tmp/seed/{pid}/wt"
out = f"/tmp/seed/{pid}/out"
print(f"""You are helping to evaluate a verification tool by writing realistic *bugs* (mutations) for the Rust crate BurntSushi/memchr (version 2.7.4).

A private git worktree of the crate is at {wt} . Work ONLY inside {wt} and {out}. Do NOT read, list or touch /repo or /verif or any other directory under /tmp/seed. There is no network; use `cargo ... --offline`.

The property that your change must BREAK:

  Title: {p['title']}
  Statement: {p['statement']}
  Quantifier: {p['quantifier']['text']}
  Why the existing tests cannot settle it: {p['why_tests_cant']}
  Relevant files: {', '.join(p['anchors']['files'])}

Task: produce {n} DIFFERENT source changes to the crate (each one independent, each a small edit of the kind a maintainer could plausibly make by mistake during a refactor or "optimisation"), such that for EACH change:
  1. the crate still compiles (`cargo build --offline` and `cargo test --offline --lib --no-run`);
  2. the whole existing test suite still passes: `cargo test --offline --lib` (141 tests) AND `cargo test --offline --doc` (24 doctests pass);
  3. the property above is violated for some input / call sequence / configuration, and you demonstrate it with a small demonstration: an integration test file (e.g. tests/demo_<name>.rs, using only the crate's public API and std) that FAILS with your change applied and PASSES on the unmodified crate. (If the violation is an out-of-bounds read or other UB rather than a wrong answer, a demo that is run under `cargo +nightly miri test --test demo_<name>` or that places the haystack against a PROT_NONE page via libc-free means is fine; say exactly how you ran it. If the violation only exists on another target such as aarch64 and cannot be executed here, explain precisely by reasoning why it is violated and still give a test that would fail there.)
Prefer changes that need something SPECIFIC to manifest - an unusual input shape, a particular length/alignment combination, a multi-step call sequence, a particular configuration, or two cooperating edits at different sites that each look fine alone - rather than ones ordinary use would expose at once. Do not edit the existing tests. Do not add cfg(test)-only tricks. Change real library code under src/.

Deliverables, for change number k = 1..{n}, written into {out}/k/ :
  - patch.diff  : `git diff` of the library change only (apply-able with `git apply` at the root of a clean checkout; do not include the demo file in it)
  - demo.rs     : the demonstration test file (to be dropped into tests/)
  - notes.md    : which clause of the property breaks, what is needed for it to manifest, the exact commands you ran, and the observed results with and without the change (test pass counts).
Verify everything yourself by actually running the commands. Between changes, restore the tree with `git -C {wt} checkout -- . && git -C {wt} clean -fdq -e target`. When completely finished, run `cargo clean` in {wt} (or delete {wt}/target) to free disk space, and leave the worktree checked out clean. Your final message should list, per change, a one-paragraph summary and whether all three conditions were confirmed.""")
