#!/usr/bin/env python3
"""tools/sweep.py [--jobs N] [--only ID,ID] [--checks C01,C05,...] -- run the registered checks against every
seeded change (seeded/*/patch.diff and selftest/mutants/*.diff), each in its own scratch git worktree of /repo
(MCSA_REPO), never touching /repo.  Writes seeded/matrix.json: {change: {check: 'caught' | 'quiet' | 'error'}}."""
import json, os, subprocess, sys, shutil, tempfile
from concurrent.futures import ThreadPoolExecutor

VERIF = os.path.dirname(os.path.dirname(os.path.abspath(__file__)))


def registered():
    m = json.load(open(os.path.join(VERIF, 'MANIFEST.json')))
    return sorted(c['property_id'] for c in m['checks'])


def run_one(job):
    name, patch, checks = job
    wt = tempfile.mkdtemp(prefix='sw-' + name.replace('/', '_') + '-', dir='/tmp')
    os.rmdir(wt)
    out = {}
    try:
        subprocess.run(['git', '-C', '/repo', 'worktree', 'add', '--detach', wt, 'HEAD'], check=True, capture_output=True)
        r = subprocess.run(['git', '-C', wt, 'apply', patch], capture_output=True, text=True)
        if r.returncode != 0:
            return name, {'_apply': 'failed: ' + r.stderr[:200]}
        env = dict(os.environ, MCSA_REPO=wt, VERIF_OUT=wt + '-out')
        for c in checks:
            p = subprocess.run([os.path.join(VERIF, 'check'), c], env=env, capture_output=True, text=True, cwd=VERIF)
            viol = [l for l in p.stdout.splitlines() if l.startswith('VIOLATION')]
            first = next((l for l in p.stdout.splitlines() if ': [' in l), '')
            out[c] = {'rc': p.returncode, 'violations': len(viol), 'first': first[:300]}
    finally:
        subprocess.run(['git', '-C', '/repo', 'worktree', 'remove', '--force', wt], capture_output=True)
        shutil.rmtree(wt + '-out', ignore_errors=True)
        shutil.rmtree(wt, ignore_errors=True)
        # drop the analysis cache of this scratch tree
        sys.path.insert(0, VERIF)
    return name, out


def main():
    args = sys.argv[1:]
    jobs = int(args[args.index('--jobs') + 1]) if '--jobs' in args else 2
    only = set(args[args.index('--only') + 1].split(',')) if '--only' in args else None
    checks = args[args.index('--checks') + 1].split(',') if '--checks' in args else registered()
    work = []
    sd = os.path.join(VERIF, 'seeded')
    for d in sorted(os.listdir(sd)):
        p = os.path.join(sd, d, 'patch.diff')
        if os.path.exists(p) and (only is None or d in only):
            work.append((d, p, checks))
    md = os.path.join(VERIF, 'selftest', 'mutants')
    for f in sorted(os.listdir(md)):
        if f.endswith('.diff') and (only is None or f[:-5] in only):
            work.append((f[:-5], os.path.join(md, f), checks))
    mpath = os.path.join(sd, 'matrix.json')
    matrix = json.load(open(mpath)) if os.path.exists(mpath) else {}
    with ThreadPoolExecutor(max_workers=jobs) as ex:
        for name, out in ex.map(run_one, work):
            matrix.setdefault(name, {}).update(out)
            caught = sorted(c for c, v in out.items() if isinstance(v, dict) and v.get('rc') == 1)
            print(name, 'caught by', caught or '-', flush=True)
            json.dump(matrix, open(mpath, 'w'), indent=1, sort_keys=True)
            subprocess.run(['python3', '-c', 'import sys; sys.path.insert(0, %r); from mcai import configs; configs.prune_cache(keep=12)' % VERIF])


if __name__ == '__main__':
    main()
