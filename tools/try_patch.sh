#!/bin/bash
# tools/try_patch.sh <patch.diff> <ID> [<ID>...]  -- apply a seeded change to /repo, run checks, undo.
set -u
patch=$(readlink -f "$1"); shift
cd /repo || exit 2
if ! git diff --quiet; then echo "/repo is dirty; refusing"; exit 2; fi
git apply "$patch" || { echo "patch does not apply"; exit 2; }
trap 'git -C /repo checkout -- . ; git -C /repo clean -fdq -- src' EXIT
cd /verif
for id in "$@"; do
  out=$(./check $id ${TIER:+--tier $TIER} 2>&1); rc=$?
  echo "== $id rc=$rc"
  echo "$out" | grep -vE "^VIOLATION" | head -${LINES_MAX:-6}
done
