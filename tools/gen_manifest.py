#!/usr/bin/env python3
"""Regenerate /verif/MANIFEST.json from the table below (single source of truth)."""
import json, os

V = os.path.dirname(os.path.dirname(os.path.abspath(__file__)))
ids = [json.loads(l)['id'] for l in open(os.path.join(V, 'properties.jsonl'))]

TB = "rustc nightly front end (types, trait resolution, MIR construction, const eval); the mcsa exporter; "

CHECKS = {
    'C17': dict(
        category='proof',
        technique='call-graph reachability over resolved monomorphic MIR (rustc_private driver), 3/10 target configurations',
        text="Decides the property for the crate's own code: in the resolved, monomorphic call graph (direct calls, "
             "fn-item and closure mentions, ifunc static initialisers) no instance of crate alloc/std is reachable from "
             "any public entry point other than into_owned, Shift-Or and clone of a needle-owning finder; in no-alloc "
             "builds crate alloc is not linked at all. A static reachability argument covers every input and every "
             "strategy of the meta searcher at once, which an allocator probe on sampled inputs cannot.",
        note=TB + "crate core cannot allocate; user AsRef/HeuristicFrequencyRank callbacks and the optional logging feature are outside the claim.",
        design_ref='5/C17'),
}

CHECKS['C15'] = dict(
    category='proof',
    technique='effects inventory + points-to of the ifunc statics over type-checked crate and MIR; auto-trait queries; compile_fail witnesses',
    text="Decides that no schedule can change an answer because no shared mutable state exists: every static is an "
         "AtomicPtr accessed only by load/store whose every possible value (initialiser + traced stores) is one of the "
         "dispatcher's own identically-typed sibling functions; every type is Freeze; no raw-pointer writes; every public "
         "type is Send+Sync; per-search state is never reachable from a shared finder; the raw-pointer iterator cannot "
         "outlive its haystack (E0597 witness + twin). Holds for all schedules and thread counts at once. Relative to "
         "C09/C01: that the interchangeable ifunc members compute the same function.",
    note=TB + "atomic word load/store is tear-free; any new non-ifunc static or interior mutability is reported even if benign (sufficient-condition rule).",
    design_ref='5/C15')
CHECKS['C16'] = dict(
    category='proof',
    technique='receiver/Freeze/effects inventory (purity by types) + inter-procedural derived-from dataflow for field-wise copies + compile_fail witnesses',
    text="PURE: search methods take &self, every type reachable from a finder is Freeze, and the crate has no other "
         "mutable state (C15 inventory), so a result can depend only on *self and the haystack, for every history of "
         "earlier searches. FRESH: Finder::find's PrefilterState comes from a nullary constructor in its own frame. "
         "COPY/NEEDLE: clone/as_ref/into_owned of finders and iterators build each field from the same field of self "
         "only (no constants, no other field, no arithmetic), needle() returns the stored needle. Borrow witnesses: a "
         "borrowed finder/iterator cannot outlive its needle, the into_owned twin compiles.",
    note=TB + "leaf clone/deref/From<&[u8]> of core/alloc are faithful copies; equality of behaviour of a field-wise copy is by it being the same value.",
    design_ref='5/C16')

CHECKS['C09'] = dict(
    category='other',
    technique='call-graph / dominance / derived-from rules over resolved MIR of 3 (quick) or 10 (thorough) target+feature configurations; canonical-MIR diff across cargo features; bit-provenance dataflow (BDD-canonical Boolean functions per bit) for the lane laws of the sibling Vector/MoveMask impls',
    text="Decides the wiring between backends, not their semantics: DISP (each public byte-search entry point reaches, "
         "through every cfg arm and every ifunc member, exactly the searcher kind and method its name implies, with "
         "needles/start/end forwarded), AVAIL-IS/AVAIL-CALL/CAP/IFUNC-AVAIL (a #[target_feature] routine is only "
         "selected or called where the matching is_available() or a capability value established its ISA; "
         "is_available() cannot be true without the features), FEAT-DIFF (no cargo-feature-dependent code on any "
         "search path: canonical MIR equal across std/alloc/core up to a reasoned allow-list). Configurations that "
         "a host test run never compiles (NEON, simd128, no-SSE2, big-endian, 32-bit) are analysed like the host. "
         "LANE-LAW (E6): the sibling implementations of the Vector / MoveMask traits (SSE2, AVX2, NEON, simd128) and the portable "
         "SWAR primitives all satisfy the same lane laws, decided from the MIR of src/vector.rs by a bit-provenance dataflow. "
         "Agreement of answers then follows from each backend meeting the specification (C01/C02/C07).",
    note=TB + "per-backend semantics are C01/C02/C07; memmem agreement additionally rests on C03; vendor semantics of is_x86_feature_detected!.",
    design_ref='5/C09')

CHECKS['C13'] = dict(
    category='other',
    technique='dominance + derived-from guard analysis on MIR (guard rules) plus, from the E2 abstract interpreter, two construction relations and a ranking-function obligation for the suffix scans; no overall step bound is claimed',
    text="Step counts are a runtime quantity and no static bound on them is in reach, so this check decides only the three "
         "guards whose removal makes the work super-linear: LIN-1 the memcmp-confirming vector searcher is built only "
         "under needle.len() <= K for a constant K < 4096 that is the same in all configurations; LIN-2 every call of "
         "the quadratic Rabin-Karp searcher from the memmem layer is dominated by a constant length bound (or by "
         "haystack.len() < min_haystack_len()); LIN-3 the adaptive prefilter shut-off exists, its thresholds are "
         "constants, and every prefilter call in Two-Way is dominated by is_effective(); LIN-4 (E2) every constructed "
         "large-period shift is >= len/2 and every constructed vector searcher has its needle length capped by some constant; "
         "LIN-5 (E2) the maximal/minimal-suffix scans of Two-Way's preprocessing have a potential (2*pos + candidate_start + "
         "offset) that strictly increases in every iteration and is bounded by 3*len -- a linear-work proof for that loop. "
         "It does NOT decide linearity of the Two-Way search loops themselves (period memory) and gives no overall constant.",
    note=TB + "these are necessary conditions only; the property's bound on executed steps itself is not decided (DESIGN section 7).",
    design_ref='5/C13')
CHECKS['C10'] = dict(
    category='other',
    technique='call-graph reachability, derived-from taint, dominance and read-before-reassign path queries on Two-Way MIR; the shift-memory transfer obligations (MEMO) come from the E2 abstract interpreter',
    text="Decides confinement of the heuristics and the structure that makes them invisible: TAINT-R (ranker reachable "
         "only from construction, rank values only feed comparisons), TAINT-P (PrefilterConfig only selects Two-Way "
         "with/without prefilter), PRE-REGION (no match is reported from prefilter-controlled code; window bound "
         "re-checked after a prefilter jump), SHIFT-PAIR (after any change of pos the Two-Way memory `shift` is "
         "re-assigned before it is read -- in either statement order), MEMO (per loop iteration: shift == 0, or the last "
         "move of pos was exactly +period and shift + period <= needle.len(); decided by E2 on the abstract state), PRE-ADAPT (adaptive state consulted before "
         "each prefilter call). Each is a necessary condition; the semantic core (correct prefilter + full "
         "re-verification = same result) rests on C11 and on Two-Way's correctness, which is not decided.",
    note=TB + "pos/shift are identified structurally (the local combined with critical_pos by cmp::max; the self-updated position), with MIR debug names as fallback.",
    design_ref='5/C10')

CHECKS['C05'] = dict(
    category='proof',
    technique='abstract interpretation of monomorphic MIR (symbolic regions, exact linear-integer store with Fourier-Motzkin entailment, Houdini loop invariants, inlining of unsafe callees) over 2 (quick) / 10 (thorough) target configurations, release semantics',
    text="Decides the property for the crate's code as compiled: every public entry point is interpreted with arbitrary "
         "arguments of its types (slices of unconstrained address and length; finders satisfying only their type "
         "invariants, so needles unrelated to the construction needle are included; public unsafe fns under their "
         "documented pointer contracts) and every raw read / aligned load / pointer distance / union read / fn-pointer "
         "call must be entailed in bounds by the linear store. Because base address and length are symbols the result "
         "covers every alignment, every length and 'the next page is unmapped'; because NEON, simd128, no-SSE2, 32-bit "
         "and big-endian builds are analysed like the host, backends the tests never compile are covered. Analysed "
         "under release semantics (debug assertions off, wrapping arithmetic) so that no debug_assert! is what keeps a "
         "read in bounds. Type invariants assumed for arguments are re-proved at every construction site and at exit "
         "of every &mut method (TYINV). Fails closed on any construct the engine does not model.",
    note=TB + "the interpreter (lin.py Fourier-Motzkin, loops.py Houdini, ~60 function models in models.py); vendor load "
         "intrinsics contribute size and alignment only; allocator/fmt internals opaque; out-of-allocation pointer "
         "arithmetic without a read is reported as ARITH notes only.",
    design_ref='5/C05')

E3TB = 'the E2/E3 interpreter (lin.py, loops.py, interp.py, models.py, e3.py, specs.py); the VECTOR AXIOMS: lane-wise meaning of the Vector/MoveMask trait methods (cmpeq, or, and, movemask, has_non_zero, first/last_offset, count_ones) and of has_zero_byte are used as axioms by E2/E3 and are themselves DECIDED per backend by the LANE-LAW obligations (E6, mcai/lanes.py: bit-provenance dataflow over the MIR of src/vector.rs, every bit a canonical Boolean function of the input lane predicates); trusted there: the transfer functions of the vendor intrinsics; on the big-endian aarch64 configuration the NEON laws are reported undecided'
E3TECH = 'abstract interpretation of monomorphic MIR with ghost scan-coverage state (E2+E3): symbolic haystack and needles, exact linear-integer store, Houdini loop invariants; post-conditions are entailment obligations at every return; 3 (quick: x86-64, aarch64, i686 without vector backend) / 10 (thorough) target configurations, release semantics; plus the E6 lane-law dataflow for the Vector/MoveMask/SWAR primitives'
CHECKS['C01'] = dict(
    category='proof', technique=E3TECH,
    text="Decides the property (the vector axioms are themselves decided per backend, LANE-LAW): for memchr/memchr2/memchr3 and find/find_raw of every "
         "One/Two/Three of every backend (SWAR, SSE2, AVX2, NEON, simd128; through every member of the ifunc sets) the "
         "interpreter proves at every return: None => every byte of [start,end) was examined for every needle "
         "(ghost prefix hi[n] >= end), Some(p) => start <= p < end, p is a set lane of a non-zero equality mask over one "
         "chunk (or an assumed byte equality), every byte before the chunk was examined and the mask covers every "
         "needle with first_offset. Haystack address, length, contents and the needles are symbols, so all lengths, "
         "alignments and match positions are covered at once, including backends the host tests never compile.",
    note=TB + E3TB, design_ref='5/C01')
CHECKS['C02'] = dict(
    category='proof', technique=E3TECH,
    text="Mirror image of C01 for memrchr/memrchr2/memrchr3 and rfind/rfind_raw of every backend: ghost suffix lo[n], "
         "last_offset, POST-LAST (no needle after the returned position), POST-NONE (lo[n] <= start).",
    note=TB + E3TB, design_ref='5/C02')
CHECKS['C06'] = dict(
    category='proof', technique=E3TECH + '; plus a documented pen-and-paper induction over call histories',
    text="Decides the per-call hypotheses of the iterator induction for Memchr/Memchr2/Memchr3 and every "
         "One/Two/ThreeIter of every backend: next() returns the first match of the CURRENT window and next_back() the "
         "last (E3), Some(i) moves only start to found+1 (resp. only end to found), None leaves the window unchanged, "
         "the window invariant original_start <= start <= end holds at construction and at every exit, size_hint is "
         "(0, >= end-start). The step from these per-call facts to 'any interleaving yields every match exactly once' "
         "is the short induction written in DESIGN 5/C06.",
    note=TB + E3TB + '; the induction over histories is by hand', design_ref='5/C06')
CHECKS['C07'] = dict(
    category='proof', technique=E3TECH + '; counting measure F with CountOf([a,b)) = F(b)-F(a)',
    text="Decides, relative to the axioms (popcount of a lane mask = number of equal lanes), that every count/count_raw "
         "and every iterator count() returns exactly the number of needle bytes in the CURRENT window "
         "[self.start, self.end): scalar head, 4x unrolled popcounts, vector loop and scalar tail tile the window "
         "without gap or overlap (adjacent pieces telescope in the linear store), for all lengths/alignments/densities.",
    note=TB + E3TB, design_ref='5/C07')

CHECKS['C14'] = dict(
    category='proof', technique='abstract interpretation (E2) of the monomorphic MIR of the DEBUG configurations: every overflow check, bounds check, debug_assert!/assert!/unwrap is a diverging edge that the exact linear-integer store must refute under inferred (Houdini) loop invariants; assume-guarantee between public functions via the relation table mcai/mm.py; 2 (quick) / 10 (thorough) target configurations',
    text="Decides: no diverging edge (overflow / bounds / slice-range / debug_assert! / assert! / unwrap / unreachable!) of the crate "
         "is reachable from any public entry point for arbitrary arguments of its types -- public unsafe fns under their # Safety "
         "contracts, the substring building blocks under the documented 'needle is the one given to the constructor' relation, "
         "which is itself proved at every constructor (REL-POST) and at every internal call (REL-PRE). The documented packed-pair "
         "panic is analysed on both sides of haystack.len() >= min_haystack_len(): inside, the assert! is unreachable; outside, "
         "there is no normal return and that assert! is the only reachable panic (exactness). No abort/exit call is reachable. "
         "Found and repaired a genuine defect (u32 overflow in PrefilterState::is_effective, /repo 3f371df). NOT decided: "
         "termination; three overflow checks whose safety needs bit-level or content reasoning are listed as trusted lemmas in "
         "the evidence (shiftor i+1-needle_len; two-way reverse pos -= critical_pos - i + 1 at i == 0).",
    note=TB + 'the E2 interpreter (lin.py, loops.py, interp.py, models.py), the relation table mm.py, two axioms about alloc (Box<[u8]>::from / clone preserve the length); three trusted lemmas (see evidence.assumptions)',
    design_ref='5/C14')

CHECKS['C18'] = dict(
    category='proof', technique='abstract interpretation of monomorphic MIR (E2) with a byte-equality coverage ghost (mcai/eqg.py): symbolic operands, exact linear-integer store, Houdini loop invariants over the ghost interval; EQ-TRUE / EQ-FALSE entailment obligations at every return; release semantics, 2 (quick) / 10 (thorough) configurations',
    text="Decides the property: for is_equal_raw (under its documented contract), is_equal, is_prefix and is_suffix with symbolic "
         "operands of every length, address and content -- analysed once with the operands in distinct allocations and once as "
         "arbitrary, possibly overlapping views into one allocation --, `true` is returned only when the length condition of the specification "
         "holds and the interval of bytes compared equal (built only by successful 4-/2-/1-byte comparisons at one displacement) "
         "covers the whole specified range -- so no byte of the tail is skipped and the right sub-slice is compared -- and `false` "
         "only when a length condition fails or a failed comparison lies inside the range; the result is decided on every path, "
         "both answers occur, and every read stays inside the operands (READ). is_equal/is_prefix/is_suffix use the summary of "
         "is_equal_raw that its own root proves.",
    note=TB + 'the E2 interpreter plus eqg.py/eqspec.py; axiom: two k-byte loads are equal iff their k bytes are pairwise equal; operands analysed as distinct regions',
    design_ref='5/C18')

CHECKS['C19'] = dict(
    category='proof', technique='abstract interpretation (E2) of the monomorphic MIR of the pair-selection and packed-pair constructor/accessor roots: symbolic needle, `rank` modelled as an arbitrary u8 per call, Houdini loop invariants (incl. a disequality template), exactness clauses as entailment obligations per return path; debug configurations, 2 (quick) / 10 (thorough)',
    text="Decides the property: Pair::new/with_ranker return None only when needle.len() < 2 and otherwise two offsets that are "
         "distinct, inside the needle and <= 254, for EVERY ranker (the value of rank() is arbitrary at each call); "
         "Pair::with_indices returns None only on a path where the offsets are equal or out of range and otherwise exactly the "
         "offsets given; every backend's packedpair::Finder::{new,with_pair} stores exactly the pair given (and its "
         "min_haystack_len relates to it), and pair()/index1()/index2()/min_haystack_len() return the stored values. The "
         "assert_ne! and the u8::try_from(i).unwrap() of with_ranker are proved unreachable.",
    note=TB + 'the E2 interpreter and mm.py tables; rank() assumed free of side effects on the needle',
    design_ref='5/C19')

CHECKS['C11'] = dict(
    category='proof', technique='abstract interpretation of monomorphic MIR (E2) with ghost coverage of REJECTED CANDIDATE POSITIONS (E3 extended to pair masks, scan summaries and byte disequalities): symbolic haystack, arbitrary prefilter value, ghost needle; Houdini loop invariants; entailment obligations at every return; 2 (quick) / 10 (thorough) configurations',
    text="Decides the property relative to the vector axioms: for every public packed-pair find_prefilter (portable, SSE2, AVX2, "
         "NEON, simd128) and for the private short-haystack fallback find_simple, None is returned only after every position at "
         "which the needle still fits was rejected (pair bytes absent), Some(c) only when every position before c was rejected "
         "(so c <= first occurrence) and -- for the public prefilters -- both pair bytes really are at c+index1, c+index2; the "
         "constructors store needle[index1]/needle[index2] (rarest_byte = needle[rarest_offset], rarest_offset = index1); the "
         "meta searcher calls a vector prefilter only when haystack.len() >= min_haystack_len() and find_simple otherwise. "
         "Holds for all haystack lengths, all pairs (index1 > index2 and offsets up to 255 included) and all contents at once.",
    note=TB + E3TB + '; the scan summary of memchr/One::find used inside the scalar prefilters is the statement C01 proves',
    design_ref='5/C11')

SUBTECH = 'abstract interpretation (E2) of monomorphic MIR with the byte-equality ghost (eqg.py) and the relation/spec tables (mm.py): symbolic haystack and needle, exact linear store, Houdini loop invariants, assume-guarantee between public functions; entailment obligations per return path / back edge; 2 (quick) / 10 (thorough) configurations'
SUBNOTE = TB + 'the E2 interpreter, eqg.py, mm.py; completeness of Two-Way (critical factorisation theorem) and of the Rabin-Karp rolling hash are NOT decided and not assumed by any obligation'
CHECKS['C03'] = dict(
    category='other', technique=SUBTECH,
    text="Necessary conditions, not the whole property: the check decides (for all needles/haystacks at once) the strategy table of "
         "the meta searcher (empty iff len 0, one byte iff len 1, memcmp-confirming vector searcher only for 2..=32, else Two-Way), "
         "the Two-Way construction relation (critical_pos < len, 1 <= period/shift <= len, 2*shift >= len), Some(i) => i + len <= "
         "haystack.len() at every level, that every internal call passes the construction needle and respects min_haystack_len, "
         "that Some(i) is returned only after needle[..] was compared equal with haystack[i..i+len] of the CALLER's haystack "
         "(Rabin-Karp, packed pair, large-period Two-Way, the meta searcher over them; a sub-search must be rebased; for small-period "
         "Two-Way: everything its shift memory does not vouch for), the "
         "small-period shift-memory discipline (shift == 0 or last move == +period and shift + period <= len), the suffix-scan step "
         "rule of the critical-factorisation preprocessing (offset advances by one or restarts at 0 when the candidate moves), the "
         "period classification (Shift::Small only after the one comparison Two-Way prescribes answered true), completeness of the "
         "packed-pair vector searcher (the strategy for 2..=32-byte needles: None / Some(i) only after every fitting position "
         "(before i) was rejected), the empty needle => Some(0), and the union/fn-pointer pairing. Why 'other': that Two-Way never skips an occurrence is the critical "
         "factorisation theorem and that the rolling hash tracks the window is arithmetic mod 2^32 -- neither is in reach of a "
         "sound static argument here; a runtime oracle would be a different technique.",
    note=SUBNOTE, design_ref='5/C03')
CHECKS['C04'] = dict(
    category='other', technique=SUBTECH,
    text="Mirror image of C03 for memmem::rfind / FinderRev::rfind: SearcherRev strategy table, reverse Two-Way relation "
         "(1 <= critical_pos <= len, ...), index range, verified offset for reverse Rabin-Karp / large-period reverse Two-Way / the "
         "meta searcher (small period: needle[..shift]), reverse shift-memory discipline (shift == len, or last move == -period and "
         "shift >= period), reverse suffix-scan step rule and period classification (is_prefix of the last `period` bytes of v "
         "against u), empty needle => Some(haystack.len()). Completeness of reverse Two-Way / rolling hash not decided.",
    note=SUBNOTE, design_ref='5/C04')
CHECKS['C08'] = dict(
    category='other', technique=SUBTECH + '; plus a documented pen-and-paper induction over call histories',
    text="Decides the per-call transfer obligations of FindIter/FindRevIter for an arbitrary iterator value per searcher kind: "
         "next() leaves pos unchanged on None, yields i with pos <= i, i + len <= haystack.len() and stores i + max(len, 1); "
         "the reverse iterator stores Some(i), or pos.checked_sub(1) after an empty match at pos (offset 0 is yielded once, then "
         "None forever); size_hint is (0, Some(0)) when exhausted, exactly len - pos + 1 for the empty needle and "
         "(0, floor((len - pos)/needle.len())) otherwise; find_iter/rfind_iter start at 0 / Some(len) on the given haystack and "
         "into_owned keeps haystack, position and needle length. The greedy-sequence statement follows by induction from these "
         "facts AND from C03/C04 for the underlying search, which are themselves only partially decided -- hence 'other'.",
    note=SUBNOTE + '; the induction over histories is by hand', design_ref='5/C08')
CHECKS['C12'] = dict(
    category='other', technique=SUBTECH,
    text="Per building block: Two-Way fwd/rev construction relation, suffix-scan step rule, period classification, index range, "
         "verified offset (large period: whole needle; small period: what the memory does not vouch for), shift-memory discipline; Rabin-Karp fwd/rev index range and verified offset (a hash hit alone never answers); "
         "Shift-Or new returns None exactly when len > 15 and remembers the length, index range; packed-pair new/with_pair store "
         "the pair and needle bytes given; packed-pair find is decided COMPLETELY on its documented domain (documented panic exact, "
         "verified offset, and None/Some(i) only after every fitting position (before i) was rejected -- leftmost occurrence, "
         "relative to the vector axioms). NOT decided: that Two-Way / the rolling hash / the Shift-Or automaton never miss an occurrence.",
    note=SUBNOTE, design_ref='5/C12')

NOT_YET = "check not built yet (build in progress, see DESIGN.md section 8 build order)"
NA = {}

m = {
    "version": 1,
    "setup_cmd": "./setup.sh",
    "hooks": {"guard": "memchr_verif",
              "enable": "none: the analyser reads the compiler IR of the unmodified tree; no hooks in /repo",
              "baseline_off_cmd": "cd /repo && cargo test --workspace --no-fail-fast --offline",
              "source_commits": [], "add_only": True},
    "engines": [
        {"name": "mcsa", "path": "mcsa/", "serves_properties": sorted(CHECKS),
         "kind_free_text": "rustc_private driver: facts + monomorphic MIR exporter run under cargo +nightly check per configuration"},
        {"name": "mcai", "path": "mcai/", "serves_properties": sorted(CHECKS),
         "kind_free_text": "python3 static analyses over the exported program: call graph, dominance, derived-from dataflow (prog.py, derive.py, guards.py, rules/), abstract interpretation of monomorphic MIR with Houdini loop invariants (lin.py, loops.py, interp.py, models.py), ghost scan/candidate coverage (e3.py), byte-equality coverage (eqg.py), the substring-layer relation and specification tables with assume-guarantee between public functions (mm.py, specs.py, eqspec.py), compile-fail witnesses (witness/)"},
    ],
    "checks": [],
    "notes": "All checks are static analyses of /repo's current source (no memchr code is executed, concretely or symbolically with a solver; "
             "the abstract interpreter decides entailments with its own Fourier-Motzkin procedure). Every property has a check; "
             "C03, C04, C08, C10, C12, C13 are claimed at level 'other': they decide necessary conditions and state in their level text what "
             "static analysis does not reach here (completeness of Two-Way = critical factorisation theorem, of the Rabin-Karp rolling hash, "
             "of the Shift-Or automaton; step counts; termination). /repo carries one unguarded 'fix:' commit (3f371df, u32 overflow in "
             "PrefilterState::is_effective, found by C14) recorded in known_findings.json; there are no hooks in /repo. "
             "DESIGN.md section 9 describes what was built; seeded/MATRIX.md the changes the checks were tried against.",
    "not_applicable": [],
}
for pid in ids:
    if pid in CHECKS:
        c = CHECKS[pid]
        m['checks'].append({
            "property_id": pid,
            "quick_cmd": f"./check {pid} --tier quick",
            "thorough_cmd": f"./check {pid} --tier thorough",
            "evidence_file": f"/verif/evidence/{pid}.json",
            "replay_cmd_template": "cat {path}",
            "engine": "mcsa+mcai",
            "level_claimed": {"category": c['category'], "text": c['text'], "design_ref": c['design_ref']},
            "level_note": c['note'],
            "technique": c['technique'],
        })
    else:
        m['not_applicable'].append({"property_id": pid, "reason": NA.get(pid, NOT_YET)})
json.dump(m, open(os.path.join(V, 'MANIFEST.json'), 'w'), indent=1)
print("checks:", [c['property_id'] for c in m['checks']])
