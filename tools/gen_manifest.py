#!/usr/bin/env python3
"""Regenerate /verif/MANIFEST.json from the table below (single source of truth)."""
import json, os

V = os.path.dirname(os.path.dirname(os.path.abspath(__file__)))
ids = [json.loads(l)['id'] for l in open(os.path.join(V, 'properties.jsonl'))]

TB = "rustc nightly front end (types, trait resolution, MIR construction, const eval); the mcsa exporter; "

CHECKS = {
    'C17': dict(
        category='proof',
        technique='call-graph reachability over resolved monomorphic MIR (rustc_private driver), 3/10 target configurations',
        text="Decides the property for the crate's own code: in the resolved, monomorphic call graph (direct calls, "
             "fn-item and closure mentions, ifunc static initialisers) no instance of crate alloc/std is reachable from "
             "any public entry point other than into_owned, Shift-Or and clone of a needle-owning finder; in no-alloc "
             "builds crate alloc is not linked at all. A static reachability argument covers every input and every "
             "strategy of the meta searcher at once, which an allocator probe on sampled inputs cannot.",
        note=TB + "crate core cannot allocate; user AsRef/HeuristicFrequencyRank callbacks and the optional logging feature are outside the claim.",
        design_ref='5/C17'),
}

NOT_YET = "check not built yet (build in progress, see DESIGN.md section 8 build order)"
NA = {}

m = {
    "version": 1,
    "setup_cmd": "./setup.sh",
    "hooks": {"guard": "memchr_verif",
              "enable": "none: the analyser reads the compiler IR of the unmodified tree; no hooks in /repo",
              "baseline_off_cmd": "cd /repo && cargo test --workspace --no-fail-fast --offline",
              "source_commits": [], "add_only": True},
    "engines": [
        {"name": "mcsa", "path": "mcsa/", "serves_properties": sorted(CHECKS),
         "kind_free_text": "rustc_private driver: facts + monomorphic MIR exporter run under cargo +nightly check per configuration"},
        {"name": "mcai", "path": "mcai/", "serves_properties": sorted(CHECKS),
         "kind_free_text": "python3 static analyses over the exported program: call graph, dominance, dataflow, abstract interpretation"},
    ],
    "checks": [],
    "notes": "All checks are static analyses of /repo's current source (no memchr code is executed). See DESIGN.md.",
    "not_applicable": [],
}
for pid in ids:
    if pid in CHECKS:
        c = CHECKS[pid]
        m['checks'].append({
            "property_id": pid,
            "quick_cmd": f"./check {pid} --tier quick",
            "thorough_cmd": f"./check {pid} --tier thorough",
            "evidence_file": f"/verif/evidence/{pid}.json",
            "replay_cmd_template": "cat {path}",
            "engine": "mcsa+mcai",
            "level_claimed": {"category": c['category'], "text": c['text'], "design_ref": c['design_ref']},
            "level_note": c['note'],
            "technique": c['technique'],
        })
    else:
        m['not_applicable'].append({"property_id": pid, "reason": NA.get(pid, NOT_YET)})
json.dump(m, open(os.path.join(V, 'MANIFEST.json'), 'w'), indent=1)
print("checks:", [c['property_id'] for c in m['checks']])
