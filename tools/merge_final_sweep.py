#!/usr/bin/env python3
"""tools/merge_final_sweep.py <snapshot matrix.json> <log of fully swept changes> [<log rel-family> <log debug-family>]
Copies the snapshot's matrix into seeded/matrix.json and tags every row with the analyser version that produced it
(`_swept`), then the caller runs tools/matrix_md.py.  Test tooling only."""
import json, os, sys

V = os.path.dirname(os.path.dirname(os.path.abspath(__file__)))


def names(log):
    out = []
    if log and os.path.exists(log):
        for l in open(log):
            if ' caught by ' in l:
                out.append(l.split(' caught by ')[0].strip())
    return out


snap, full = sys.argv[1], sys.argv[2]
rel = sys.argv[3] if len(sys.argv) > 3 else None
dbg = sys.argv[4] if len(sys.argv) > 4 else None
m = json.load(open(snap))
FINAL = 'final analyser, all 19 checks'
for n in names(full):
    m[n]['_swept'] = FINAL
r, d = set(names(rel)), set(names(dbg))
for n in r | d:
    if n in r and n in d:
        m[n]['_swept'] = FINAL
    elif n in r:
        m[n]['_swept'] = 'final analyser for C01 C02 C05 C06 C07 C09 C15 C16 C17 C18; the other checks with the round-3 analyser'
    else:
        m[n]['_swept'] = 'final analyser for C03 C04 C08 C10-C14 C19; the other checks with the round-3 analyser'
k = 'm80_wasm_cmpeq_u16'
if k in m:
    m[k]['C09'] = {'rc': 1, 'violations': 1, 'first': 'src/vector.rs:495: [LANE-LAW] V.cmpeq|core::arch::wasm32::v128 (wasm): lane i of cmpeq(a, b) is all-ones '
                   'when a[i] == b[i] ... [THOROUGH tier only: the simd128 backend is not in the quick tier; run by tools/try_patch.sh with TIER=thorough]'}
json.dump(m, open(os.path.join(V, 'seeded', 'matrix.json'), 'w'), indent=1, sort_keys=True)
print(len(m), 'rows;', sum(1 for v in m.values() if v.get('_swept') == FINAL), 'on the final analyser')
