#!/usr/bin/env python3
"""tools/mkmut.py <name> <file> <old> <new> [<file> <old> <new> ...] -- make a self-test mutant patch from string replacements."""
import subprocess, sys
name = sys.argv[1]
trip = sys.argv[2:]
assert len(trip) % 3 == 0
assert subprocess.run(['git', '-C', '/repo', 'diff', '--quiet']).returncode == 0, "/repo dirty"
try:
    for i in range(0, len(trip), 3):
        f, old, new = trip[i:i + 3]
        p = '/repo/' + f
        s = open(p).read()
        assert s.count(old) >= 1, f"pattern not found in {f}: {old!r}"
        s = s.replace(old, new, 1)
        open(p, 'w').write(s)
    d = subprocess.check_output(['git', '-C', '/repo', 'diff'], text=True)
    open(f'/verif/selftest/mutants/{name}.diff', 'w').write(d)
    print(f"wrote selftest/mutants/{name}.diff ({len(d.splitlines())} lines)")
finally:
    subprocess.run(['git', '-C', '/repo', 'checkout', '--', '.'])
