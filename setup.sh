#!/bin/bash
# Build everything the checks need, offline, from files on disk only:
#  1. the rustc_private driver mcsa
#  2. metadata-only sysroots (core, alloc, stub compiler_builtins) for the
#     cross targets, from the nightly toolchain's rust-src component.
set -euo pipefail
cd "$(dirname "$0")"
V=$PWD
export CARGO_NET_OFFLINE=true
mkdir -p build
( cd mcsa && CARGO_TARGET_DIR=$V/build/mcsa-target cargo build --offline 2>&1 | tail -3 )
test -x build/mcsa-target/debug/mcsa
SR=$(rustc +nightly --print sysroot)
SRC=$SR/lib/rustlib/src/rust/library
SYS=$V/build/sysroot
mkdir -p "$SYS"
cat > build/cb_stub.rs <<'EOS'
#![feature(compiler_builtins, no_core)]
#![compiler_builtins]
#![no_core]
extern crate core;
EOS
build_target() {
  local T=$1; shift
  local OUT=$SYS/lib/rustlib/$T/lib
  if [ -f "$OUT/.done" ]; then return 0; fi
  rm -rf "$OUT"; mkdir -p "$OUT"
  RUSTC_BOOTSTRAP=1 rustc +nightly --edition=2024 --crate-name core --crate-type rlib --emit=metadata \
     --target $T "$@" -Zforce-unstable-if-unmarked -Zalways-encode-mir -C panic=abort -Awarnings $SRC/core/src/lib.rs --out-dir $OUT
  RUSTC_BOOTSTRAP=1 rustc +nightly --edition=2021 --crate-name compiler_builtins --crate-type rlib --emit=metadata \
     --target $T "$@" -Zforce-unstable-if-unmarked -C panic=abort -Awarnings --sysroot $SYS build/cb_stub.rs --out-dir $OUT
  RUSTC_BOOTSTRAP=1 rustc +nightly --edition=2024 --crate-name alloc --crate-type rlib --emit=metadata \
     --target $T "$@" -Zforce-unstable-if-unmarked -Zalways-encode-mir -C panic=abort -Awarnings --sysroot $SYS $SRC/alloc/src/lib.rs --out-dir $OUT
  touch "$OUT/.done"
  echo "sysroot $T ok"
}
pids=()
build_target aarch64-unknown-linux-gnu & pids+=($!)
build_target aarch64_be-unknown-linux-gnu & pids+=($!)
build_target wasm32-unknown-unknown -C target-feature=+simd128 & pids+=($!)
build_target i686-unknown-linux-gnu & pids+=($!)
build_target s390x-unknown-linux-gnu & pids+=($!)
build_target x86_64-unknown-none & pids+=($!)
rc=0
for p in "${pids[@]}"; do wait $p || rc=1; done
[ $rc = 0 ] || { echo "setup: a sysroot failed"; exit 1; }
echo "setup ok"
