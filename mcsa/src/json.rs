//! Minimal JSON value + serializer (the driver has zero crates.io dependencies).
use std::fmt::Write;

#[derive(Clone, Debug)]
pub enum J {
    Null,
    Bool(bool),
    Int(i128),
    UInt(u128),
    Str(String),
    Arr(Vec<J>),
    Obj(Vec<(String, J)>),
}

impl J {
    pub fn s<S: Into<String>>(s: S) -> J {
        J::Str(s.into())
    }
    pub fn obj() -> J {
        J::Obj(Vec::new())
    }
    pub fn set<S: Into<String>>(mut self, k: S, v: J) -> J {
        if let J::Obj(ref mut o) = self {
            o.push((k.into(), v));
        }
        self
    }
    pub fn put<S: Into<String>>(&mut self, k: S, v: J) {
        if let J::Obj(ref mut o) = self {
            o.push((k.into(), v));
        }
    }
    pub fn write(&self, out: &mut String) {
        match self {
            J::Null => out.push_str("null"),
            J::Bool(b) => out.push_str(if *b { "true" } else { "false" }),
            J::Int(i) => {
                let _ = write!(out, "{}", i);
            }
            J::UInt(i) => {
                let _ = write!(out, "{}", i);
            }
            J::Str(s) => write_str(s, out),
            J::Arr(a) => {
                out.push('[');
                for (i, x) in a.iter().enumerate() {
                    if i > 0 {
                        out.push(',');
                    }
                    x.write(out);
                }
                out.push(']');
            }
            J::Obj(o) => {
                out.push('{');
                for (i, (k, v)) in o.iter().enumerate() {
                    if i > 0 {
                        out.push(',');
                    }
                    write_str(k, out);
                    out.push(':');
                    v.write(out);
                }
                out.push('}');
            }
        }
    }
}

fn write_str(s: &str, out: &mut String) {
    out.push('"');
    for c in s.chars() {
        match c {
            '"' => out.push_str("\\\""),
            '\\' => out.push_str("\\\\"),
            '\n' => out.push_str("\\n"),
            '\r' => out.push_str("\\r"),
            '\t' => out.push_str("\\t"),
            c if (c as u32) < 0x20 => {
                let _ = write!(out, "\\u{:04x}", c as u32);
            }
            c => out.push(c),
        }
    }
    out.push('"');
}
