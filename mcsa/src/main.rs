//! mcsa — memchr static-analysis driver.
//!
//! A rustc_private driver that type-checks the target crate exactly as the
//! real build does and then writes ONE JSON file (env MCSA_OUT) holding
//!   * "facts": items, visibilities, unsafety, target features, statics and
//!     their initialisers, ADTs with auto-trait answers, impls;
//!   * "types": interned type table with layouts;
//!   * "instances": every monomorphic instance reachable from the crate's
//!     non-generic functions (plus table-instantiated public generics), with
//!     its instantiated MIR body, resolved callees and evaluated constants.
//! All reasoning is done elsewhere (python, /verif/mcai) over this file.
#![feature(rustc_private)]
#![allow(clippy::all)]

extern crate rustc_abi;
extern crate rustc_data_structures;
extern crate rustc_driver;
extern crate rustc_hir;
extern crate rustc_infer;
extern crate rustc_interface;
extern crate rustc_middle;
extern crate rustc_session;
extern crate rustc_span;
extern crate rustc_trait_selection;

mod export;
mod json;

use rustc_driver::Compilation;
use rustc_interface::interface::Compiler;
use rustc_middle::ty::TyCtxt;
use std::path::PathBuf;

struct Cb {
    out: PathBuf,
}

impl rustc_driver::Callbacks for Cb {
    fn after_analysis<'tcx>(&mut self, _c: &Compiler, tcx: TyCtxt<'tcx>) -> Compilation {
        let mut ex = export::Exporter::new(tcx);
        let j = ex.run();
        let mut s = String::with_capacity(64 << 20);
        j.write(&mut s);
        std::fs::write(&self.out, s).expect("mcsa: cannot write MCSA_OUT");
        Compilation::Continue
    }
}

struct Plain;
impl rustc_driver::Callbacks for Plain {}

fn main() {
    let mut args: Vec<String> = std::env::args().collect();
    // As RUSTC_WORKSPACE_WRAPPER, argv[1] is the path of the real rustc.
    if args.len() > 1 {
        let p = std::path::Path::new(&args[1]);
        if p.file_stem().map(|s| s == "rustc").unwrap_or(false) {
            args.remove(1);
        }
    }
    let want = std::env::var("MCSA_CRATE").unwrap_or_else(|_| "memchr".to_string());
    let mut crate_name = None;
    for i in 0..args.len() {
        if args[i] == "--crate-name" && i + 1 < args.len() {
            crate_name = Some(args[i + 1].clone());
        }
    }
    let is_test = args.iter().any(|a| a == "--test");
    let out = std::env::var("MCSA_OUT").ok();
    if crate_name.as_deref() == Some(want.as_str()) && out.is_some() && !is_test {
        let mut cb = Cb { out: PathBuf::from(out.unwrap()) };
        rustc_driver::run_compiler(&args, &mut cb);
    } else {
        rustc_driver::run_compiler(&args, &mut Plain);
    }
}
