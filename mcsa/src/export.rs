use crate::json::J;
use rustc_data_structures::fx::{FxHashMap, FxHashSet};
use rustc_hir::def::DefKind;
use rustc_hir::def_id::{DefId, LOCAL_CRATE};
use rustc_middle::mir::{
    self, AggregateKind, BasicBlock, BinOp, Body, CastKind, ConstValue, NonDivergingIntrinsic,
    Operand, Place, PlaceTy, ProjectionElem, Rvalue, StatementKind, TerminatorKind, UnOp,
    VarDebugInfoContents,
};
use rustc_middle::ty::{
    self, EarlyBinder, GenericArgsRef, Instance, InstanceKind, Ty, TyCtxt, TyKind, TypeVisitableExt,
    TypingEnv,
};
use rustc_span::Span;
use std::collections::VecDeque;

pub struct Exporter<'tcx> {
    tcx: TyCtxt<'tcx>,
    env: TypingEnv<'tcx>,
    types: Vec<J>,
    type_ids: FxHashMap<Ty<'tcx>, usize>,
    inst_keys: FxHashMap<Instance<'tcx>, String>,
    used_keys: FxHashSet<String>,
    queue: VecDeque<(Instance<'tcx>, u32)>,
    instances: Vec<(String, J)>,
    max_ext_depth: u32,
}

fn num(n: usize) -> J {
    J::UInt(n as u128)
}

impl<'tcx> Exporter<'tcx> {
    pub fn new(tcx: TyCtxt<'tcx>) -> Self {
        let max_ext_depth =
            std::env::var("MCSA_EXT_DEPTH").ok().and_then(|s| s.parse().ok()).unwrap_or(6);
        Exporter {
            tcx,
            env: TypingEnv::fully_monomorphized(),
            types: Vec::new(),
            type_ids: FxHashMap::default(),
            inst_keys: FxHashMap::default(),
            used_keys: FxHashSet::default(),
            queue: VecDeque::new(),
            instances: Vec::new(),
            max_ext_depth,
        }
    }

    pub fn run(&mut self) -> J {
        let tcx = self.tcx;
        let facts = self.facts();
        // Roots: every local fn-like item that needs no monomorphisation,
        // plus table-instantiated public generics.
        let mut roots = Vec::new();
        for ldid in tcx.hir_body_owners() {
            let did = ldid.to_def_id();
            match tcx.def_kind(did) {
                DefKind::Fn | DefKind::AssocFn => {}
                _ => continue,
            }
            let generics = tcx.generics_of(did);
            if generics.requires_monomorphization(tcx) {
                if let Some(args) = self.table_args(did) {
                    let inst = Instance::new_raw(did, args);
                    roots.push(self.key_of(inst, 0));
                }
                continue;
            }
            let args = ty::GenericArgs::for_item(tcx, did, |param, _| match param.kind {
                ty::GenericParamDefKind::Lifetime => tcx.lifetimes.re_erased.into(),
                _ => unreachable!(),
            });
            let inst = Instance::new_raw(did, args);
            roots.push(self.key_of(inst, 0));
        }
        while let Some((inst, depth)) = self.queue.pop_front() {
            let key = self.inst_keys[&inst].clone();
            let j = self.export_instance(inst, depth);
            self.instances.push((key, j));
        }
        let ptr_bits = tcx.data_layout.pointer_size().bits();
        let endian = match tcx.data_layout.endian {
            rustc_abi::Endian::Little => "little",
            rustc_abi::Endian::Big => "big",
        };
        let sess = tcx.sess;
        let mut cfgs: Vec<String> = sess
            .config
            .iter()
            .map(|(k, v)| match v {
                Some(v) => format!("{}={}", k, v),
                None => format!("{}", k),
            })
            .collect();
        cfgs.sort();
        J::obj()
            .set("crate", J::s(tcx.crate_name(LOCAL_CRATE).to_string()))
            .set("target", J::s(sess.opts.target_triple.to_string()))
            .set("pointer_bits", J::UInt(ptr_bits as u128))
            .set("endian", J::s(endian))
            .set("cfg", J::Arr(cfgs.into_iter().map(J::Str).collect()))
            .set("debug_assertions", J::Bool(sess.opts.debug_assertions))
            .set("overflow_checks", J::Bool(sess.overflow_checks()))
            .set("ub_checks", J::Bool(sess.ub_checks()))
            .set("facts", facts)
            .set("roots", J::Arr(roots.into_iter().map(J::Str).collect()))
            .set("types", J::Arr(std::mem::take(&mut self.types)))
            .set("instances", J::Obj(std::mem::take(&mut self.instances)))
    }

    // ------------------------------------------------------------------
    // generic public roots instantiated from a small table keyed by bounds
    // ------------------------------------------------------------------
    fn table_args(&mut self, did: DefId) -> Option<GenericArgsRef<'tcx>> {
        let tcx = self.tcx;
        let ev = tcx.effective_visibilities(());
        let ldid = did.as_local()?;
        if !ev.is_reachable(ldid) {
            return None;
        }
        // collect predicates to decide the substitution for each type param
        let preds = tcx.predicates_of(did).instantiate_identity(tcx);
        let mut ok = true;
        let u8slice = Ty::new_slice(tcx, tcx.types.u8);
        let default_rank = self.find_local_adt("DefaultFrequencyRank");
        let args = ty::GenericArgs::for_item(tcx, did, |param, _| match param.kind {
            ty::GenericParamDefKind::Lifetime => tcx.lifetimes.re_erased.into(),
            ty::GenericParamDefKind::Type { .. } => {
                // which traits bound this parameter?
                let mut names = Vec::new();
                for (p, _) in preds.predicates.iter().zip(preds.spans.iter()) {
                    if let Some(tp) = p.skip_norm_wip().as_trait_clause() {
                        let tp = tp.skip_binder();
                        if let TyKind::Param(pt) = tp.self_ty().kind() {
                            if pt.index == param.index {
                                names.push(tcx.def_path_str(tp.def_id()));
                            }
                        }
                    }
                }
                let n = names.join(",");
                if n.contains("AsRef") {
                    if names.iter().any(|x| x == "core::marker::Sized" || x == "std::marker::Sized" || x == "Sized") {
                        // by-value parameter: must be Sized -> &[u8]
                        Ty::new_imm_ref(tcx, tcx.lifetimes.re_erased, u8slice).into()
                    } else {
                        u8slice.into()
                    }
                } else if n.contains("HeuristicFrequencyRank") {
                    match default_rank {
                        Some(t) => t.into(),
                        None => {
                            ok = false;
                            tcx.types.unit.into()
                        }
                    }
                } else {
                    ok = false;
                    tcx.types.unit.into()
                }
            }
            ty::GenericParamDefKind::Const { .. } => {
                ok = false;
                unreachable!()
            }
        });
        if ok {
            Some(args)
        } else {
            None
        }
    }

    fn find_local_adt(&self, name: &str) -> Option<Ty<'tcx>> {
        let tcx = self.tcx;
        for id in tcx.hir_crate_items(()).definitions() {
            let did = id.to_def_id();
            if matches!(tcx.def_kind(did), DefKind::Struct) && tcx.item_name(did).as_str() == name {
                return Some(tcx.type_of(did).instantiate_identity().skip_norm_wip());
            }
        }
        None
    }

    // ------------------------------------------------------------------
    // instance keys / worklist
    // ------------------------------------------------------------------
    fn key_of(&mut self, inst: Instance<'tcx>, depth: u32) -> String {
        if let Some(k) = self.inst_keys.get(&inst) {
            return k.clone();
        }
        let base = rustc_middle::ty::print::with_no_trimmed_paths!(format!("{}", inst));
        let mut key = base.clone();
        let mut n = 1;
        while self.used_keys.contains(&key) {
            n += 1;
            key = format!("{}#{}", base, n);
        }
        self.used_keys.insert(key.clone());
        self.inst_keys.insert(inst, key.clone());
        self.queue.push_back((inst, depth));
        key
    }

    fn path(&self, did: DefId) -> String {
        rustc_middle::ty::print::with_no_trimmed_paths!(self.tcx.def_path_str(did))
    }

    fn loc(&self, span: Span) -> String {
        let sp = span.source_callsite();
        let s = self.tcx.sess.source_map().span_to_diagnostic_string(sp);
        // "file:line:col: line:col" -> "file:line"
        let mut it = s.splitn(3, ':');
        let f = it.next().unwrap_or("");
        let l = it.next().unwrap_or("0");
        format!("{}:{}", f, l)
    }

    fn macros(&self, span: Span) -> J {
        let mut v = Vec::new();
        for e in span.macro_backtrace() {
            v.push(J::Str(e.kind.descr()));
        }
        J::Arr(v)
    }

    // ------------------------------------------------------------------
    // types
    // ------------------------------------------------------------------
    fn tid(&mut self, ty: Ty<'tcx>) -> J {
        num(self.tid_raw(ty))
    }

    fn tid_raw(&mut self, ty: Ty<'tcx>) -> usize {
        if let Some(&i) = self.type_ids.get(&ty) {
            return i;
        }
        let id = self.types.len();
        self.type_ids.insert(ty, id);
        self.types.push(J::Null);
        let tcx = self.tcx;
        let mut j = J::obj().set(
            "str",
            J::Str(rustc_middle::ty::print::with_no_trimmed_paths!(format!("{}", ty))),
        );
        if !ty.has_non_region_param() && !ty.has_escaping_bound_vars() {
            if let Ok(l) = tcx.layout_of(self.env.as_query_input(ty)) {
                if l.is_sized() {
                    j.put("size", J::UInt(l.size.bytes() as u128));
                }
                j.put("align", J::UInt(l.align.abi.bytes() as u128));
            }
        }
        match *ty.kind() {
            TyKind::Bool => j.put("kind", J::s("bool")),
            TyKind::Char => j.put("kind", J::s("char")),
            TyKind::Int(it) => {
                j.put("kind", J::s("int"));
                j.put("signed", J::Bool(true));
                let bits = it.bit_width().unwrap_or(tcx.data_layout.pointer_size().bits());
                j.put("bits", J::UInt(bits as u128));
                j.put("name", J::s(it.name_str()));
            }
            TyKind::Uint(it) => {
                j.put("kind", J::s("int"));
                j.put("signed", J::Bool(false));
                let bits = it.bit_width().unwrap_or(tcx.data_layout.pointer_size().bits());
                j.put("bits", J::UInt(bits as u128));
                j.put("name", J::s(it.name_str()));
            }
            TyKind::Float(_) => j.put("kind", J::s("float")),
            TyKind::Never => j.put("kind", J::s("never")),
            TyKind::Str => j.put("kind", J::s("str")),
            TyKind::RawPtr(p, m) => {
                j.put("kind", J::s("ptr"));
                j.put("mut", J::Bool(m.is_mut()));
                let t = self.tid(p);
                j.put("to", t);
            }
            TyKind::Ref(_, p, m) => {
                j.put("kind", J::s("ref"));
                j.put("mut", J::Bool(m.is_mut()));
                let t = self.tid(p);
                j.put("to", t);
            }
            TyKind::Slice(e) => {
                j.put("kind", J::s("slice"));
                let t = self.tid(e);
                j.put("elem", t);
            }
            TyKind::Array(e, n) => {
                j.put("kind", J::s("array"));
                let t = self.tid(e);
                j.put("elem", t);
                if let Some(n) = n.try_to_target_usize(tcx) {
                    j.put("len", J::UInt(n as u128));
                }
            }
            TyKind::Tuple(ts) => {
                j.put("kind", J::s("tuple"));
                let v: Vec<J> = ts.iter().map(|t| self.tid(t)).collect();
                j.put("fields", J::Arr(v));
            }
            TyKind::Adt(adt, args) => {
                j.put("kind", J::s("adt"));
                j.put("path", J::Str(self.path(adt.did())));
                j.put("krate", J::Str(tcx.crate_name(adt.did().krate).to_string()));
                j.put(
                    "adt_kind",
                    J::s(if adt.is_union() {
                        "union"
                    } else if adt.is_enum() {
                        "enum"
                    } else {
                        "struct"
                    }),
                );
                j.put("simd", J::Bool(adt.repr().simd()));
                let mut targs = Vec::new();
                for a in args.iter() {
                    if let Some(t) = a.as_type() {
                        targs.push(self.tid(t));
                    }
                }
                j.put("targs", J::Arr(targs));
                let mut vs = Vec::new();
                for v in adt.variants().iter() {
                    let mut fs = Vec::new();
                    for f in v.fields.iter() {
                        let fty = f.ty(tcx, args);
                        let fty = tcx
                            .try_normalize_erasing_regions(self.env, ty::Unnormalized::new_wip(fty))
                            .unwrap_or(fty);
                        let t = self.tid(fty);
                        fs.push(J::obj().set("name", J::s(f.name.as_str())).set("ty", t));
                    }
                    vs.push(J::obj().set("name", J::s(v.name.as_str())).set("fields", J::Arr(fs)));
                }
                j.put("variants", J::Arr(vs));
            }
            TyKind::FnDef(did, args) => {
                j.put("kind", J::s("fndef"));
                j.put("path", J::Str(self.path(did)));
                if !args.has_non_region_param() {
                    if let Ok(Some(inst)) = Instance::try_resolve(tcx, self.env, did, args) {
                        let c = self.callee_json(inst, 1);
                        j.put("callee", c);
                    }
                }
                let sig = tcx.fn_sig(did).instantiate(tcx, args).skip_norm_wip();
                j.put("unsafe", J::Bool(sig.safety().is_unsafe()));
            }
            TyKind::FnPtr(sig_tys, hdr) => {
                j.put("kind", J::s("fnptr"));
                j.put("unsafe", J::Bool(hdr.safety().is_unsafe()));
                let io = tcx.instantiate_bound_regions_with_erased(sig_tys).inputs_and_output;
                let v: Vec<J> = io.iter().map(|t| self.tid(t)).collect();
                j.put("sig", J::Arr(v));
            }
            TyKind::Closure(did, args) => {
                j.put("kind", J::s("closure"));
                j.put("path", J::Str(self.path(did)));
                let ups: Vec<J> =
                    args.as_closure().upvar_tys().iter().map(|t| self.tid(t)).collect();
                j.put("upvars", J::Arr(ups));
            }
            TyKind::Dynamic(..) => j.put("kind", J::s("dyn")),
            TyKind::Param(_) => j.put("kind", J::s("param")),
            TyKind::Foreign(_) => j.put("kind", J::s("foreign")),
            _ => j.put("kind", J::s("other")),
        }
        self.types[id] = j;
        id
    }

    // ------------------------------------------------------------------
    // callee description
    // ------------------------------------------------------------------
    fn callee_json(&mut self, inst: Instance<'tcx>, depth: u32) -> J {
        let tcx = self.tcx;
        let did = inst.def_id();
        let kind = match inst.def {
            InstanceKind::Item(_) => "item",
            InstanceKind::Intrinsic(_) => "intrinsic",
            InstanceKind::VTableShim(_) => "vtable_shim",
            InstanceKind::ReifyShim(..) => "reify_shim",
            InstanceKind::FnPtrShim(..) => "fnptr_shim",
            InstanceKind::Virtual(..) => "virtual",
            InstanceKind::ClosureOnceShim { .. } => "closure_once_shim",
            InstanceKind::DropGlue(..) => "drop_glue",
            InstanceKind::CloneShim(..) => "clone_shim",
            _ => "other_shim",
        };
        let local = did.is_local();
        let d = if local { 0 } else { depth };
        let key = self.key_of(inst, d);
        let mut j = J::obj()
            .set("inst", J::Str(key))
            .set("path", J::Str(self.path(did)))
            .set("krate", J::Str(tcx.crate_name(did.krate).to_string()))
            .set("kind", J::s(kind));
        if matches!(tcx.def_kind(did), DefKind::Fn | DefKind::AssocFn) {
            let sig = tcx.fn_sig(did).skip_binder();
            j.put("unsafe", J::Bool(sig.safety().is_unsafe()));
            if let Some(i) = tcx.intrinsic(did) {
                j.put("intrinsic", J::s(i.name.as_str()));
            }
            if tcx.is_foreign_item(did) {
                j.put("foreign", J::Bool(true));
            }
        }
        let targs: Vec<J> = inst
            .args
            .iter()
            .filter_map(|a| a.as_type())
            .map(|t| J::Str(rustc_middle::ty::print::with_no_trimmed_paths!(format!("{}", t))))
            .collect();
        j.put("targs", J::Arr(targs));
        j
    }

    // ------------------------------------------------------------------
    // instance bodies
    // ------------------------------------------------------------------
    fn export_instance(&mut self, inst: Instance<'tcx>, depth: u32) -> J {
        let tcx = self.tcx;
        let did = inst.def_id();
        let local = did.is_local();
        let mut j = J::obj()
            .set("path", J::Str(self.path(did)))
            .set("krate", J::Str(tcx.crate_name(did.krate).to_string()))
            .set("local", J::Bool(local))
            .set("ext_depth", J::UInt(depth as u128));
        let dk = tcx.def_kind(did);
        j.put("def_kind", J::Str(format!("{:?}", dk)));
        let targs: Vec<J> = inst.args.iter().filter_map(|a| a.as_type()).map(|t| self.tid(t)).collect();
        j.put("targs", J::Arr(targs));
        let shim = !matches!(inst.def, InstanceKind::Item(_));
        j.put("shim", J::Bool(shim));
        if matches!(dk, DefKind::Fn | DefKind::AssocFn | DefKind::Closure | DefKind::Ctor(..)) {
            let attrs = tcx.codegen_fn_attrs(did);
            let tf: Vec<J> =
                attrs.target_features.iter().map(|f| J::s(f.name.as_str())).collect();
            j.put("target_features", J::Arr(tf));
        }
        if matches!(dk, DefKind::Fn | DefKind::AssocFn) {
            let sig = tcx.fn_sig(did).skip_binder();
            j.put("unsafe", J::Bool(sig.safety().is_unsafe()));
        }
        j.put("loc", J::Str(self.loc(tcx.def_span(did))));
        if inst.args.has_non_region_param() {
            j.put("nobody", J::s("not monomorphic"));
            return j;
        }
        let has_body = match inst.def {
            InstanceKind::Item(d) => {
                !tcx.is_foreign_item(d) && tcx.intrinsic(d).is_none() && tcx.is_mir_available(d)
            }
            InstanceKind::Intrinsic(_) | InstanceKind::Virtual(..) => false,
            _ => true,
        };
        if !has_body {
            j.put("nobody", J::s("no MIR"));
            return j;
        }
        if !local && depth > self.max_ext_depth {
            j.put("nobody", J::s("external depth limit"));
            return j;
        }
        let body: &Body<'tcx> = tcx.instance_mir(inst.def);
        let body: Body<'tcx> = match inst.try_instantiate_mir_and_normalize_erasing_regions(
            tcx,
            self.env,
            EarlyBinder::bind(body.clone()),
        ) {
            Ok(b) => b,
            Err(_) => {
                j.put("nobody", J::s("normalization failed"));
                return j;
            }
        };
        j.put("arg_count", num(body.arg_count));
        let locals: Vec<J> = body.local_decls.iter().map(|d| self.tid(d.ty)).collect();
        j.put("locals", J::Arr(locals));
        let mut dbg = Vec::new();
        for v in body.var_debug_info.iter() {
            if let VarDebugInfoContents::Place(p) = v.value {
                let pj = self.place(&body, p);
                dbg.push(J::obj().set("name", J::s(v.name.as_str())).set("p", pj));
            }
        }
        j.put("debug", J::Arr(dbg));
        let mut blocks = Vec::new();
        for (_bb, data) in body.basic_blocks.iter_enumerated() {
            if data.is_cleanup {
                blocks.push(J::obj().set("cleanup", J::Bool(true)));
                continue;
            }
            let mut stmts = Vec::new();
            for st in data.statements.iter() {
                if let Some(s) = self.stmt(&body, st) {
                    stmts.push(s);
                }
            }
            let term = self.term(&body, data.terminator(), depth);
            blocks.push(J::obj().set("stmts", J::Arr(stmts)).set("term", term));
        }
        j.put("blocks", J::Arr(blocks));
        j
    }

    fn bb(&self, b: BasicBlock) -> J {
        num(b.as_usize())
    }

    fn place(&mut self, body: &Body<'tcx>, p: Place<'tcx>) -> J {
        let tcx = self.tcx;
        let mut pty = PlaceTy::from_ty(body.local_decls[p.local].ty);
        let mut pr = Vec::new();
        for elem in p.projection.iter() {
            let base_ty = pty.ty;
            pty = pty.projection_ty(tcx, elem);
            let t = self.tid(pty.ty);
            let e = match elem {
                ProjectionElem::Deref => J::obj().set("k", J::s("deref")),
                ProjectionElem::Field(f, _) => {
                    let mut e = J::obj().set("k", J::s("field")).set("i", num(f.as_usize()));
                    if let TyKind::Adt(adt, _) = base_ty.kind() {
                        if adt.is_union() {
                            e.put("union", J::Bool(true));
                        }
                    }
                    e
                }
                ProjectionElem::Index(l) => {
                    J::obj().set("k", J::s("index")).set("l", num(l.as_usize()))
                }
                ProjectionElem::ConstantIndex { offset, min_length, from_end } => J::obj()
                    .set("k", J::s("constindex"))
                    .set("offset", J::UInt(offset as u128))
                    .set("min_length", J::UInt(min_length as u128))
                    .set("from_end", J::Bool(from_end)),
                ProjectionElem::Subslice { from, to, from_end } => J::obj()
                    .set("k", J::s("subslice"))
                    .set("from", J::UInt(from as u128))
                    .set("to", J::UInt(to as u128))
                    .set("from_end", J::Bool(from_end)),
                ProjectionElem::Downcast(_, v) => {
                    J::obj().set("k", J::s("downcast")).set("v", num(v.as_usize()))
                }
                ProjectionElem::OpaqueCast(_) => J::obj().set("k", J::s("opaquecast")),
                ProjectionElem::UnwrapUnsafeBinder(_) => J::obj().set("k", J::s("unwrapbinder")),
            };
            pr.push(e.set("ty", t));
        }
        J::obj().set("l", num(p.local.as_usize())).set("pr", J::Arr(pr))
    }

    fn constant(&mut self, c: &mir::ConstOperand<'tcx>) -> J {
        let tcx = self.tcx;
        let ty = c.const_.ty();
        let t = self.tid(ty);
        let mut j = J::obj().set("k", J::s("const")).set("ty", t);
        if let TyKind::FnDef(..) = ty.kind() {
            j.put("ck", J::s("fn"));
            return j;
        }
        let evaluated = c.const_.eval(tcx, self.env, c.span);
        // enum / struct / tuple constants (incl. niche-encoded `None`): destructure into variant + fields
        if let (Ok(cv), TyKind::Adt(..) | TyKind::Tuple(..)) = (&evaluated, ty.kind()) {
            let is_simd = matches!(ty.kind(), TyKind::Adt(a, _) if a.repr().simd());
            let is_union = matches!(ty.kind(), TyKind::Adt(a, _) if a.is_union());
            if !is_simd && !is_union && !matches!(cv, ConstValue::ZeroSized) {
                if let Some(d) = tcx.try_destructure_mir_constant_for_user_output(*cv, ty) {
                    j.put("ck", J::s("adt"));
                    j.put("variant", num(d.variant.map(|v| v.as_usize()).unwrap_or(0)));
                    let mut fs = Vec::new();
                    for (fv, fty) in d.fields.iter() {
                        let ft = self.tid(*fty);
                        let mut fj = J::obj().set("k", J::s("const")).set("ty", ft);
                        match fv {
                            ConstValue::Scalar(mir::interpret::Scalar::Int(si)) => {
                                let size = si.size();
                                let bits = si.to_bits(size);
                                fj.put("ck", J::s("int"));
                                if matches!(fty.kind(), TyKind::Int(_)) {
                                    fj.put("v", J::Int(size.sign_extend(bits) as i128));
                                } else {
                                    fj.put("v", J::UInt(bits));
                                }
                            }
                            ConstValue::ZeroSized => fj.put("ck", J::s("zst")),
                            _ => fj.put("ck", J::s("opaque")),
                        }
                        fs.push(fj);
                    }
                    j.put("fields", J::Arr(fs));
                    return j;
                }
            }
        }
        match evaluated {
            Ok(ConstValue::ZeroSized) => j.put("ck", J::s("zst")),
            Ok(ConstValue::Scalar(mir::interpret::Scalar::Int(si))) => {
                j.put("ck", J::s("int"));
                let size = si.size();
                let bits = si.to_bits(size);
                let signed = matches!(ty.kind(), TyKind::Int(_));
                if signed {
                    j.put("v", J::Int(size.sign_extend(bits) as i128));
                } else {
                    j.put("v", J::UInt(bits));
                }
            }
            Ok(ConstValue::Scalar(mir::interpret::Scalar::Ptr(ptr, _))) => {
                let (prov, off) = ptr.into_raw_parts();
                j.put("ck", J::s("ptr"));
                j.put("off", J::UInt(off.bytes() as u128));
                match tcx.global_alloc(prov.alloc_id()) {
                    mir::interpret::GlobalAlloc::Static(d) => {
                        j.put("static", J::Str(self.path(d)));
                    }
                    mir::interpret::GlobalAlloc::Function { instance } => {
                        let cj = self.callee_json(instance, 1);
                        j.put("fn", cj);
                    }
                    mir::interpret::GlobalAlloc::Memory(a) => {
                        j.put("memory", J::Bool(true));
                        let a = a.inner();
                        if a.len() <= 64 && a.provenance().ptrs().is_empty() {
                            let bytes = a.inspect_with_uninit_and_ptr_outside_interpreter(0..a.len());
                            j.put("bytes", J::Arr(bytes.iter().map(|b| J::UInt(*b as u128)).collect()));
                        }
                    }
                    _ => {}
                }
            }
            Ok(ConstValue::Slice { .. }) => j.put("ck", J::s("slice")),
            Ok(ConstValue::Indirect { .. }) => j.put("ck", J::s("indirect")),
            Err(_) => j.put("ck", J::s("error")),
        }
        j
    }

    fn operand(&mut self, body: &Body<'tcx>, op: &Operand<'tcx>) -> J {
        match op {
            Operand::Copy(p) => {
                let pj = self.place(body, *p);
                J::obj().set("k", J::s("copy")).set("p", pj)
            }
            Operand::Move(p) => {
                let pj = self.place(body, *p);
                J::obj().set("k", J::s("move")).set("p", pj)
            }
            Operand::Constant(c) => self.constant(c),
            Operand::RuntimeChecks(rc) => J::obj()
                .set("k", J::s("rtcheck"))
                .set("which", J::Str(format!("{:?}", rc)))
                .set("v", J::Bool(rc.value(self.tcx.sess))),
        }
    }

    fn stmt(&mut self, body: &Body<'tcx>, st: &mir::Statement<'tcx>) -> Option<J> {
        let loc = J::Str(self.loc(st.source_info.span));
        match &st.kind {
            StatementKind::Assign(b) => {
                let (p, rv) = &**b;
                let pj = self.place(body, *p);
                let rj = self.rvalue(body, rv);
                Some(J::obj().set("k", J::s("assign")).set("p", pj).set("rv", rj).set("loc", loc))
            }
            StatementKind::SetDiscriminant { place, variant_index } => {
                let pj = self.place(body, **place);
                Some(
                    J::obj()
                        .set("k", J::s("setdiscr"))
                        .set("p", pj)
                        .set("v", num(variant_index.as_usize()))
                        .set("loc", loc),
                )
            }
            StatementKind::Intrinsic(i) => match &**i {
                NonDivergingIntrinsic::Assume(op) => {
                    let oj = self.operand(body, op);
                    Some(J::obj().set("k", J::s("assume")).set("op", oj).set("loc", loc))
                }
                NonDivergingIntrinsic::CopyNonOverlapping(_) => {
                    Some(J::obj().set("k", J::s("copy_nonoverlapping")).set("loc", loc))
                }
            },
            _ => None,
        }
    }

    fn rvalue(&mut self, body: &Body<'tcx>, rv: &Rvalue<'tcx>) -> J {
        let tcx = self.tcx;
        let rty = rv.ty(&body.local_decls, tcx);
        let t = self.tid(rty);
        let j = match rv {
            Rvalue::Use(op, _) => {
                let oj = self.operand(body, op);
                J::obj().set("k", J::s("use")).set("op", oj)
            }
            Rvalue::CopyForDeref(p) => {
                let pj = self.place(body, *p);
                J::obj().set("k", J::s("use")).set("op", J::obj().set("k", J::s("copy")).set("p", pj))
            }
            Rvalue::Repeat(op, n) => {
                let oj = self.operand(body, op);
                let mut j = J::obj().set("k", J::s("repeat")).set("op", oj);
                if let Some(n) = n.try_to_target_usize(tcx) {
                    j.put("n", J::UInt(n as u128));
                }
                j
            }
            Rvalue::Ref(_, bk, p) => {
                let pj = self.place(body, *p);
                J::obj()
                    .set("k", J::s("ref"))
                    .set("mut", J::Bool(matches!(bk, mir::BorrowKind::Mut { .. })))
                    .set("p", pj)
            }
            Rvalue::RawPtr(k, p) => {
                let pj = self.place(body, *p);
                J::obj()
                    .set("k", J::s("rawptr"))
                    .set("mut", J::Bool(matches!(k, mir::RawPtrKind::Mut)))
                    .set("p", pj)
            }
            Rvalue::ThreadLocalRef(d) => J::obj().set("k", J::s("tls")).set("path", J::Str(self.path(*d))),
            Rvalue::Cast(ck, op, _) => {
                let oj = self.operand(body, op);
                let from = op.ty(&body.local_decls, tcx);
                let ft = self.tid(from);
                let cks = match ck {
                    CastKind::PointerCoercion(pc, _) => format!("Coerce:{:?}", pc),
                    other => format!("{:?}", other),
                };
                J::obj().set("k", J::s("cast")).set("ck", J::Str(cks)).set("op", oj).set("from", ft)
            }
            Rvalue::BinaryOp(op, ab) => {
                let (a, b) = &**ab;
                let aj = self.operand(body, a);
                let bj = self.operand(body, b);
                let at = a.ty(&body.local_decls, tcx);
                let att = self.tid(at);
                J::obj()
                    .set("k", J::s("bin"))
                    .set("op", J::Str(binop_name(*op).to_string()))
                    .set("a", aj)
                    .set("b", bj)
                    .set("aty", att)
            }
            Rvalue::UnaryOp(op, a) => {
                let aj = self.operand(body, a);
                let at = a.ty(&body.local_decls, tcx);
                let att = self.tid(at);
                let name = match op {
                    UnOp::Not => "Not",
                    UnOp::Neg => "Neg",
                    UnOp::PtrMetadata => "PtrMetadata",
                };
                J::obj().set("k", J::s("un")).set("op", J::s(name)).set("a", aj).set("aty", att)
            }
            Rvalue::Discriminant(p) => {
                let pj = self.place(body, *p);
                J::obj().set("k", J::s("discr")).set("p", pj)
            }
            Rvalue::Aggregate(kind, ops) => {
                let opsj: Vec<J> = ops.iter().map(|o| self.operand(body, o)).collect();
                let mut j = J::obj().set("k", J::s("agg")).set("ops", J::Arr(opsj));
                match &**kind {
                    AggregateKind::Array(_) => j.put("ak", J::s("array")),
                    AggregateKind::Tuple => j.put("ak", J::s("tuple")),
                    AggregateKind::Adt(did, variant, _, _, active) => {
                        j.put("ak", J::s("adt"));
                        j.put("path", J::Str(self.path(*did)));
                        j.put("variant", num(variant.as_usize()));
                        if let Some(f) = active {
                            j.put("union_field", num(f.as_usize()));
                        }
                    }
                    AggregateKind::Closure(did, _) => {
                        j.put("ak", J::s("closure"));
                        j.put("path", J::Str(self.path(*did)));
                    }
                    AggregateKind::RawPtr(..) => j.put("ak", J::s("rawptr")),
                    _ => j.put("ak", J::s("other")),
                }
                j
            }
            other => J::obj().set("k", J::s("other")).set("str", J::Str(format!("{:?}", other))),
        };
        j.set("ty", t)
    }

    fn term(&mut self, body: &Body<'tcx>, term: &mir::Terminator<'tcx>, depth: u32) -> J {
        let tcx = self.tcx;
        let loc = J::Str(self.loc(term.source_info.span));
        let j = match &term.kind {
            TerminatorKind::Goto { target } => J::obj().set("k", J::s("goto")).set("t", self.bb(*target)),
            TerminatorKind::SwitchInt { discr, targets } => {
                let dj = self.operand(body, discr);
                let dt = discr.ty(&body.local_decls, tcx);
                let dtt = self.tid(dt);
                let cases: Vec<J> = targets
                    .iter()
                    .map(|(v, t)| J::Arr(vec![J::UInt(v), self.bb(t)]))
                    .collect();
                J::obj()
                    .set("k", J::s("switch"))
                    .set("op", dj)
                    .set("ty", dtt)
                    .set("cases", J::Arr(cases))
                    .set("otherwise", self.bb(targets.otherwise()))
            }
            TerminatorKind::Return => J::obj().set("k", J::s("return")),
            TerminatorKind::Unreachable => J::obj().set("k", J::s("unreachable")),
            TerminatorKind::UnwindResume => J::obj().set("k", J::s("resume")),
            TerminatorKind::UnwindTerminate(_) => J::obj().set("k", J::s("terminate")),
            TerminatorKind::Drop { place, target, .. } => {
                let pj = self.place(body, *place);
                J::obj().set("k", J::s("drop")).set("p", pj).set("t", self.bb(*target))
            }
            TerminatorKind::Call { func, args, destination, target, fn_span, .. } => {
                let fty = func.ty(&body.local_decls, tcx);
                let callee = match fty.kind() {
                    TyKind::FnDef(did, gargs) => {
                        match Instance::try_resolve(tcx, self.env, *did, gargs) {
                            Ok(Some(inst)) => self.callee_json(inst, depth + 1),
                            _ => J::obj()
                                .set("unresolved", J::Str(self.path(*did)))
                                .set("path", J::Str(self.path(*did))),
                        }
                    }
                    _ => {
                        let oj = self.operand(body, func);
                        let ft = self.tid(fty);
                        J::obj().set("indirect", oj).set("fty", ft)
                    }
                };
                let argsj: Vec<J> = args.iter().map(|a| self.operand(body, &a.node)).collect();
                let dj = self.place(body, *destination);
                let mut j = J::obj()
                    .set("k", J::s("call"))
                    .set("callee", callee)
                    .set("args", J::Arr(argsj))
                    .set("dest", dj)
                    .set("macros", self.macros(*fn_span));
                match target {
                    Some(t) => j.put("t", self.bb(*t)),
                    None => j.put("t", J::Null),
                }
                j
            }
            TerminatorKind::Assert { cond, expected, msg, target, .. } => {
                let cj = self.operand(body, cond);
                use rustc_middle::mir::AssertKind as AK;
                let (mk, extra) = match &**msg {
                    AK::BoundsCheck { len, index } => {
                        let l = self.operand(body, len);
                        let i = self.operand(body, index);
                        ("bounds".to_string(), Some(J::obj().set("len", l).set("index", i)))
                    }
                    AK::Overflow(op, a, b) => {
                        let aj = self.operand(body, a);
                        let bj = self.operand(body, b);
                        (
                            format!("overflow:{}", binop_name(*op)),
                            Some(J::obj().set("a", aj).set("b", bj)),
                        )
                    }
                    AK::OverflowNeg(_) => ("overflow_neg".to_string(), None),
                    AK::DivisionByZero(_) => ("div_zero".to_string(), None),
                    AK::RemainderByZero(_) => ("rem_zero".to_string(), None),
                    AK::MisalignedPointerDereference { .. } => ("misaligned".to_string(), None),
                    AK::NullPointerDereference => ("null_deref".to_string(), None),
                    _ => ("other".to_string(), None),
                };
                let mut j = J::obj()
                    .set("k", J::s("assert"))
                    .set("cond", cj)
                    .set("expected", J::Bool(*expected))
                    .set("msg", J::Str(mk))
                    .set("t", self.bb(*target))
                    .set("macros", self.macros(term.source_info.span));
                if let Some(e) = extra {
                    j.put("info", e);
                }
                j
            }
            TerminatorKind::FalseEdge { real_target, .. } => {
                J::obj().set("k", J::s("goto")).set("t", self.bb(*real_target))
            }
            TerminatorKind::FalseUnwind { real_target, .. } => {
                J::obj().set("k", J::s("goto")).set("t", self.bb(*real_target))
            }
            TerminatorKind::InlineAsm { .. } => J::obj().set("k", J::s("asm")),
            TerminatorKind::TailCall { .. } => J::obj().set("k", J::s("tailcall")),
            _ => J::obj().set("k", J::s("other")),
        };
        j.set("loc", loc)
    }

    // ------------------------------------------------------------------
    // facts (polymorphic, per item)
    // ------------------------------------------------------------------
    fn facts(&mut self) -> J {
        let tcx = self.tcx;
        let ev = tcx.effective_visibilities(());
        let mut fns = Vec::new();
        let mut statics = Vec::new();
        let mut adts = Vec::new();
        let mut impls = Vec::new();
        let mut n_bodies = 0usize;
        for ldid in tcx.hir_body_owners() {
            n_bodies += 1;
            let did = ldid.to_def_id();
            let dk = tcx.def_kind(did);
            match dk {
                DefKind::Fn | DefKind::AssocFn | DefKind::Closure => {
                    let mut j = J::obj()
                        .set("path", J::Str(self.path(did)))
                        .set("def_kind", J::Str(format!("{:?}", dk)))
                        .set("loc", J::Str(self.loc(tcx.def_span(did))))
                        .set("reachable", J::Bool(ev.is_reachable(ldid)))
                        .set("generic", J::Bool(tcx.generics_of(did).requires_monomorphization(tcx)));
                    if matches!(dk, DefKind::Fn | DefKind::AssocFn) {
                        let sig = tcx.fn_sig(did).skip_binder();
                        j.put("unsafe", J::Bool(sig.safety().is_unsafe()));
                        j.put("vis", J::Str(format!("{:?}", tcx.visibility(did))));
                        let sigs = rustc_middle::ty::print::with_no_trimmed_paths!(format!(
                            "{}",
                            sig.skip_binder()
                        ));
                        j.put("sig", J::Str(sigs));
                        // self kind for methods
                        if dk == DefKind::AssocFn {
                            let ai = tcx.associated_item(did);
                            j.put("has_self", J::Bool(ai.is_method()));
                            if let Some(imp) = tcx.impl_of_assoc(did) {
                                let st = tcx.type_of(imp).instantiate_identity().skip_norm_wip();
                                j.put(
                                    "impl_self",
                                    J::Str(rustc_middle::ty::print::with_no_trimmed_paths!(
                                        format!("{}", st)
                                    )),
                                );
                                if let Some(tr) = tcx.impl_opt_trait_ref(imp) {
                                    j.put(
                                        "impl_trait",
                                        J::Str(self.path(tr.skip_binder().def_id)),
                                    );
                                }
                            }
                        }
                    }
                    let attrs = tcx.codegen_fn_attrs(did);
                    let tf: Vec<J> =
                        attrs.target_features.iter().map(|f| J::s(f.name.as_str())).collect();
                    j.put("target_features", J::Arr(tf));
                    fns.push(j);
                }
                DefKind::Static { mutability, nested, .. } => {
                    let ty = tcx.type_of(did).instantiate_identity().skip_norm_wip();
                    let mut j = J::obj()
                        .set("path", J::Str(self.path(did)))
                        .set(
                            "ty",
                            J::Str(rustc_middle::ty::print::with_no_trimmed_paths!(format!(
                                "{}",
                                ty
                            ))),
                        )
                        .set("mutable", J::Bool(mutability.is_mut()))
                        .set("nested", J::Bool(nested))
                        .set("loc", J::Str(self.loc(tcx.def_span(did))));
                    let freeze = ty.is_freeze(tcx, TypingEnv::non_body_analysis(tcx, did));
                    j.put("freeze", J::Bool(freeze));
                    let mut pts = Vec::new();
                    if let Ok(alloc) = tcx.eval_static_initializer(did) {
                        for (_, prov) in alloc.inner().provenance().ptrs().iter() {
                            match tcx.global_alloc(prov.alloc_id()) {
                                mir::interpret::GlobalAlloc::Function { instance } => {
                                    pts.push(
                                        J::obj().set("fn", self.callee_json(instance, 1)),
                                    );
                                }
                                mir::interpret::GlobalAlloc::Static(d) => {
                                    pts.push(J::obj().set("static", J::Str(self.path(d))));
                                }
                                _ => pts.push(J::obj().set("other", J::Bool(true))),
                            }
                        }
                        j.put("size", J::UInt(alloc.inner().len() as u128));
                    }
                    j.put("init_ptrs", J::Arr(pts));
                    statics.push(j);
                }
                _ => {}
            }
        }
        // ADTs, impls, and all other definitions
        let send = tcx.get_diagnostic_item(rustc_span::sym::Send);
        let sync = tcx.get_diagnostic_item(rustc_span::sym::Sync);
        let unpin = tcx.lang_items().unpin_trait();
        let mut n_defs = 0usize;
        let mut other_statics = Vec::new();
        for id in tcx.hir_crate_items(()).definitions() {
            n_defs += 1;
            let did = id.to_def_id();
            let dk = tcx.def_kind(did);
            match dk {
                DefKind::Struct | DefKind::Enum | DefKind::Union => {
                    let ty = tcx.type_of(did).instantiate_identity().skip_norm_wip();
                    let adt = tcx.adt_def(did);
                    let mut j = J::obj()
                        .set("path", J::Str(self.path(did)))
                        .set("kind", J::Str(format!("{:?}", dk)))
                        .set("reachable", J::Bool(ev.is_reachable(id)))
                        .set("vis", J::Str(format!("{:?}", tcx.visibility(did))))
                        .set("loc", J::Str(self.loc(tcx.def_span(did))))
                        .set("generic_types", J::Bool(tcx.generics_of(did).requires_monomorphization(tcx)));
                    let penv = tcx.param_env(did);
                    let tenv = TypingEnv::non_body_analysis(tcx, did);
                    j.put("freeze", J::Bool(ty.is_freeze(tcx, tenv)));
                    {
                        use rustc_infer::infer::TyCtxtInferExt;
                        use rustc_trait_selection::infer::InferCtxtExt;
                        let infcx = tcx.infer_ctxt().build(ty::TypingMode::non_body_analysis());
                        for (name, tr) in [("send", send), ("sync", sync), ("unpin", unpin)] {
                            if let Some(tr) = tr {
                                let r = infcx
                                    .type_implements_trait(tr, [ty], penv)
                                    .must_apply_modulo_regions();
                                j.put(name, J::Bool(r));
                            }
                        }
                    }
                    let mut vs = Vec::new();
                    for v in adt.variants().iter() {
                        let mut fs = Vec::new();
                        for f in v.fields.iter() {
                            let fty = tcx.type_of(f.did).instantiate_identity().skip_norm_wip();
                            fs.push(
                                J::obj()
                                    .set("name", J::s(f.name.as_str()))
                                    .set(
                                        "ty",
                                        J::Str(rustc_middle::ty::print::with_no_trimmed_paths!(
                                            format!("{}", fty)
                                        )),
                                    )
                                    .set("vis", J::Str(format!("{:?}", f.vis)))
                                    .set("freeze", J::Bool(fty.is_freeze(tcx, tenv))),
                            );
                        }
                        vs.push(J::obj().set("name", J::s(v.name.as_str())).set("fields", J::Arr(fs)));
                    }
                    j.put("variants", J::Arr(vs));
                    adts.push(j);
                }
                DefKind::Impl { of_trait } => {
                    let st = tcx.type_of(did).instantiate_identity().skip_norm_wip();
                    let mut j = J::obj()
                        .set(
                            "self_ty",
                            J::Str(rustc_middle::ty::print::with_no_trimmed_paths!(format!(
                                "{}",
                                st
                            ))),
                        )
                        .set("loc", J::Str(self.loc(tcx.def_span(did))))
                        .set("of_trait", J::Bool(of_trait));
                    if of_trait {
                        let tr = tcx.impl_trait_ref(did).skip_binder();
                        j.put("trait", J::Str(self.path(tr.def_id)));
                        let hdr = tcx.impl_trait_header(did);
                        j.put("unsafe", J::Bool(hdr.safety.is_unsafe()));
                        j.put("polarity", J::Str(format!("{:?}", hdr.polarity)));
                    }
                    let items: Vec<J> = tcx
                        .associated_item_def_ids(did)
                        .iter()
                        .map(|d| J::Str(self.path(*d)))
                        .collect();
                    j.put("items", J::Arr(items));
                    impls.push(j);
                }
                DefKind::Static { mutability, .. } => {
                    other_statics.push(
                        J::obj()
                            .set("path", J::Str(self.path(did)))
                            .set("mutable", J::Bool(mutability.is_mut())),
                    );
                }
                _ => {}
            }
        }
        // implied target-feature closure for every feature named on some fn
        let mut tf_names: Vec<rustc_span::Symbol> = Vec::new();
        for ldid in tcx.hir_body_owners() {
            let did = ldid.to_def_id();
            if matches!(tcx.def_kind(did), DefKind::Fn | DefKind::AssocFn) {
                for f in tcx.codegen_fn_attrs(did).target_features.iter() {
                    if !tf_names.contains(&f.name) {
                        tf_names.push(f.name);
                    }
                }
            }
        }
        let mut tf_implied = Vec::new();
        for n in tf_names {
            let imp: Vec<J> = tcx.implied_target_features(n).iter().map(|s| J::s(s.as_str())).collect();
            tf_implied.push((n.as_str().to_string(), J::Arr(imp)));
        }
        let unstable_tf: Vec<J> = tcx.sess.unstable_target_features.iter().map(|s| J::s(s.as_str())).collect();
        J::obj()
            .set("tf_implied", J::Obj(tf_implied))
            .set("session_target_features", J::Arr(unstable_tf))
            .set("n_body_owners", num(n_bodies))
            .set("n_definitions", num(n_defs))
            .set("fns", J::Arr(fns))
            .set("statics", J::Arr(statics))
            .set("all_statics", J::Arr(other_statics))
            .set("adts", J::Arr(adts))
            .set("impls", J::Arr(impls))
    }
}

fn binop_name(op: BinOp) -> &'static str {
    match op {
        BinOp::Add => "Add",
        BinOp::AddUnchecked => "AddUnchecked",
        BinOp::AddWithOverflow => "AddWithOverflow",
        BinOp::Sub => "Sub",
        BinOp::SubUnchecked => "SubUnchecked",
        BinOp::SubWithOverflow => "SubWithOverflow",
        BinOp::Mul => "Mul",
        BinOp::MulUnchecked => "MulUnchecked",
        BinOp::MulWithOverflow => "MulWithOverflow",
        BinOp::Div => "Div",
        BinOp::Rem => "Rem",
        BinOp::BitXor => "BitXor",
        BinOp::BitAnd => "BitAnd",
        BinOp::BitOr => "BitOr",
        BinOp::Shl => "Shl",
        BinOp::ShlUnchecked => "ShlUnchecked",
        BinOp::Shr => "Shr",
        BinOp::ShrUnchecked => "ShrUnchecked",
        BinOp::Eq => "Eq",
        BinOp::Lt => "Lt",
        BinOp::Le => "Le",
        BinOp::Ne => "Ne",
        BinOp::Ge => "Ge",
        BinOp::Gt => "Gt",
        BinOp::Cmp => "Cmp",
        BinOp::Offset => "Offset",
    }
}
