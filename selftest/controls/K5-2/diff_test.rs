// Differential test for the `Searcher::new` refactoring (change 2).
//
// Uses only the public API and std. The refactoring touches the decision of
// which searcher gets built, which depends on: the needle length (0, 1, 2..=32
// "packed" needles, >32 Two-Way needles), the prefilter configuration
// (None/Auto), the ranker (it determines the rare byte pair) and what the
// target supports. So this test builds finders for every combination of
// those and compares the results of searching with a naive reference
// implementation, with haystack lengths clustered around the thresholds where
// the built searchers switch strategy (16 for Rabin-Karp, and
// `max(index1, index2) + 16/32` for the vector searchers).

use std::cell::Cell;

use memchr::{
    arch::all::packedpair::HeuristicFrequencyRank,
    memmem::{self, FinderBuilder, Prefilter},
};

struct Rng(u64);

impl Rng {
    fn next(&mut self) -> u64 {
        // xorshift64*
        let mut x = self.0;
        x ^= x >> 12;
        x ^= x << 25;
        x ^= x >> 27;
        self.0 = x;
        x.wrapping_mul(0x2545F4914F6CDD1D)
    }
    fn below(&mut self, n: usize) -> usize {
        (self.next() % (n as u64)) as usize
    }
    fn range(&mut self, lo: usize, hi: usize) -> usize {
        lo + self.below(hi - lo + 1)
    }
}

fn naive_find(h: &[u8], n: &[u8]) -> Option<usize> {
    if n.len() > h.len() {
        return None;
    }
    (0..=h.len() - n.len()).find(|&i| &h[i..i + n.len()] == n)
}

fn naive_find_iter(h: &[u8], n: &[u8]) -> Vec<usize> {
    let mut out = vec![];
    let mut pos = 0;
    while pos <= h.len() {
        match naive_find(&h[pos..], n) {
            None => break,
            Some(i) => {
                out.push(pos + i);
                pos = pos + i + std::cmp::max(1, n.len());
            }
        }
    }
    out
}

/// A ranker backed by an arbitrary table that also counts how often it is
/// consulted.
struct TableRanker<'a> {
    table: &'a [u8; 256],
    calls: &'a Cell<usize>,
}

impl<'a> HeuristicFrequencyRank for TableRanker<'a> {
    fn rank(&self, byte: u8) -> u8 {
        self.calls.set(self.calls.get() + 1);
        self.table[usize::from(byte)]
    }
}

/// The number of `rank` calls needed to pick the rare byte pair of a needle.
/// This is a model of the documented "pick the two rarest bytes among the
/// first 255" selection: two calls for the initial comparison and then, per
/// remaining byte, two calls, plus two more if the byte isn't rarer than
/// the current rarest byte and differs from it.
fn pair_rank_calls(table: &[u8; 256], needle: &[u8]) -> usize {
    if needle.len() <= 1 {
        return 0;
    }
    let rank = |b: u8| table[usize::from(b)];
    let mut calls = 2;
    let (mut rare1, mut rare2) = (needle[0], needle[1]);
    if rank(rare2) < rank(rare1) {
        std::mem::swap(&mut rare1, &mut rare2);
    }
    for &b in needle.iter().take(255).skip(2) {
        calls += 2;
        if rank(b) < rank(rare1) {
            rare2 = rare1;
            rare1 = b;
        } else if b != rare1 {
            calls += 2;
            if rank(b) < rank(rare2) {
                rare2 = b;
            }
        }
    }
    calls
}

const ALPHABETS: &[&[u8]] = &[
    b"a",
    b"ab",
    b"abc",
    b"abcd",
    b"\x00\xff",
    b"etaoinshr ",
    b"abcdefghijklmnopqrstuvwxyz",
];

fn random_bytes(rng: &mut Rng, alpha: &[u8], len: usize) -> Vec<u8> {
    (0..len).map(|_| alpha[rng.below(alpha.len())]).collect()
}

fn periodic(rng: &mut Rng, alpha: &[u8], len: usize) -> Vec<u8> {
    let p = rng.range(1, 6);
    let unit = random_bytes(rng, alpha, p);
    (0..len).map(|i| unit[i % p]).collect()
}

fn gen_table(rng: &mut Rng) -> [u8; 256] {
    let mut t = [0u8; 256];
    match rng.below(6) {
        // Everything equally rare.
        0 => {}
        // Everything maximally common (above the fallback prefilter's
        // MAX_FALLBACK_RANK of 250).
        1 => t = [255u8; 256],
        // Identity and reverse identity.
        2 => {
            for i in 0..256 {
                t[i] = i as u8;
            }
        }
        3 => {
            for i in 0..256 {
                t[i] = 255 - i as u8;
            }
        }
        // Ranks around MAX_FALLBACK_RANK.
        4 => {
            for i in 0..256 {
                t[i] = 246 + rng.below(10) as u8;
            }
        }
        _ => {
            for i in 0..256 {
                t[i] = rng.below(256) as u8;
            }
        }
    }
    t
}

fn gen(rng: &mut Rng) -> (Vec<u8>, Vec<u8>) {
    let full: Vec<u8> = (0..=255).collect();
    let alpha: &[u8] = if rng.below(6) == 0 {
        &full
    } else {
        ALPHABETS[rng.below(ALPHABETS.len())]
    };
    // Needle lengths: dense around all of the thresholds in Searcher::new.
    let nlen = match rng.below(8) {
        0 => rng.range(0, 3),
        1 => rng.range(30, 35),
        2 => rng.range(2, 32),
        3 => rng.range(33, 70),
        4 => rng.range(250, 300),
        _ => rng.range(0, 300),
    };
    // Haystack lengths: dense around 16, 32, 64, the needle length and the
    // vector searchers' minimum haystack lengths.
    let hlen = match rng.below(8) {
        0 => rng.range(0, 20),
        1 => rng.range(12, 70),
        2 => nlen.saturating_sub(2) + rng.below(5),
        3 => nlen + rng.range(10, 40),
        _ => rng.range(0, 300),
    };
    let mut hay = if rng.below(3) == 0 {
        periodic(rng, alpha, hlen)
    } else {
        random_bytes(rng, alpha, hlen)
    };
    let needle = match rng.below(6) {
        0 | 1 | 2 if hlen >= nlen => {
            let at = match rng.below(3) {
                0 => 0,
                1 => hlen - nlen,
                _ => rng.below(hlen - nlen + 1),
            };
            hay[at..at + nlen].to_vec()
        }
        3 if hlen >= nlen && nlen > 0 => {
            let at = rng.below(hlen - nlen + 1);
            let mut n = hay[at..at + nlen].to_vec();
            let k = rng.below(nlen);
            n[k] = n[k].wrapping_add(1);
            n
        }
        4 => periodic(rng, alpha, nlen),
        _ => random_bytes(rng, alpha, nlen),
    };
    // Occasionally plant the needle at the very end so that the match sits in
    // the final (overlapping) vector chunk.
    if rng.below(4) == 0 && hlen >= nlen {
        let at = hlen - nlen;
        hay[at..].copy_from_slice(&needle);
    }
    (hay, needle)
}

fn check(
    what: &str,
    finder: &memmem::Finder<'_>,
    hay: &[u8],
    needle: &[u8],
    want: Option<usize>,
    want_all: &[usize],
) {
    assert_eq!(finder.needle(), needle);
    assert_eq!(
        want,
        finder.find(hay),
        "{}: h={:?} n={:?}",
        what,
        hay,
        needle
    );
    let got_all: Vec<usize> = finder.find_iter(hay).collect();
    assert_eq!(want_all, &got_all[..], "{}: h={:?} n={:?}", what, hay, needle);
}

#[test]
fn diff_searcher_new() {
    let mut rng = Rng(0xA0761D6478BD642F);
    let mut cases = 0usize;
    let mut matched = 0usize;
    let mut by_class = [0usize; 4];
    for _ in 0..22_000 {
        let (hay, needle) = gen(&mut rng);
        let want = naive_find(&hay, &needle);
        let want_all = naive_find_iter(&hay, &needle);

        let mut none = FinderBuilder::new();
        none.prefilter(Prefilter::None);
        let mut auto = FinderBuilder::new();
        auto.prefilter(Prefilter::Auto);
        let default = FinderBuilder::new();

        // Default ranker, all three configurations.
        for (what, b) in
            [("none", &none), ("auto", &auto), ("default", &default)]
        {
            let f = b.build_forward(&needle);
            check(what, &f, &hay, &needle, want, &want_all);
            // The borrowed and owned variants carry a copy of the searcher.
            check(what, &f.as_ref(), &hay, &needle, want, &want_all);
            check(what, &f.into_owned(), &hay, &needle, want, &want_all);
        }
        assert_eq!(want, memmem::find(&hay, &needle));

        // Custom rankers, which select different rare byte pairs (and hence
        // different vector searcher offsets/minimum haystack lengths).
        let table = gen_table(&mut rng);
        let expected_calls = pair_rank_calls(&table, &needle);
        for (what, b) in [("none+ranker", &none), ("auto+ranker", &auto)] {
            let calls = Cell::new(0);
            let ranker = TableRanker { table: &table, calls: &calls };
            let f = b.build_forward_with_ranker(ranker, &needle);
            // Building with Prefilter::None never consults the ranker for
            // anything but selecting the pair. Neither does Prefilter::Auto
            // when a vector searcher/prefilter is available, which is always
            // the case on x86_64 (SSE2) and aarch64 (neon).
            if what == "none+ranker"
                || cfg!(any(
                    all(target_arch = "x86_64", target_feature = "sse2"),
                    target_arch = "aarch64"
                ))
            {
                assert_eq!(
                    expected_calls,
                    calls.get(),
                    "{}: n={:?}",
                    what,
                    needle
                );
            }
            check(what, &f, &hay, &needle, want, &want_all);
            // Searching never consults the ranker.
            let after_build = calls.get();
            let _ = f.find(&hay);
            assert_eq!(after_build, calls.get());
        }

        // Every haystack prefix length in a window around the thresholds,
        // with one finder (searcher built once, used for many haystacks).
        let f = auto.build_forward(&needle);
        let g = none.build_forward(&needle);
        let lo = needle.len().saturating_sub(1);
        for end in lo..std::cmp::min(hay.len(), lo + 6) {
            let w = naive_find(&hay[..end], &needle);
            assert_eq!(w, f.find(&hay[..end]));
            assert_eq!(w, g.find(&hay[..end]));
        }

        cases += 1;
        if want.is_some() {
            matched += 1;
        }
        by_class[match needle.len() {
            0 | 1 => 0,
            2..=32 => 1,
            33..=255 => 2,
            _ => 3,
        }] += 1;
    }
    assert!(cases >= 20_000);
    assert!(matched > cases / 5, "matched={}", matched);
    assert!(cases - matched > cases / 5, "matched={}", matched);
    for (i, &c) in by_class.iter().enumerate() {
        assert!(c > 500, "class {} only has {} cases", i, c);
    }
}
