// Differential test for the refactoring of the Rabin-Karp search loops
// (`rabinkarp::Finder::find_raw` / `rabinkarp::FinderRev::rfind_raw`).
//
// Uses only the public API of the crate and std. Every routine is compared
// against a naive quadratic reference implementation.

use memchr::arch::all::rabinkarp;
use memchr::memmem;

/// A tiny deterministic xorshift64* generator.
struct Rng(u64);

impl Rng {
    fn next(&mut self) -> u64 {
        let mut x = self.0;
        x ^= x >> 12;
        x ^= x << 25;
        x ^= x >> 27;
        self.0 = x;
        x.wrapping_mul(0x2545_F491_4F6C_DD1D)
    }
    fn below(&mut self, n: usize) -> usize {
        (self.next() % (n as u64)) as usize
    }
    fn byte(&mut self, alphabet: usize) -> u8 {
        if alphabet >= 256 {
            self.next() as u8
        } else {
            b'a' + self.below(alphabet) as u8
        }
    }
}

fn naive_find(h: &[u8], n: &[u8]) -> Option<usize> {
    if n.len() > h.len() {
        return None;
    }
    (0..=h.len() - n.len()).find(|&i| &h[i..i + n.len()] == n)
}

fn naive_rfind(h: &[u8], n: &[u8]) -> Option<usize> {
    if n.len() > h.len() {
        return None;
    }
    (0..=h.len() - n.len()).rev().find(|&i| &h[i..i + n.len()] == n)
}

fn random_bytes(rng: &mut Rng, len: usize, alphabet: usize) -> Vec<u8> {
    (0..len).map(|_| rng.byte(alphabet)).collect()
}

fn periodic_bytes(
    rng: &mut Rng,
    len: usize,
    alphabet: usize,
    max_period: usize,
) -> Vec<u8> {
    let p = 1 + rng.below(max_period);
    let unit = random_bytes(rng, p, alphabet);
    (0..len).map(|i| unit[i % p]).collect()
}

/// Picks a length in 0..=300, biased towards small values and towards values
/// near typical vector sizes.
fn pick_len(rng: &mut Rng, max: usize) -> usize {
    let l = match rng.below(6) {
        0 => rng.below(5),
        1 => rng.below(20),
        2 => {
            let around = [15usize, 16, 17, 31, 32, 33, 63, 64, 65, 128];
            around[rng.below(around.len())] + rng.below(3) - 1
        }
        3 => rng.below(70),
        _ => rng.below(301),
    };
    std::cmp::min(l, max)
}

/// Generates a (haystack, needle) pair of one of several shapes.
fn gen_case(rng: &mut Rng) -> (Vec<u8>, Vec<u8>) {
    let alphabet = match rng.below(6) {
        0 => 1,
        1 | 2 => 2,
        3 => 3,
        4 => 4,
        _ => 256,
    };
    let nlen = pick_len(rng, 300);
    let mut needle = match rng.below(4) {
        0 => random_bytes(rng, nlen, alphabet),
        1 => periodic_bytes(rng, nlen, alphabet, 8),
        2 => periodic_bytes(rng, nlen, alphabet, 40),
        _ => {
            // periodic, with a single perturbation somewhere
            let mut n = periodic_bytes(rng, nlen, alphabet, 12);
            if !n.is_empty() {
                let at = rng.below(n.len());
                n[at] = rng.byte(alphabet.max(2));
            }
            n
        }
    };
    let hlen = pick_len(rng, 300);
    let mut haystack = match rng.below(5) {
        0 => random_bytes(rng, hlen, alphabet),
        1 => periodic_bytes(rng, hlen, alphabet, 8),
        2 => {
            // repeat the needle's own bytes so partial matches abound
            if needle.is_empty() {
                random_bytes(rng, hlen, alphabet)
            } else {
                let off = rng.below(needle.len());
                (0..hlen).map(|i| needle[(i + off) % needle.len()]).collect()
            }
        }
        3 => {
            // near-misses of the needle, concatenated
            let mut h = vec![];
            while h.len() < hlen {
                let mut n = needle.clone();
                if !n.is_empty() && rng.below(4) != 0 {
                    let at = rng.below(n.len());
                    n[at] = rng.byte(alphabet.max(2));
                }
                if n.is_empty() {
                    n.push(rng.byte(alphabet));
                }
                h.extend_from_slice(&n);
            }
            h.truncate(hlen);
            h
        }
        _ => {
            // random haystack with the needle planted somewhere (if it fits)
            let mut h = random_bytes(rng, hlen, alphabet);
            if needle.len() <= h.len() {
                let at = rng.below(h.len() - needle.len() + 1);
                h[at..at + needle.len()].copy_from_slice(&needle);
            }
            h
        }
    };
    // Occasionally take the needle from the haystack itself.
    if rng.below(8) == 0 && !haystack.is_empty() {
        let a = rng.below(haystack.len());
        let b = a + rng.below(haystack.len() - a + 1);
        needle = haystack[a..b].to_vec();
    }
    // Occasionally make the haystack a strict prefix of the needle.
    if rng.below(40) == 0 && !needle.is_empty() {
        haystack = needle[..needle.len() - 1].to_vec();
    }
    (haystack, needle)
}

const CASES: usize = 40_000;

#[test]
fn diff_rabinkarp_forward() {
    let mut rng = Rng(0x9E37_79B9_7F4A_7C15);
    for case in 0..CASES {
        let (h, n) = gen_case(&mut rng);
        let expected = naive_find(&h, &n);
        let finder = rabinkarp::Finder::new(&n);
        assert_eq!(
            expected,
            finder.find(&h, &n),
            "case {}: rabinkarp find haystack={:?} needle={:?}",
            case,
            h,
            n
        );
        // The raw pointer API, on a sub-slice so that the window is not at
        // the start/end of the allocation.
        if h.len() >= 2 {
            let sub = &h[1..h.len() - 1];
            let expected = naive_find(sub, &n);
            let got = unsafe {
                let hs = sub.as_ptr();
                let he = hs.add(sub.len());
                let ns = n.as_ptr();
                let ne = ns.add(n.len());
                finder
                    .find_raw(hs, he, ns, ne)
                    .map(|p| p as usize - hs as usize)
            };
            assert_eq!(expected, got, "case {}: find_raw {:?} {:?}", case, sub, n);
        }
    }
}

#[test]
fn diff_rabinkarp_reverse() {
    let mut rng = Rng(0xD1B5_4A32_D192_ED03);
    for case in 0..CASES {
        let (h, n) = gen_case(&mut rng);
        let expected = naive_rfind(&h, &n);
        let finder = rabinkarp::FinderRev::new(&n);
        assert_eq!(
            expected,
            finder.rfind(&h, &n),
            "case {}: rabinkarp rfind haystack={:?} needle={:?}",
            case,
            h,
            n
        );
        if h.len() >= 2 {
            let sub = &h[1..h.len() - 1];
            let expected = naive_rfind(sub, &n);
            let got = unsafe {
                let hs = sub.as_ptr();
                let he = hs.add(sub.len());
                let ns = n.as_ptr();
                let ne = ns.add(n.len());
                finder
                    .rfind_raw(hs, he, ns, ne)
                    .map(|p| p as usize - hs as usize)
            };
            assert_eq!(expected, got, "case {}: rfind_raw {:?} {:?}", case, sub, n);
        }
    }
}

#[test]
fn diff_rabinkarp_via_memmem() {
    // `memmem::find`/`rfind` use Rabin-Karp for haystacks shorter than 64
    // bytes, and `Finder`/`FinderRev` use it for haystacks shorter than 16
    // bytes (or shorter than the minimum length for the vector searcher).
    let mut rng = Rng(0x1234_5678_9ABC_DEF1);
    for case in 0..CASES {
        let (mut h, n) = gen_case(&mut rng);
        if rng.below(3) != 0 {
            let keep = rng.below(70);
            h.truncate(keep);
        }
        let fwd = naive_find(&h, &n);
        let rev = naive_rfind(&h, &n);
        assert_eq!(fwd, memmem::find(&h, &n), "case {} find {:?} {:?}", case, h, n);
        assert_eq!(rev, memmem::rfind(&h, &n), "case {} rfind {:?} {:?}", case, h, n);
        assert_eq!(
            fwd,
            memmem::Finder::new(&n).find(&h),
            "case {} Finder {:?} {:?}",
            case,
            h,
            n
        );
        assert_eq!(
            rev,
            memmem::FinderRev::new(&n).rfind(&h),
            "case {} FinderRev {:?} {:?}",
            case,
            h,
            n
        );
    }
}

#[test]
fn diff_rabinkarp_exhaustive_small() {
    // Every haystack/needle over {a, b} with haystack length <= 7 and needle
    // length <= 4 (including both empty).
    let mut all: Vec<Vec<u8>> = vec![];
    for len in 0..=7usize {
        for bits in 0..(1u32 << len) {
            all.push(
                (0..len)
                    .map(|i| if bits >> i & 1 == 0 { b'a' } else { b'b' })
                    .collect(),
            );
        }
    }
    for n in all.iter().filter(|n| n.len() <= 4) {
        let f = rabinkarp::Finder::new(n);
        let r = rabinkarp::FinderRev::new(n);
        for h in all.iter() {
            assert_eq!(naive_find(h, n), f.find(h, n), "{:?} {:?}", h, n);
            assert_eq!(naive_rfind(h, n), r.rfind(h, n), "{:?} {:?}", h, n);
        }
    }
}
