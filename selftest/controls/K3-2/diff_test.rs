// Differential test for the refactoring of the architecture independent
// "packed pair" code (src/arch/all/packedpair/mod.rs: `Pair::with_ranker` and
// `Finder::find_prefilter`).
//
// Only the public API of the crate and std are used.

use std::cell::RefCell;

use memchr::arch::all::packedpair::{Finder, HeuristicFrequencyRank, Pair};

/// A tiny deterministic PRNG (xorshift64*).
struct Rng(u64);

impl Rng {
    fn next(&mut self) -> u64 {
        let mut x = self.0;
        x ^= x >> 12;
        x ^= x << 25;
        x ^= x >> 27;
        self.0 = x;
        x.wrapping_mul(0x2545_F491_4F6C_DD1D)
    }

    fn below(&mut self, n: usize) -> usize {
        assert!(n > 0);
        (self.next() % (n as u64)) as usize
    }

    fn range(&mut self, lo: usize, hi_inclusive: usize) -> usize {
        lo + self.below(hi_inclusive - lo + 1)
    }
}

/// A ranker backed by an explicit table that also records every byte it is
/// asked about, so that the exact sequence of `rank` calls can be compared.
struct LoggingRanker<'a> {
    table: &'a [u8; 256],
    log: RefCell<Vec<u8>>,
}

impl<'a> HeuristicFrequencyRank for LoggingRanker<'a> {
    fn rank(&self, byte: u8) -> u8 {
        self.log.borrow_mut().push(byte);
        self.table[usize::from(byte)]
    }
}

/// The specification of `Pair::with_ranker`, written as a plain scan over
/// positions `2..min(len, 255)` that keeps the two best (lowest rank)
/// positions. It performs its `rank` queries through the same kind of ranker
/// so the query log can be compared too.
fn reference_pair<R: HeuristicFrequencyRank>(
    needle: &[u8],
    ranker: &R,
) -> Option<(u8, u8)> {
    if needle.len() < 2 {
        return None;
    }
    let (mut rare1, mut index1) = (needle[0], 0usize);
    let (mut rare2, mut index2) = (needle[1], 1usize);
    if ranker.rank(rare2) < ranker.rank(rare1) {
        std::mem::swap(&mut rare1, &mut rare2);
        std::mem::swap(&mut index1, &mut index2);
    }
    let mut i = 2;
    while i < needle.len() && i < 255 {
        let b = needle[i];
        if ranker.rank(b) < ranker.rank(rare1) {
            rare2 = rare1;
            index2 = index1;
            rare1 = b;
            index1 = i;
        } else if b != rare1 && ranker.rank(b) < ranker.rank(rare2) {
            rare2 = b;
            index2 = i;
        }
        i += 1;
    }
    assert!(index1 <= 254 && index2 <= 254 && index1 != index2);
    Some((index1 as u8, index2 as u8))
}

/// The specification of the portable prefilter: the smallest `i` such that
/// both `i + index1` and `i + index2` are in bounds and hold the two pair
/// bytes.
fn reference_prefilter(
    haystack: &[u8],
    index1: usize,
    index2: usize,
    byte1: u8,
    byte2: u8,
) -> Option<usize> {
    (0..haystack.len()).find(|&i| {
        haystack.get(i + index1) == Some(&byte1)
            && haystack.get(i + index2) == Some(&byte2)
    })
}

fn gen_needle(rng: &mut Rng, len: usize) -> Vec<u8> {
    let alphabets: [&[u8]; 5] =
        [b"ab", b"abc", b"aZ#\x00", b"abcdefgh\xFF\x80", b"etaoinshrdlu ,.z"];
    let alpha = alphabets[rng.below(alphabets.len())];
    match rng.below(5) {
        0 => (0..len).map(|_| alpha[rng.below(alpha.len())]).collect(),
        1 => {
            let period = rng.range(1, 4);
            let unit: Vec<u8> =
                (0..period).map(|_| alpha[rng.below(alpha.len())]).collect();
            (0..len).map(|i| unit[i % period]).collect()
        }
        2 => vec![alpha[0]; len],
        3 => (0..len).map(|_| rng.below(256) as u8).collect(),
        _ => {
            // Mostly one byte, with a couple of odd bytes, frequently placed
            // around the u8 boundary (offsets 253..257) or at the very end.
            let mut n = vec![alpha[0]; len];
            for _ in 0..rng.range(1, 3) {
                if len == 0 {
                    break;
                }
                let at = match rng.below(3) {
                    0 => rng.range(250, 260).min(len - 1),
                    1 => len - 1 - rng.below(len.min(3)),
                    _ => rng.below(len),
                };
                n[at] = alpha[rng.range(1, alpha.len() - 1)];
            }
            n
        }
    }
}

fn gen_table(rng: &mut Rng) -> [u8; 256] {
    let mut t = [0u8; 256];
    match rng.below(3) {
        0 => {
            for x in t.iter_mut() {
                *x = rng.below(256) as u8;
            }
        }
        1 => {
            // Many ties.
            for x in t.iter_mut() {
                *x = rng.below(3) as u8;
            }
        }
        _ => {
            for (i, x) in t.iter_mut().enumerate() {
                *x = 255 - i as u8;
            }
        }
    }
    t
}

fn gen_haystack(
    rng: &mut Rng,
    needle: &[u8],
    byte1: u8,
    byte2: u8,
    len: usize,
) -> Vec<u8> {
    let mut alpha: Vec<u8> = needle.iter().copied().take(8).collect();
    alpha.push(byte1);
    alpha.push(byte2);
    if rng.below(3) == 0 {
        alpha.push(b'q');
    }
    let mut h: Vec<u8> = match rng.below(4) {
        0 => (0..len).map(|_| alpha[rng.below(alpha.len())]).collect(),
        1 => vec![byte1; len],
        2 => vec![b'q'; len],
        _ => {
            // Rare occurrences of byte1/byte2 in filler.
            (0..len)
                .map(|_| match rng.below(12) {
                    0 => byte1,
                    1 => byte2,
                    _ => b'q',
                })
                .collect()
        }
    };
    for _ in 0..rng.below(3) {
        if len == 0 {
            break;
        }
        let at = match rng.below(2) {
            0 => len.saturating_sub(needle.len()) + rng.below(3),
            _ => rng.below(len),
        };
        for (k, &b) in needle.iter().enumerate() {
            if at + k < len {
                h[at + k] = b;
            }
        }
    }
    h
}

#[test]
fn pair_with_ranker_matches_reference() {
    let mut rng = Rng(0x1234_5678_9ABC_DEF1);
    let mut some = 0u64;
    for _ in 0..30_000 {
        let nlen = match rng.below(5) {
            0 => rng.range(0, 3),
            1 => rng.range(2, 20),
            2 => rng.range(250, 260),
            _ => rng.range(0, 300),
        };
        let needle = gen_needle(&mut rng, nlen);
        let table = gen_table(&mut rng);

        let r1 = LoggingRanker { table: &table, log: RefCell::new(vec![]) };
        let got = Pair::with_ranker(&needle, &r1);
        let r2 = LoggingRanker { table: &table, log: RefCell::new(vec![]) };
        let want = reference_pair(&needle, &r2);

        assert_eq!(
            got.map(|p| (p.index1(), p.index2())),
            want,
            "Pair::with_ranker: needle={:?}",
            needle
        );
        assert_eq!(
            *r1.log.borrow(),
            *r2.log.borrow(),
            "rank() query sequence differs: needle={:?}",
            needle
        );
        if got.is_some() {
            some += 1;
        }

        // The default ranker is private, but whatever it is, the result must
        // be two distinct in-range offsets below 255 and `Finder::new` must
        // agree with it.
        match Pair::new(&needle) {
            None => {
                assert!(needle.len() < 2);
                assert!(Finder::new(&needle).is_none());
            }
            Some(p) => {
                assert!(needle.len() >= 2);
                assert_ne!(p.index1(), p.index2());
                assert!(usize::from(p.index1()) < needle.len().min(255));
                assert!(usize::from(p.index2()) < needle.len().min(255));
                let f = Finder::new(&needle).unwrap();
                assert_eq!(f.pair().index1(), p.index1());
                assert_eq!(f.pair().index2(), p.index2());
            }
        }
    }
    assert!(some > 20_000);
}

#[test]
fn find_prefilter_matches_reference() {
    let mut rng = Rng(0x0F0F_1234_ABCD_9876);
    let mut hits = 0u64;
    let mut misses = 0u64;
    for _ in 0..40_000 {
        let nlen = match rng.below(4) {
            0 => rng.range(2, 4),
            1 => rng.range(2, 20),
            _ => rng.range(2, 300),
        };
        let needle = gen_needle(&mut rng, nlen);
        let pair = match rng.below(3) {
            0 => Pair::new(&needle).unwrap(),
            1 => {
                let table = gen_table(&mut rng);
                let r =
                    LoggingRanker { table: &table, log: RefCell::new(vec![]) };
                Pair::with_ranker(&needle, r).unwrap()
            }
            _ => {
                let cap = needle.len().min(256);
                loop {
                    let a = rng.below(cap) as u8;
                    let b = rng.below(cap) as u8;
                    if let Some(p) = Pair::with_indices(&needle, a, b) {
                        break p;
                    }
                }
            }
        };
        let finder = Finder::with_pair(&needle, pair).unwrap();
        let i1 = usize::from(pair.index1());
        let i2 = usize::from(pair.index2());
        let (b1, b2) = (needle[i1], needle[i2]);

        let hlen = match rng.below(4) {
            0 => rng.range(0, 3),
            1 => rng.range(0, 40),
            2 => (i1.max(i2) + rng.below(4)).min(300),
            _ => rng.range(0, 300),
        };
        let haystack = gen_haystack(&mut rng, &needle, b1, b2, hlen);

        let got = finder.find_prefilter(&haystack);
        let want = reference_prefilter(&haystack, i1, i2, b1, b2);
        assert_eq!(
            got, want,
            "find_prefilter: needle={:?} haystack={:?} pair={:?}",
            needle, haystack, pair
        );
        match want {
            Some(_) => hits += 1,
            None => misses += 1,
        }
    }
    assert!(hits > 3000, "too few positive cases: {}", hits);
    assert!(misses > 3000, "too few negative cases: {}", misses);
}

/// `memmem` builds its prefilter from `Pair::with_ranker`, so check complete
/// searches (default and custom ranker) against a naive search.
#[test]
fn memmem_with_ranker_matches_naive() {
    fn naive_find(haystack: &[u8], needle: &[u8]) -> Option<usize> {
        if needle.is_empty() {
            return Some(0);
        }
        if needle.len() > haystack.len() {
            return None;
        }
        (0..=haystack.len() - needle.len())
            .find(|&i| &haystack[i..i + needle.len()] == needle)
    }

    let mut rng = Rng(0x7777_1357_2468_ACE1);
    let mut hits = 0u64;
    for _ in 0..20_000 {
        let nlen = rng.range(0, 300);
        let needle = gen_needle(&mut rng, nlen);
        let hlen = rng.range(0, 300);
        let (b1, b2) = match needle.len() {
            0 => (b'a', b'b'),
            n => (needle[0], needle[n - 1]),
        };
        let haystack = gen_haystack(&mut rng, &needle, b1, b2, hlen);
        let want = naive_find(&haystack, &needle);
        assert_eq!(memchr::memmem::find(&haystack, &needle), want);
        let table = gen_table(&mut rng);
        let ranker = LoggingRanker { table: &table, log: RefCell::new(vec![]) };
        let f = memchr::memmem::FinderBuilder::new()
            .build_forward_with_ranker(ranker, &needle);
        assert_eq!(
            f.find(&haystack),
            want,
            "memmem with ranker: needle={:?} haystack={:?}",
            needle,
            haystack
        );
        if want.is_some() {
            hits += 1;
        }
    }
    assert!(hits > 1000, "too few positive cases: {}", hits);
}
