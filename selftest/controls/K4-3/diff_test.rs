// Differential test for the clean-up of the `unsafe_ifunc!` runtime dispatch
// macro in src/arch/x86_64/memchr.rs.
//
// The macro backs exactly these seven crate-internal entry points:
//   memchr_raw, memrchr_raw, memchr2_raw, memrchr2_raw, memchr3_raw,
//   memrchr3_raw, count_raw
// which are reached from the public API through
//   memchr, memrchr, memchr2, memrchr2, memchr3, memrchr3,
//   memchr{,2,3}_iter / memrchr{,2,3}_iter (next, next_back, count).
//
// Each of them owns a separate `static FN` that initially points at `detect`
// and is overwritten on the first call. This file is a single `#[test]` so
// that the very first calls of every entry point in this process happen
// concurrently from several threads (exercising the `detect` -> `select` ->
// store -> call path under a race), and everything afterwards goes through
// the cached function pointer. All results are compared against naive
// reference implementations. Only the public API and std are used.

use std::sync::{Arc, Barrier};

/// PCG-ish 64-bit LCG with output mixing; deterministic.
#[derive(Clone)]
struct Rng(u64);

impl Rng {
    fn next(&mut self) -> u64 {
        self.0 = self
            .0
            .wrapping_mul(6364136223846793005)
            .wrapping_add(1442695040888963407);
        let x = self.0;
        (x ^ (x >> 29)).wrapping_mul(0x9FB21C651E98DF25) >> 11
    }
    fn below(&mut self, n: usize) -> usize {
        (self.next() % (n as u64)) as usize
    }
}

struct Case {
    buf: Vec<u8>,
    off: usize,
    len: usize,
    n: [u8; 3],
}

impl Case {
    fn hay(&self) -> &[u8] {
        &self.buf[self.off..self.off + self.len]
    }
}

fn gen_case(rng: &mut Rng) -> Case {
    let len = match rng.below(4) {
        0 => rng.below(40),
        1 => {
            let base = [16usize, 32, 64, 128, 256][rng.below(5)];
            base - 2 + rng.below(5)
        }
        _ => rng.below(301),
    };
    let off = rng.below(17);
    let alpha = [1usize, 2, 3, 5, 26, 256][rng.below(6)];
    let pick = |rng: &mut Rng| (rng.below(alpha.max(4)) as u8).wrapping_add(b'a');
    let n = [pick(rng), pick(rng), pick(rng)];
    let total = off + len + 17;
    let mut buf: Vec<u8> = match rng.below(3) {
        0 => (0..total)
            .map(|_| (rng.below(alpha) as u8).wrapping_add(b'a'))
            .collect(),
        1 => {
            let p = 1 + rng.below(6);
            let unit: Vec<u8> = (0..p)
                .map(|_| (rng.below(alpha) as u8).wrapping_add(b'a'))
                .collect();
            (0..total).map(|i| unit[i % p]).collect()
        }
        _ => {
            // no needle byte anywhere, then plant 0..=3 of them
            let mut filler = b'A';
            while n.contains(&filler) {
                filler += 1;
            }
            let mut v = vec![filler; total];
            if len > 0 {
                for _ in 0..rng.below(4) {
                    v[off + rng.below(len)] = n[rng.below(3)];
                }
            }
            v
        }
    };
    if rng.below(2) == 0 {
        // needles right outside of the haystack must never be reported
        let k = rng.below(3);
        for b in &mut buf[..off] {
            *b = n[k];
        }
        for b in &mut buf[off + len..] {
            *b = n[k];
        }
    }
    Case { buf, off, len, n }
}

fn check(case: &Case) {
    let h = case.hay();
    let [n1, n2, n3] = case.n;
    let is1 = |b: u8| b == n1;
    let is2 = |b: u8| b == n1 || b == n2;
    let is3 = |b: u8| b == n1 || b == n2 || b == n3;

    assert_eq!(memchr::memchr(n1, h), h.iter().position(|&b| is1(b)));
    assert_eq!(memchr::memrchr(n1, h), h.iter().rposition(|&b| is1(b)));
    assert_eq!(memchr::memchr2(n1, n2, h), h.iter().position(|&b| is2(b)));
    assert_eq!(memchr::memrchr2(n1, n2, h), h.iter().rposition(|&b| is2(b)));
    assert_eq!(
        memchr::memchr3(n1, n2, n3, h),
        h.iter().position(|&b| is3(b))
    );
    assert_eq!(
        memchr::memrchr3(n1, n2, n3, h),
        h.iter().rposition(|&b| is3(b))
    );

    let all1: Vec<usize> = (0..h.len()).filter(|&i| is1(h[i])).collect();
    let all2: Vec<usize> = (0..h.len()).filter(|&i| is2(h[i])).collect();
    let all3: Vec<usize> = (0..h.len()).filter(|&i| is3(h[i])).collect();

    // count_raw dispatch
    assert_eq!(memchr::memchr_iter(n1, h).count(), all1.len());
    // repeated memchr_raw / memrchr_raw dispatch on shrinking ranges
    assert_eq!(memchr::memchr_iter(n1, h).collect::<Vec<_>>(), all1);
    assert_eq!(memchr::memchr2_iter(n1, n2, h).collect::<Vec<_>>(), all2);
    assert_eq!(memchr::memchr3_iter(n1, n2, n3, h).collect::<Vec<_>>(), all3);
    let rev = |mut v: Vec<usize>| {
        v.reverse();
        v
    };
    assert_eq!(rev(memchr::memrchr_iter(n1, h).collect()), all1);
    assert_eq!(rev(memchr::memrchr2_iter(n1, n2, h).collect()), all2);
    assert_eq!(rev(memchr::memrchr3_iter(n1, n2, n3, h).collect()), all3);
    // count after consuming from both ends
    let mut it = memchr::memchr_iter(n1, h);
    let a = it.next();
    let b = it.next_back();
    let consumed = a.is_some() as usize + b.is_some() as usize;
    assert_eq!(it.count() + consumed, all1.len());
}

#[test]
fn dispatch_vs_naive() {
    // Phase 1: racing first calls. Nothing in this process has called into
    // the crate yet, so all seven `FN` statics still point at `detect`.
    const THREADS: usize = 8;
    let barrier = Arc::new(Barrier::new(THREADS));
    let handles: Vec<_> = (0..THREADS)
        .map(|t| {
            let barrier = Arc::clone(&barrier);
            std::thread::spawn(move || {
                let mut rng = Rng(0xA5A5_0000 + t as u64);
                let cases: Vec<Case> =
                    (0..500).map(|_| gen_case(&mut rng)).collect();
                barrier.wait();
                for c in &cases {
                    check(c);
                }
                cases.len()
            })
        })
        .collect();
    let mut total = 0usize;
    for h in handles {
        total += h.join().expect("worker thread panicked");
    }

    // Phase 2: steady state through the cached function pointers.
    let mut rng = Rng(0x0123_4567_89AB_CDEF);
    for _ in 0..22000 {
        let c = gen_case(&mut rng);
        check(&c);
        total += 1;
    }
    assert!(total >= 20000);

    // Empty haystacks and every tiny length, explicitly.
    for len in 0..40usize {
        let h = vec![b'q'; len];
        assert_eq!(memchr::memchr(b'z', &h), None);
        assert_eq!(memchr::memrchr(b'z', &h), None);
        assert_eq!(memchr::memchr2(b'z', b'y', &h), None);
        assert_eq!(memchr::memrchr2(b'z', b'y', &h), None);
        assert_eq!(memchr::memchr3(b'z', b'y', b'x', &h), None);
        assert_eq!(memchr::memrchr3(b'z', b'y', b'x', &h), None);
        assert_eq!(memchr::memchr_iter(b'q', &h).count(), len);
        assert_eq!(memchr::memchr(b'q', &h), if len == 0 { None } else { Some(0) });
        assert_eq!(memchr::memrchr(b'q', &h), len.checked_sub(1));
    }
}
