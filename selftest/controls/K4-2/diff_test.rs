// Differential test for the flattening of the haystack-length dispatch in
// `arch::x86_64::avx2::memchr::One::{find_raw, rfind_raw}`.
//
// The edited code decides, from `len = end - start`, between a byte-at-a-time
// loop (len < 16), the SSE2 searcher (16 <= len < 32) and the AVX2 searcher
// (len >= 32). So the interesting shapes are lengths 0..=70 (every length
// around the two thresholds), plus longer haystacks up to 300, searched
// through every public entry point that reaches those two routines:
//
//   * avx2::memchr::One::{find, rfind, find_raw, rfind_raw, iter (both ends)}
//   * memchr::{memchr, memrchr, memchr_iter, memrchr_iter} (runtime dispatch
//     picks the AVX2 `One` when the CPU supports it)
//
// Only the crate's public API and std are used.

use memchr::arch::x86_64::avx2::memchr::One;

/// splitmix64 deterministic generator.
struct Rng(u64);

impl Rng {
    fn next(&mut self) -> u64 {
        self.0 = self.0.wrapping_add(0x9E3779B97F4A7C15);
        let mut z = self.0;
        z = (z ^ (z >> 30)).wrapping_mul(0xBF58476D1CE4E5B9);
        z = (z ^ (z >> 27)).wrapping_mul(0x94D049BB133111EB);
        z ^ (z >> 31)
    }
    fn below(&mut self, n: usize) -> usize {
        (self.next() % (n as u64)) as usize
    }
}

fn gen_len(rng: &mut Rng) -> usize {
    match rng.below(3) {
        0 => rng.below(71),  // dense around 0, 16, 32, 64
        1 => [0, 1, 15, 16, 17, 31, 32, 33, 47, 48, 63, 64, 65][rng.below(13)],
        _ => rng.below(301),
    }
}

/// Returns (backing buffer, offset of haystack in buffer, needle).
fn gen_case(rng: &mut Rng, len: usize) -> (Vec<u8>, usize, u8) {
    let off = rng.below(33);
    let alpha = [1usize, 2, 3, 16, 256][rng.below(5)];
    let needle = (rng.below(alpha.max(2)) as u8).wrapping_add(b'a');
    let mut buf: Vec<u8> = match rng.below(3) {
        // random over a small alphabet
        0 => (0..off + len + 33)
            .map(|_| (rng.below(alpha) as u8).wrapping_add(b'a'))
            .collect(),
        // periodic
        1 => {
            let p = 1 + rng.below(5);
            let unit: Vec<u8> = (0..p)
                .map(|_| (rng.below(alpha) as u8).wrapping_add(b'a'))
                .collect();
            (0..off + len + 33).map(|i| unit[i % p]).collect()
        }
        // no needle at all, then 0..=2 planted ones
        _ => {
            let mut v = vec![needle.wrapping_add(1); off + len + 33];
            if len > 0 {
                for _ in 0..rng.below(3) {
                    v[off + rng.below(len)] = needle;
                }
            }
            v
        }
    };
    // Surround the haystack with needle bytes in half of the cases: a search
    // that (incorrectly) looked outside [start, end) would then report them.
    if rng.below(2) == 0 {
        for b in &mut buf[..off] {
            *b = needle;
        }
        for b in &mut buf[off + len..] {
            *b = needle;
        }
    }
    (buf, off, needle)
}

#[test]
fn avx2_one_vs_naive() {
    if !One::is_available() {
        eprintln!("AVX2 not available, nothing to compare");
        return;
    }
    let mut rng = Rng(0x243F6A8885A308D3);
    let mut cases = 0usize;
    let mut per_class = [0usize; 3];
    for _ in 0..30000 {
        let len = gen_len(&mut rng);
        let (buf, off, needle) = gen_case(&mut rng, len);
        let h = &buf[off..off + len];
        per_class[if len < 16 { 0 } else if len < 32 { 1 } else { 2 }] += 1;

        let exp_first = h.iter().position(|&b| b == needle);
        let exp_last = h.iter().rposition(|&b| b == needle);
        let exp_all: Vec<usize> =
            (0..len).filter(|&i| h[i] == needle).collect();

        let one = One::new(needle).unwrap();
        assert_eq!(one.find(h), exp_first, "find n={} h={:?}", needle, h);
        assert_eq!(one.rfind(h), exp_last, "rfind n={} h={:?}", needle, h);
        assert_eq!(one.count(h), exp_all.len());

        // Raw pointer API, including the returned pointer identity.
        let start = h.as_ptr();
        let end = unsafe { start.add(len) };
        let got = unsafe { one.find_raw(start, end) };
        assert_eq!(got, exp_first.map(|i| unsafe { start.add(i) }));
        let got = unsafe { one.rfind_raw(start, end) };
        assert_eq!(got, exp_last.map(|i| unsafe { start.add(i) }));
        // start >= end must always be None.
        assert_eq!(unsafe { one.find_raw(end, start) }, None);
        assert_eq!(unsafe { one.rfind_raw(end, start) }, None);
        assert_eq!(unsafe { one.find_raw(start, start) }, None);
        assert_eq!(unsafe { one.rfind_raw(end, end) }, None);

        // Iterators call find_raw/rfind_raw on every suffix/prefix left after
        // a match, which sweeps the length through all three classes.
        let fwd: Vec<usize> = one.iter(h).collect();
        assert_eq!(fwd, exp_all);
        let mut bwd: Vec<usize> = one.iter(h).rev().collect();
        bwd.reverse();
        assert_eq!(bwd, exp_all);
        // Alternate both ends.
        let mut it = one.iter(h);
        let (mut front, mut back) = (vec![], vec![]);
        loop {
            match it.next() {
                Some(i) => front.push(i),
                None => break,
            }
            match it.next_back() {
                Some(i) => back.push(i),
                None => break,
            }
        }
        back.reverse();
        front.extend(back);
        assert_eq!(front, exp_all);

        // Top level API (dispatches to the AVX2 `One` on this CPU).
        assert_eq!(memchr::memchr(needle, h), exp_first);
        assert_eq!(memchr::memrchr(needle, h), exp_last);
        assert_eq!(memchr::memchr_iter(needle, h).collect::<Vec<_>>(), exp_all);
        let mut r: Vec<usize> = memchr::memrchr_iter(needle, h).collect();
        r.reverse();
        assert_eq!(r, exp_all);

        cases += 1;
    }
    assert!(cases >= 20000);
    // Every length class got a substantial share of the inputs.
    for (i, &n) in per_class.iter().enumerate() {
        assert!(n >= 3000, "length class {} only had {} inputs", i, n);
    }
}

/// Every (length, match position) pair for lengths 0..=100, exhaustively:
/// a single needle at each position, and no needle at all.
#[test]
fn avx2_one_exhaustive_small() {
    if !One::is_available() {
        return;
    }
    let one = One::new(b'x').unwrap();
    for off in 0..4 {
        for len in 0..=100usize {
            let mut buf = vec![b'x'; off + len + 40];
            for b in &mut buf[off..off + len] {
                *b = b'-';
            }
            {
                let h = &buf[off..off + len];
                assert_eq!(one.find(h), None);
                assert_eq!(one.rfind(h), None);
            }
            for pos in 0..len {
                buf[off + pos] = b'x';
                {
                    let h = &buf[off..off + len];
                    assert_eq!(one.find(h), Some(pos));
                    assert_eq!(one.rfind(h), Some(pos));
                    assert_eq!(memchr::memchr(b'x', h), Some(pos));
                    assert_eq!(memchr::memrchr(b'x', h), Some(pos));
                }
                buf[off + pos] = b'-';
            }
        }
    }
}
