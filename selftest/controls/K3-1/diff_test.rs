// Differential test for the refactoring of the generic "packed pair" search
// loop (src/arch/generic/packedpair.rs: `find` and `find_in_chunk`).
//
// Only the public API of the crate and std are used. The vector finders are
// only exposed publicly on x86_64, so the direct checks are gated on that
// architecture. `memmem` is checked everywhere.

/// A tiny deterministic PRNG (xorshift64*).
struct Rng(u64);

impl Rng {
    fn next(&mut self) -> u64 {
        let mut x = self.0;
        x ^= x >> 12;
        x ^= x << 25;
        x ^= x >> 27;
        self.0 = x;
        x.wrapping_mul(0x2545_F491_4F6C_DD1D)
    }

    fn below(&mut self, n: usize) -> usize {
        assert!(n > 0);
        (self.next() % (n as u64)) as usize
    }

    fn range(&mut self, lo: usize, hi_inclusive: usize) -> usize {
        lo + self.below(hi_inclusive - lo + 1)
    }
}

fn naive_find(haystack: &[u8], needle: &[u8]) -> Option<usize> {
    if needle.is_empty() {
        return Some(0);
    }
    if needle.len() > haystack.len() {
        return None;
    }
    (0..=haystack.len() - needle.len())
        .find(|&i| &haystack[i..i + needle.len()] == needle)
}

fn naive_rfind(haystack: &[u8], needle: &[u8]) -> Option<usize> {
    if needle.is_empty() {
        return Some(haystack.len());
    }
    if needle.len() > haystack.len() {
        return None;
    }
    (0..=haystack.len() - needle.len())
        .rev()
        .find(|&i| &haystack[i..i + needle.len()] == needle)
}

/// Generates a needle of the given length. Several shapes are produced: random
/// over a small alphabet, periodic with a short period, constant, and "almost
/// constant".
fn gen_needle(rng: &mut Rng, len: usize) -> Vec<u8> {
    let alphabets: [&[u8]; 4] = [b"ab", b"abc", b"aZ#\x00", b"abcdefgh\xFF\x80"];
    let alpha = alphabets[rng.below(alphabets.len())];
    match rng.below(4) {
        0 => (0..len).map(|_| alpha[rng.below(alpha.len())]).collect(),
        1 => {
            let period = rng.range(1, 4);
            let unit: Vec<u8> =
                (0..period).map(|_| alpha[rng.below(alpha.len())]).collect();
            (0..len).map(|i| unit[i % period]).collect()
        }
        2 => vec![alpha[0]; len],
        _ => {
            let mut n = vec![alpha[0]; len];
            if len > 0 {
                let at = rng.below(len);
                n[at] = alpha[1];
            }
            n
        }
    }
}

/// Generates a haystack of exactly the given length that is related to the
/// needle: random bytes from the needle's alphabet, with copies and
/// near-copies (one byte changed, or truncated by the end of the haystack) of
/// the needle planted at random positions, often right at the end.
fn gen_haystack(rng: &mut Rng, needle: &[u8], len: usize) -> Vec<u8> {
    let mut alpha: Vec<u8> = needle.to_vec();
    alpha.sort();
    alpha.dedup();
    if alpha.is_empty() || rng.below(4) == 0 {
        alpha.push(b'q');
    }
    let mut h: Vec<u8> = match rng.below(3) {
        0 => (0..len).map(|_| alpha[rng.below(alpha.len())]).collect(),
        1 => vec![alpha[rng.below(alpha.len())]; len],
        _ => {
            // Bias toward one byte so that long runs occur.
            let fav = alpha[rng.below(alpha.len())];
            (0..len)
                .map(|_| {
                    if rng.below(5) != 0 {
                        fav
                    } else {
                        alpha[rng.below(alpha.len())]
                    }
                })
                .collect()
        }
    };
    let plants = rng.below(4);
    for _ in 0..plants {
        if len == 0 || needle.is_empty() {
            break;
        }
        let at = match rng.below(3) {
            // Right at the end (possibly cut off by the end).
            0 => len.saturating_sub(needle.len()) + rng.below(3),
            // Somewhere in the last two vectors.
            1 => len.saturating_sub(rng.below(70)),
            _ => rng.below(len),
        };
        let mut copy = needle.to_vec();
        if rng.below(3) == 0 {
            let k = rng.below(copy.len());
            copy[k] = copy[k].wrapping_add(1);
        }
        for (k, &b) in copy.iter().enumerate() {
            if at + k < len {
                h[at + k] = b;
            }
        }
    }
    h
}

#[cfg(target_arch = "x86_64")]
mod x86 {
    use super::*;
    use memchr::arch::all::packedpair::Pair;
    use memchr::arch::x86_64::{avx2, sse2};

    /// The reference for the prefilter: the first position whose two pair
    /// bytes match, among the positions that the vector loop looks at. The
    /// vector loop looks at positions `0..=len - min_len + (vector_bytes-1)`.
    fn naive_prefilter(
        haystack: &[u8],
        needle: &[u8],
        pair: &Pair,
        min_len: usize,
        vector_bytes: usize,
    ) -> Option<usize> {
        let i1 = usize::from(pair.index1());
        let i2 = usize::from(pair.index2());
        let last = haystack.len() - min_len + (vector_bytes - 1);
        (0..=last).find(|&i| {
            haystack[i + i1] == needle[i1] && haystack[i + i2] == needle[i2]
        })
    }

    fn pick_pair(rng: &mut Rng, needle: &[u8]) -> Pair {
        if rng.below(3) == 0 {
            Pair::new(needle).unwrap()
        } else {
            let cap = needle.len().min(256);
            loop {
                let a = rng.below(cap) as u8;
                let b = rng.below(cap) as u8;
                if let Some(p) = Pair::with_indices(needle, a, b) {
                    return p;
                }
            }
        }
    }

    #[test]
    fn sse2_find_and_prefilter_match_naive() {
        if !sse2::packedpair::Finder::is_available() {
            return;
        }
        let mut rng = Rng(0x9E37_79B9_7F4A_7C15);
        let mut checked = 0u64;
        let mut hits = 0u64;
        while checked < 30_000 {
            let nlen = match rng.below(4) {
                0 => rng.range(2, 5),
                1 => rng.range(2, 20),
                2 => rng.range(14, 40),
                _ => rng.range(2, 300),
            };
            let needle = gen_needle(&mut rng, nlen);
            let pair = pick_pair(&mut rng, &needle);
            let f = sse2::packedpair::Finder::with_pair(&needle, pair).unwrap();
            let max_index =
                usize::from(pair.index1().max(pair.index2()));
            let min_len = f.min_haystack_len();
            assert_eq!(min_len, needle.len().max(max_index + 16));
            if min_len > 300 {
                continue;
            }
            // Lengths right at the minimum, around multiples of the vector
            // size past the minimum, and anywhere up to 300.
            let hlen = match rng.below(4) {
                0 => min_len + rng.below(3),
                1 => min_len + 16 * rng.below(4) + rng.below(3),
                2 => min_len + rng.below(40),
                _ => rng.range(min_len, 300),
            }
            .min(300);
            let haystack = gen_haystack(&mut rng, &needle, hlen);

            let got = f.find(&haystack, &needle);
            let want = naive_find(&haystack, &needle);
            assert_eq!(
                got, want,
                "sse2 find: needle={:?} haystack={:?} pair={:?}",
                needle, haystack, pair
            );
            let got = f.find_prefilter(&haystack);
            let want = naive_prefilter(&haystack, &needle, &pair, min_len, 16);
            assert_eq!(
                got, want,
                "sse2 find_prefilter: needle={:?} haystack={:?} pair={:?}",
                needle, haystack, pair
            );
            if want.is_some() {
                hits += 1;
            }
            checked += 1;
        }
        assert!(hits > 1000, "too few positive cases: {}", hits);
    }

    #[test]
    fn avx2_find_and_prefilter_match_naive() {
        if !avx2::packedpair::Finder::is_available() {
            return;
        }
        let mut rng = Rng(0xD1B5_4A32_D192_ED03);
        let mut checked = 0u64;
        let mut hits = 0u64;
        while checked < 30_000 {
            let nlen = match rng.below(4) {
                0 => rng.range(2, 5),
                1 => rng.range(2, 36),
                2 => rng.range(30, 70),
                _ => rng.range(2, 300),
            };
            let needle = gen_needle(&mut rng, nlen);
            let pair = pick_pair(&mut rng, &needle);
            let f = avx2::packedpair::Finder::with_pair(&needle, pair).unwrap();
            let max_index =
                usize::from(pair.index1().max(pair.index2()));
            // The AVX2 finder falls back to 128-bit vectors for haystacks
            // that are too short for 256-bit vectors.
            let min_len = f.min_haystack_len();
            let min_len_sse2 = needle.len().max(max_index + 16);
            let min_len_avx2 = needle.len().max(max_index + 32);
            assert_eq!(min_len, min_len_sse2);
            if min_len > 300 {
                continue;
            }
            let hlen = match rng.below(5) {
                0 => min_len + rng.below(3),
                1 => min_len_avx2 + rng.below(3),
                2 => min_len_avx2 + 32 * rng.below(4) + rng.below(3),
                3 => min_len + rng.below(70),
                _ => rng.range(min_len, 300),
            }
            .min(300)
            .max(min_len);
            let haystack = gen_haystack(&mut rng, &needle, hlen);

            let got = f.find(&haystack, &needle);
            let want = naive_find(&haystack, &needle);
            assert_eq!(
                got, want,
                "avx2 find: needle={:?} haystack={:?} pair={:?}",
                needle, haystack, pair
            );
            let (ml, vb) = if haystack.len() < min_len_avx2 {
                (min_len_sse2, 16)
            } else {
                (min_len_avx2, 32)
            };
            let got = f.find_prefilter(&haystack);
            let want = naive_prefilter(&haystack, &needle, &pair, ml, vb);
            assert_eq!(
                got, want,
                "avx2 find_prefilter: needle={:?} haystack={:?} pair={:?}",
                needle, haystack, pair
            );
            if want.is_some() {
                hits += 1;
            }
            checked += 1;
        }
        assert!(hits > 1000, "too few positive cases: {}", hits);
    }

    /// Searching a haystack shorter than the advertised minimum must keep
    /// panicking, with the same message.
    #[test]
    fn too_short_haystack_still_panics() {
        if !sse2::packedpair::Finder::is_available() {
            return;
        }
        let needle = b"abcdef";
        let f = sse2::packedpair::Finder::new(needle).unwrap();
        let min_len = f.min_haystack_len();
        let haystack = vec![b'a'; min_len - 1];
        let r = std::panic::catch_unwind(|| f.find(&haystack, needle));
        let err = r.unwrap_err();
        let msg = err
            .downcast_ref::<String>()
            .cloned()
            .or_else(|| err.downcast_ref::<&str>().map(|s| s.to_string()))
            .unwrap();
        assert_eq!(
            msg,
            format!(
                "haystack too small, should be at least {} but got {}",
                min_len,
                min_len - 1
            )
        );
        let r = std::panic::catch_unwind(|| f.find_prefilter(&haystack));
        assert!(r.is_err());
    }
}

/// The top-level substring search dispatches to the packed pair finders on
/// supported targets, so check it against the naive search as well.
#[test]
fn memmem_matches_naive() {
    let mut rng = Rng(0xA076_1D64_78BD_642F);
    let mut hits = 0u64;
    for _ in 0..40_000 {
        let nlen = match rng.below(4) {
            0 => rng.range(0, 4),
            1 => rng.range(2, 20),
            2 => rng.range(14, 70),
            _ => rng.range(0, 300),
        };
        let needle = gen_needle(&mut rng, nlen);
        let hlen = match rng.below(3) {
            0 => rng.range(0, 300),
            1 => (nlen + rng.below(80)).min(300),
            _ => rng.range(0, 70),
        };
        let haystack = gen_haystack(&mut rng, &needle, hlen);
        let want = naive_find(&haystack, &needle);
        assert_eq!(
            memchr::memmem::find(&haystack, &needle),
            want,
            "memmem::find: needle={:?} haystack={:?}",
            needle,
            haystack
        );
        let finder = memchr::memmem::Finder::new(&needle);
        assert_eq!(finder.find(&haystack), want);
        let all: Vec<usize> = finder.find_iter(&haystack).collect();
        assert_eq!(all.first().copied(), want);
        assert_eq!(
            memchr::memmem::rfind(&haystack, &needle),
            naive_rfind(&haystack, &needle)
        );
        if want.is_some() {
            hits += 1;
        }
    }
    assert!(hits > 2000, "too few positive cases: {}", hits);
}
