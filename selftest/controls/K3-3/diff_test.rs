// Differential test for the refactoring of the small comparison helpers in
// src/arch/all/mod.rs (`is_equal_raw`, and `is_suffix`; `is_equal` and
// `is_prefix` are built on top of them and checked as well).
//
// Only the public API of the crate and std are used.

use memchr::arch::all::{is_equal, is_equal_raw, is_prefix, is_suffix};

/// A tiny deterministic PRNG (xorshift64*).
struct Rng(u64);

impl Rng {
    fn next(&mut self) -> u64 {
        let mut x = self.0;
        x ^= x >> 12;
        x ^= x << 25;
        x ^= x >> 27;
        self.0 = x;
        x.wrapping_mul(0x2545_F491_4F6C_DD1D)
    }

    fn below(&mut self, n: usize) -> usize {
        assert!(n > 0);
        (self.next() % (n as u64)) as usize
    }

    fn range(&mut self, lo: usize, hi_inclusive: usize) -> usize {
        lo + self.below(hi_inclusive - lo + 1)
    }
}

fn naive_eq(x: &[u8], y: &[u8]) -> bool {
    if x.len() != y.len() {
        return false;
    }
    for i in 0..x.len() {
        if x[i] != y[i] {
            return false;
        }
    }
    true
}

fn naive_is_prefix(haystack: &[u8], needle: &[u8]) -> bool {
    if needle.len() > haystack.len() {
        return false;
    }
    naive_eq(&haystack[..needle.len()], needle)
}

fn naive_is_suffix(haystack: &[u8], needle: &[u8]) -> bool {
    if needle.len() > haystack.len() {
        return false;
    }
    naive_eq(&haystack[haystack.len() - needle.len()..], needle)
}

fn naive_find(haystack: &[u8], needle: &[u8]) -> Option<usize> {
    if needle.len() > haystack.len() {
        return None;
    }
    (0..=haystack.len() - needle.len())
        .find(|&i| naive_eq(&haystack[i..i + needle.len()], needle))
}

fn naive_rfind(haystack: &[u8], needle: &[u8]) -> Option<usize> {
    if needle.len() > haystack.len() {
        return None;
    }
    (0..=haystack.len() - needle.len())
        .rev()
        .find(|&i| naive_eq(&haystack[i..i + needle.len()], needle))
}

fn gen_bytes(rng: &mut Rng, len: usize) -> Vec<u8> {
    let alphabets: [&[u8]; 4] = [b"ab", b"abc", b"aZ#\x00", b"abcdefgh\xFF\x80"];
    let alpha = alphabets[rng.below(alphabets.len())];
    match rng.below(4) {
        0 => (0..len).map(|_| alpha[rng.below(alpha.len())]).collect(),
        1 => {
            let period = rng.range(1, 5);
            let unit: Vec<u8> =
                (0..period).map(|_| alpha[rng.below(alpha.len())]).collect();
            (0..len).map(|i| unit[i % period]).collect()
        }
        2 => vec![alpha[0]; len],
        _ => (0..len).map(|_| rng.below(256) as u8).collect(),
    }
}

/// Returns a copy of `x` with between 0 and 2 bytes changed. Mismatches are
/// frequently placed in the last few bytes, which is where the 4/2/1 byte
/// tail handling of `is_equal_raw` kicks in.
fn perturb(rng: &mut Rng, x: &[u8]) -> Vec<u8> {
    let mut y = x.to_vec();
    if y.is_empty() {
        return y;
    }
    let changes = match rng.below(4) {
        0 => 0,
        3 => 2,
        _ => 1,
    };
    for _ in 0..changes {
        let at = match rng.below(3) {
            0 => y.len() - 1 - rng.below(y.len().min(8)),
            1 => rng.below(y.len().min(8)),
            _ => rng.below(y.len()),
        };
        // Change either a low bit, a high bit or the whole byte.
        y[at] = match rng.below(3) {
            0 => y[at] ^ 0x01,
            1 => y[at] ^ 0x80,
            _ => y[at].wrapping_add(1 + rng.below(255) as u8),
        };
    }
    y
}

#[test]
fn is_equal_and_raw_match_naive() {
    let mut rng = Rng(0xC0FF_EE11_D00D_F00D);
    let mut equal = 0u64;
    let mut unequal = 0u64;
    for _ in 0..40_000 {
        let n = match rng.below(3) {
            0 => rng.range(0, 17),
            1 => rng.range(0, 70),
            _ => rng.range(0, 300),
        };
        let x = gen_bytes(&mut rng, n);
        let y = perturb(&mut rng, &x);
        let want = naive_eq(&x, &y);
        assert_eq!(is_equal(&x, &y), want, "is_equal: x={:?} y={:?}", x, y);
        assert_eq!(is_equal(&y, &x), want, "is_equal: x={:?} y={:?}", y, x);
        assert!(is_equal(&x, &x));

        // Different lengths are never equal.
        if n > 0 {
            let cut = rng.below(n);
            assert!(!is_equal(&x[..cut], &x));
            assert!(!is_equal(&x, &x[..cut]));
        }

        // Raw variant at arbitrary (mis)alignments: embed both sides in
        // bigger buffers at random offsets, surrounded by bytes that differ
        // between the two buffers, so that any read outside of the `n` bytes
        // that influenced the answer would be noticed.
        let (px, py) = (rng.below(9), rng.below(9));
        let (sx, sy) = (rng.below(9), rng.below(9));
        let mut bx = vec![0xAAu8; px];
        bx.extend_from_slice(&x);
        bx.extend(std::iter::repeat(0xAAu8).take(sx));
        let mut by = vec![0x55u8; py];
        by.extend_from_slice(&y);
        by.extend(std::iter::repeat(0x55u8).take(sy));
        // SAFETY: both pointers are valid for reads of `n` bytes.
        let got = unsafe {
            is_equal_raw(bx.as_ptr().add(px), by.as_ptr().add(py), n)
        };
        assert_eq!(got, want, "is_equal_raw: x={:?} y={:?}", x, y);

        // Raw comparison of every sub-range length anchored at a random
        // start, against slice equality.
        if n > 0 {
            let start = rng.below(n);
            let len = rng.range(0, n - start);
            let want = x[start..start + len] == y[start..start + len];
            // SAFETY: start + len <= n.
            let got = unsafe {
                is_equal_raw(
                    x.as_ptr().add(start),
                    y.as_ptr().add(start),
                    len,
                )
            };
            assert_eq!(got, want);
        }

        if want {
            equal += 1;
        } else {
            unequal += 1;
        }
    }
    assert!(equal > 5000 && unequal > 5000, "{} {}", equal, unequal);
}

/// Exhaustive check of `is_equal_raw` for every length 0..=40 and every
/// single mismatch position, at every pair of buffer offsets 0..4.
#[test]
fn is_equal_raw_exhaustive_small() {
    for n in 0..=40usize {
        for ox in 0..4usize {
            for oy in 0..4usize {
                let mut bx = vec![0xAAu8; ox];
                bx.extend((0..n).map(|i| (i as u8).wrapping_mul(7)));
                bx.push(0xAA);
                let mut by = vec![0x55u8; oy];
                by.extend((0..n).map(|i| (i as u8).wrapping_mul(7)));
                by.push(0x55);
                // SAFETY: both pointers are valid for reads of `n` bytes.
                unsafe {
                    assert!(is_equal_raw(
                        bx.as_ptr().add(ox),
                        by.as_ptr().add(oy),
                        n
                    ));
                }
                for bad in 0..n {
                    by[oy + bad] ^= 0x10;
                    // SAFETY: as above.
                    unsafe {
                        assert!(
                            !is_equal_raw(
                                bx.as_ptr().add(ox),
                                by.as_ptr().add(oy),
                                n
                            ),
                            "n={} bad={}",
                            n,
                            bad
                        );
                        // A shorter comparison that stops before the bad
                        // byte must still succeed, one that includes it must
                        // fail.
                        assert!(is_equal_raw(
                            bx.as_ptr().add(ox),
                            by.as_ptr().add(oy),
                            bad
                        ));
                        assert!(!is_equal_raw(
                            bx.as_ptr().add(ox),
                            by.as_ptr().add(oy),
                            bad + 1
                        ));
                    }
                    by[oy + bad] ^= 0x10;
                }
            }
        }
    }
}

#[test]
fn is_prefix_and_is_suffix_match_naive() {
    let mut rng = Rng(0xBADC_0FFE_E0DD_F00D);
    let (mut p_yes, mut s_yes, mut longer) = (0u64, 0u64, 0u64);
    for _ in 0..40_000 {
        let hlen = match rng.below(3) {
            0 => rng.range(0, 10),
            1 => rng.range(0, 70),
            _ => rng.range(0, 300),
        };
        let haystack = gen_bytes(&mut rng, hlen);
        // The needle is a (possibly perturbed) prefix or suffix of the
        // haystack, the whole haystack, something longer than the haystack,
        // or unrelated.
        let needle: Vec<u8> = match rng.below(6) {
            0 => {
                let n = rng.range(0, hlen);
                perturb(&mut rng, &haystack[..n])
            }
            1 => {
                let n = rng.range(0, hlen);
                perturb(&mut rng, &haystack[hlen - n..])
            }
            2 => haystack.clone(),
            3 => {
                let mut n = haystack.clone();
                let extra = rng.range(1, 5);
                if rng.below(2) == 0 {
                    n.extend(gen_bytes(&mut rng, extra));
                } else {
                    let mut m = gen_bytes(&mut rng, extra);
                    m.extend_from_slice(&n);
                    n = m;
                }
                n
            }
            4 => vec![],
            _ => {
                let n = rng.range(0, 300);
                gen_bytes(&mut rng, n)
            }
        };
        let want_p = naive_is_prefix(&haystack, &needle);
        let want_s = naive_is_suffix(&haystack, &needle);
        assert_eq!(
            is_prefix(&haystack, &needle),
            want_p,
            "is_prefix: haystack={:?} needle={:?}",
            haystack,
            needle
        );
        assert_eq!(
            is_suffix(&haystack, &needle),
            want_s,
            "is_suffix: haystack={:?} needle={:?}",
            haystack,
            needle
        );
        p_yes += want_p as u64;
        s_yes += want_s as u64;
        longer += (needle.len() > haystack.len()) as u64;
    }
    assert!(p_yes > 4000 && s_yes > 4000 && longer > 4000);
}

/// These helpers confirm candidates in the substring searchers, so also
/// compare complete forward and reverse searches with naive ones.
#[test]
fn memmem_matches_naive() {
    use memchr::memmem::{FinderBuilder, Prefilter};

    let mut rng = Rng(0x5151_A2A2_B3B3_C4C4);
    let mut hits = 0u64;
    for _ in 0..30_000 {
        let hlen = match rng.below(3) {
            0 => rng.range(0, 20),
            1 => rng.range(0, 70),
            _ => rng.range(0, 300),
        };
        let haystack = gen_bytes(&mut rng, hlen);
        let needle: Vec<u8> = match rng.below(4) {
            0 if hlen > 0 => {
                let start = rng.below(hlen);
                let len = rng.range(0, hlen - start);
                perturb(&mut rng, &haystack[start..start + len])
            }
            1 if hlen > 0 => {
                let start = rng.below(hlen);
                let len = rng.range(0, (hlen - start).min(12));
                haystack[start..start + len].to_vec()
            }
            _ => {
                let n = rng.range(0, 12);
                gen_bytes(&mut rng, n)
            }
        };
        let want_f = naive_find(&haystack, &needle);
        let want_r = naive_rfind(&haystack, &needle);
        assert_eq!(
            memchr::memmem::find(&haystack, &needle),
            want_f,
            "find: haystack={:?} needle={:?}",
            haystack,
            needle
        );
        assert_eq!(
            memchr::memmem::rfind(&haystack, &needle),
            want_r,
            "rfind: haystack={:?} needle={:?}",
            haystack,
            needle
        );
        let f = FinderBuilder::new()
            .prefilter(Prefilter::None)
            .build_forward(&needle);
        assert_eq!(f.find(&haystack), want_f);
        let r = FinderBuilder::new().build_reverse(&needle);
        assert_eq!(r.rfind(&haystack), want_r);
        hits += want_f.is_some() as u64;
    }
    assert!(hits > 5000, "too few positive cases: {}", hits);
}
