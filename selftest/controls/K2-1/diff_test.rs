// Differential test for the refactoring of the forward Two-Way search loops
// (`twoway::Finder::find_small_imp` / `find_large_imp`).
//
// Uses only the public API of the crate and std. Every routine is compared
// against a naive quadratic reference implementation.

use memchr::arch::all::twoway;
use memchr::memmem;

/// A tiny deterministic xorshift64* generator.
struct Rng(u64);

impl Rng {
    fn next(&mut self) -> u64 {
        let mut x = self.0;
        x ^= x >> 12;
        x ^= x << 25;
        x ^= x >> 27;
        self.0 = x;
        x.wrapping_mul(0x2545_F491_4F6C_DD1D)
    }
    fn below(&mut self, n: usize) -> usize {
        (self.next() % (n as u64)) as usize
    }
    fn byte(&mut self, alphabet: usize) -> u8 {
        if alphabet >= 256 {
            self.next() as u8
        } else {
            b'a' + self.below(alphabet) as u8
        }
    }
}

fn naive_find(h: &[u8], n: &[u8]) -> Option<usize> {
    if n.len() > h.len() {
        return None;
    }
    (0..=h.len() - n.len()).find(|&i| &h[i..i + n.len()] == n)
}

fn naive_find_all(h: &[u8], n: &[u8]) -> Vec<usize> {
    // Non-overlapping matches, as reported by memmem::find_iter.
    let mut out = vec![];
    let mut pos = 0;
    while pos <= h.len() {
        match naive_find(&h[pos..], n) {
            None => break,
            Some(i) => {
                out.push(pos + i);
                pos += i + std::cmp::max(1, n.len());
            }
        }
    }
    out
}

fn random_bytes(rng: &mut Rng, len: usize, alphabet: usize) -> Vec<u8> {
    (0..len).map(|_| rng.byte(alphabet)).collect()
}

fn periodic_bytes(
    rng: &mut Rng,
    len: usize,
    alphabet: usize,
    max_period: usize,
) -> Vec<u8> {
    let p = 1 + rng.below(max_period);
    let unit = random_bytes(rng, p, alphabet);
    (0..len).map(|i| unit[i % p]).collect()
}

/// Picks a length in 0..=300, biased towards small values and towards values
/// near typical vector sizes.
fn pick_len(rng: &mut Rng, max: usize) -> usize {
    let l = match rng.below(6) {
        0 => rng.below(5),
        1 => rng.below(20),
        2 => {
            let around = [15usize, 16, 17, 31, 32, 33, 63, 64, 65, 128];
            around[rng.below(around.len())] + rng.below(3) - 1
        }
        3 => rng.below(70),
        _ => rng.below(301),
    };
    std::cmp::min(l, max)
}

/// Generates a (haystack, needle) pair of one of several shapes.
fn gen_case(rng: &mut Rng) -> (Vec<u8>, Vec<u8>) {
    let alphabet = match rng.below(6) {
        0 => 1,
        1 | 2 => 2,
        3 => 3,
        4 => 4,
        _ => 256,
    };
    let nlen = pick_len(rng, 300);
    let mut needle = match rng.below(4) {
        0 => random_bytes(rng, nlen, alphabet),
        1 => periodic_bytes(rng, nlen, alphabet, 8),
        2 => periodic_bytes(rng, nlen, alphabet, 40),
        _ => {
            // periodic, with a single perturbation somewhere
            let mut n = periodic_bytes(rng, nlen, alphabet, 12);
            if !n.is_empty() {
                let at = rng.below(n.len());
                n[at] = rng.byte(alphabet.max(2));
            }
            n
        }
    };
    let hlen = pick_len(rng, 300);
    let mut haystack = match rng.below(5) {
        0 => random_bytes(rng, hlen, alphabet),
        1 => periodic_bytes(rng, hlen, alphabet, 8),
        2 => {
            // repeat the needle's own bytes so partial matches abound
            if needle.is_empty() {
                random_bytes(rng, hlen, alphabet)
            } else {
                let off = rng.below(needle.len());
                (0..hlen).map(|i| needle[(i + off) % needle.len()]).collect()
            }
        }
        3 => {
            // near-misses of the needle, concatenated
            let mut h = vec![];
            while h.len() < hlen {
                let mut n = needle.clone();
                if !n.is_empty() && rng.below(4) != 0 {
                    let at = rng.below(n.len());
                    n[at] = rng.byte(alphabet.max(2));
                }
                if n.is_empty() {
                    n.push(rng.byte(alphabet));
                }
                h.extend_from_slice(&n);
            }
            h.truncate(hlen);
            h
        }
        _ => {
            // random haystack with the needle planted somewhere (if it fits)
            let mut h = random_bytes(rng, hlen, alphabet);
            if needle.len() <= h.len() {
                let at = rng.below(h.len() - needle.len() + 1);
                h[at..at + needle.len()].copy_from_slice(&needle);
            }
            h
        }
    };
    // Occasionally take the needle from the haystack itself.
    if rng.below(8) == 0 && !haystack.is_empty() {
        let a = rng.below(haystack.len());
        let b = a + rng.below(haystack.len() - a + 1);
        needle = haystack[a..b].to_vec();
    }
    // Occasionally make the haystack a strict prefix of the needle.
    if rng.below(40) == 0 && !needle.is_empty() {
        haystack = needle[..needle.len() - 1].to_vec();
    }
    (haystack, needle)
}

const CASES: usize = 40_000;

#[test]
fn diff_twoway_forward_direct() {
    let mut rng = Rng(0x9E37_79B9_7F4A_7C15);
    for case in 0..CASES {
        let (h, n) = gen_case(&mut rng);
        let expected = naive_find(&h, &n);
        let got = twoway::Finder::new(&n).find(&h, &n);
        assert_eq!(
            expected, got,
            "case {}: twoway::Finder::find haystack={:?} needle={:?}",
            case, h, n
        );
    }
}

#[test]
fn diff_twoway_forward_via_memmem() {
    // Goes through the meta searcher. With long needles (> 32 bytes) and
    // haystacks of at least 16 bytes this reaches Two-Way with a prefilter
    // (the `pre` branches of the loops that were touched); with the prefilter
    // disabled it reaches plain Two-Way.
    let mut rng = Rng(0xD1B5_4A32_D192_ED03);
    for case in 0..CASES {
        let (h, n) = gen_case(&mut rng);
        let expected = naive_find(&h, &n);

        let auto = memmem::FinderBuilder::new()
            .prefilter(memmem::Prefilter::Auto)
            .build_forward(&n);
        let none = memmem::FinderBuilder::new()
            .prefilter(memmem::Prefilter::None)
            .build_forward(&n);
        assert_eq!(expected, auto.find(&h), "case {} auto {:?} {:?}", case, h, n);
        assert_eq!(expected, none.find(&h), "case {} none {:?} {:?}", case, h, n);
        assert_eq!(expected, memmem::find(&h, &n), "case {} find", case);

        // Iteration re-uses prefilter state across calls, which is how the
        // prefilter can become inert in the middle of a search.
        let all = naive_find_all(&h, &n);
        let got: Vec<usize> = auto.find_iter(&h).collect();
        assert_eq!(all, got, "case {} find_iter auto {:?} {:?}", case, h, n);
        let got: Vec<usize> = none.find_iter(&h).collect();
        assert_eq!(all, got, "case {} find_iter none {:?} {:?}", case, h, n);
    }
}

#[test]
fn diff_twoway_forward_long_haystacks() {
    // A smaller number of longer haystacks, so that the prefilter heuristics
    // (at least 50 skips) have a chance to kick in and turn the prefilter off.
    let mut rng = Rng(0x1234_5678_9ABC_DEF1);
    for case in 0..1_500 {
        let alphabet = 1 + rng.below(3);
        let nlen = 33 + rng.below(100);
        let mut n = periodic_bytes(&mut rng, nlen, alphabet, 10);
        if rng.below(2) == 0 {
            let at = rng.below(n.len());
            n[at] = b'z';
        }
        let hlen = 2_000 + rng.below(3_000);
        let mut h: Vec<u8> = (0..hlen).map(|i| n[i % n.len()]).collect();
        for _ in 0..rng.below(60) {
            let at = rng.below(h.len());
            h[at] = rng.byte(alphabet + 1);
        }
        let all = naive_find_all(&h, &n);
        let f = memmem::Finder::new(&n);
        let got: Vec<usize> = f.find_iter(&h).collect();
        assert_eq!(all, got, "case {} long find_iter", case);
        assert_eq!(all.first().copied(), f.find(&h), "case {} long find", case);
        assert_eq!(
            all.first().copied(),
            twoway::Finder::new(&n).find(&h, &n),
            "case {} long twoway",
            case
        );
    }
}
