// Differential test for the refactoring of the SWAR fallback searcher
// `memchr::arch::all::memchr::One` (`find_raw`, `rfind_raw`, `count_raw`) in
// src/arch/all/memchr.rs.
//
// Uses only the public API of the crate and std. Every result is compared
// against a naive byte-at-a-time reference implementation.

use memchr::arch::all::memchr as swar;

/// xorshift64* -- simple deterministic PRNG.
struct Rng(u64);

impl Rng {
    fn next(&mut self) -> u64 {
        let mut x = self.0;
        x ^= x >> 12;
        x ^= x << 25;
        x ^= x >> 27;
        self.0 = x;
        x.wrapping_mul(0x2545_F491_4F6C_DD1D)
    }

    fn below(&mut self, n: usize) -> usize {
        (self.next() % (n as u64)) as usize
    }
}

const ALPHABETS: &[&[u8]] = &[
    b"a",
    b"ab",
    b"abc",
    b"abcd",
    b"\x00\xff",
    b"\x00\x01\x7f\x80\xfe\xff",
    b"abcdefghijklmnop",
];

/// Interesting lengths: around the word size (8), the loop size (16), plus
/// alignment slack, and a few larger ones.
fn gen_len(rng: &mut Rng) -> usize {
    const PIVOTS: &[usize] =
        &[0, 4, 8, 12, 16, 20, 24, 28, 32, 40, 48, 64, 128];
    match rng.below(4) {
        0 => rng.below(301),
        1 => rng.below(40),
        2 => {
            let p = PIVOTS[rng.below(PIVOTS.len())];
            let d = rng.below(9);
            (p + d).saturating_sub(4)
        }
        _ => rng.below(140),
    }
}

struct Case {
    /// Backing buffer. The haystack is `buf[off..off + len]`.
    buf: Vec<u8>,
    off: usize,
    len: usize,
    needles: [u8; 3],
}

impl Case {
    fn haystack(&self) -> &[u8] {
        &self.buf[self.off..self.off + self.len]
    }
}

fn gen_case(rng: &mut Rng) -> Case {
    let len = gen_len(rng);
    // Vary the alignment of the haystack start (and hence of its end).
    let off = rng.below(70);
    let tail = rng.below(3);
    let mut buf = vec![0u8; off + len + tail];
    let full;
    let alpha: &[u8] = if rng.below(8) == 0 {
        full = (0..=255u8).collect::<Vec<u8>>();
        &full
    } else {
        ALPHABETS[rng.below(ALPHABETS.len())]
    };
    match rng.below(4) {
        // Uniformly random over a (small) alphabet.
        0 => {
            for b in buf.iter_mut() {
                *b = alpha[rng.below(alpha.len())];
            }
        }
        // Periodic haystack.
        1 => {
            let period = 1 + rng.below(9);
            let pat: Vec<u8> =
                (0..period).map(|_| alpha[rng.below(alpha.len())]).collect();
            for (i, b) in buf.iter_mut().enumerate() {
                *b = pat[i % period];
            }
        }
        // Filler with a few planted bytes.
        2 => {
            let filler = alpha[rng.below(alpha.len())];
            for b in buf.iter_mut() {
                *b = filler;
            }
            if !buf.is_empty() {
                for _ in 0..rng.below(4) {
                    let at = rng.below(buf.len());
                    buf[at] = alpha[rng.below(alpha.len())] ^ 0x20;
                }
            }
        }
        // Filler with exactly one planted byte near a boundary.
        _ => {
            let filler = alpha[rng.below(alpha.len())];
            for b in buf.iter_mut() {
                *b = filler;
            }
            if len > 0 {
                let at = match rng.below(3) {
                    0 => rng.below(len.min(34)),
                    1 => len - 1 - rng.below(len.min(34)),
                    _ => rng.below(len),
                };
                buf[off + at] = b'#';
            }
        }
    }
    let mut needles = [0u8; 3];
    for n in needles.iter_mut() {
        *n = match rng.below(6) {
            0 => b'#',
            1 => rng.next() as u8,
            2 if len > 0 => buf[off + rng.below(len)],
            3 if len > 0 => buf[off + rng.below(len)] ^ 0x20,
            _ => alpha[rng.below(alpha.len())],
        };
    }
    Case { buf, off, len, needles }
}

fn naive_find(h: &[u8], ns: &[u8]) -> Option<usize> {
    h.iter().position(|b| ns.contains(b))
}

fn naive_rfind(h: &[u8], ns: &[u8]) -> Option<usize> {
    h.iter().rposition(|b| ns.contains(b))
}

fn naive_all(h: &[u8], ns: &[u8]) -> Vec<usize> {
    (0..h.len()).filter(|&i| ns.contains(&h[i])).collect()
}

/// Pull items from both ends in a pseudo random order and compare with the
/// expected sequence.
fn check_mixed<I: DoubleEndedIterator<Item = usize>>(
    rng: &mut Rng,
    mut it: I,
    expected: &[usize],
    what: &str,
) {
    let (mut lo, mut hi) = (0, expected.len());
    loop {
        let (_, upper) = it.size_hint();
        assert!(upper.unwrap() >= hi - lo, "{}: size_hint", what);
        if rng.below(2) == 0 {
            let got = it.next();
            if lo < hi {
                assert_eq!(got, Some(expected[lo]), "{}: next", what);
                lo += 1;
            } else {
                assert_eq!(got, None, "{}: next at end", what);
                break;
            }
        } else {
            let got = it.next_back();
            if lo < hi {
                assert_eq!(got, Some(expected[hi - 1]), "{}: next_back", what);
                hi -= 1;
            } else {
                assert_eq!(got, None, "{}: next_back at end", what);
                break;
            }
        }
    }
    assert_eq!(it.next(), None, "{}: fused", what);
    assert_eq!(it.next_back(), None, "{}: fused back", what);
}

fn rev(v: &[usize]) -> Vec<usize> {
    v.iter().rev().copied().collect()
}

fn check_case(rng: &mut Rng, c: &Case) {
    let h = c.haystack();
    let [n1, n2, n3] = c.needles;
    let ns1 = [n1];
    let ns2 = [n1, n2];
    let ns3 = [n1, n2, n3];
    let all1 = naive_all(h, &ns1);
    let all2 = naive_all(h, &ns2);
    let all3 = naive_all(h, &ns3);

    // ---- SWAR One: slice API --------------------------------------------
    let s = swar::One::new(n1);
    assert_eq!(s.find(h), naive_find(h, &ns1), "one find");
    assert_eq!(s.rfind(h), naive_rfind(h, &ns1), "one rfind");
    assert_eq!(s.count(h), all1.len(), "one count");
    assert_eq!(s.iter(h).collect::<Vec<_>>(), all1, "one iter");
    assert_eq!(s.iter(h).rev().collect::<Vec<_>>(), rev(&all1), "one riter");
    assert_eq!(s.iter(h).count(), all1.len(), "one iter count");
    check_mixed(rng, s.iter(h), &all1, "one mixed");
    {
        let mut it = s.iter(h);
        let mut left = all1.len();
        if rng.below(2) == 0 && it.next().is_some() {
            left -= 1;
        }
        if rng.below(2) == 0 && it.next_back().is_some() {
            left -= 1;
        }
        assert_eq!(it.count(), left, "one count after partial consumption");
    }

    // ---- SWAR One: raw pointer API --------------------------------------
    unsafe {
        let start = h.as_ptr();
        let end = start.add(h.len());
        let off =
            |p: Option<*const u8>| p.map(|p| p as usize - start as usize);
        assert_eq!(off(s.find_raw(start, end)), naive_find(h, &ns1));
        assert_eq!(off(s.rfind_raw(start, end)), naive_rfind(h, &ns1));
        assert_eq!(s.count_raw(start, end), all1.len());
        // Empty and inverted ranges.
        assert_eq!(s.find_raw(start, start), None);
        assert_eq!(s.find_raw(end, end), None);
        assert_eq!(s.find_raw(end, start), None);
        assert_eq!(s.rfind_raw(start, start), None);
        assert_eq!(s.rfind_raw(end, end), None);
        assert_eq!(s.rfind_raw(end, start), None);
        assert_eq!(s.count_raw(start, start), 0);
        assert_eq!(s.count_raw(end, end), 0);
        assert_eq!(s.count_raw(end, start), 0);
        // Random sub-range (and its inversion).
        if !h.is_empty() {
            let a = rng.below(h.len());
            let b = a + rng.below(h.len() - a + 1);
            let (pa, pb) = (start.add(a), start.add(b));
            let sub = &h[a..b];
            assert_eq!(
                off(s.find_raw(pa, pb)),
                naive_find(sub, &ns1).map(|i| i + a),
                "one find_raw {}..{}",
                a,
                b
            );
            assert_eq!(
                off(s.rfind_raw(pa, pb)),
                naive_rfind(sub, &ns1).map(|i| i + a),
                "one rfind_raw {}..{}",
                a,
                b
            );
            assert_eq!(
                s.count_raw(pa, pb),
                naive_all(sub, &ns1).len(),
                "one count_raw {}..{}",
                a,
                b
            );
            assert_eq!(s.find_raw(pb, pa), None);
            assert_eq!(s.rfind_raw(pb, pa), None);
            assert_eq!(s.count_raw(pb, pa), 0);
        }
    }

    // ---- SWAR Two / Three (same module, shared helpers) -----------------
    let s2 = swar::Two::new(n1, n2);
    assert_eq!(s2.find(h), naive_find(h, &ns2), "two find");
    assert_eq!(s2.rfind(h), naive_rfind(h, &ns2), "two rfind");
    assert_eq!(s2.iter(h).collect::<Vec<_>>(), all2, "two iter");
    let s3 = swar::Three::new(n1, n2, n3);
    assert_eq!(s3.find(h), naive_find(h, &ns3), "three find");
    assert_eq!(s3.rfind(h), naive_rfind(h, &ns3), "three rfind");
    assert_eq!(s3.iter(h).collect::<Vec<_>>(), all3, "three iter");

    // ---- top level API must agree too ------------------------------------
    assert_eq!(memchr::memchr(n1, h), s.find(h));
    assert_eq!(memchr::memrchr(n1, h), s.rfind(h));
    assert_eq!(memchr::memchr_iter(n1, h).count(), s.count(h));
}

#[test]
fn differential_swar_one() {
    let mut rng = Rng(0xA076_1D64_78BD_642F);
    let mut total = 0usize;
    let mut hits = 0usize;
    for _ in 0..40_000 {
        let c = gen_case(&mut rng);
        if naive_find(c.haystack(), &[c.needles[0]]).is_some() {
            hits += 1;
        }
        check_case(&mut rng, &c);
        total += 1;
    }
    // Exhaustive sweep: every length 0..=100, every alignment 0..=8 relative
    // to the allocation, a single match at every position (and none at all).
    // The filler/needle pairs include bytes that differ only in the high or
    // low bit, which is where a broken zero-byte test would give false
    // results.
    let pairs: &[(u8, u8)] =
        &[(b'.', b'x'), (0x00, 0x80), (0x80, 0x00), (0x01, 0x00), (0xff, 0x7f)];
    for &(filler, needle) in pairs {
        let s = swar::One::new(needle);
        for len in 0..=100usize {
            for off in 0..=8usize {
                let mut buf = vec![filler; off + len + 1];
                for pos in 0..=len {
                    if pos < len {
                        buf[off + pos] = needle;
                    }
                    let h = &buf[off..off + len];
                    let want = if pos < len { Some(pos) } else { None };
                    assert_eq!(s.find(h), want, "len={} off={}", len, off);
                    assert_eq!(s.rfind(h), want, "len={} off={}", len, off);
                    assert_eq!(s.count(h), want.iter().count());
                    if pos < len {
                        buf[off + pos] = filler;
                    }
                    total += 1;
                }
            }
        }
    }
    assert!(total >= 20_000);
    assert!(hits > 5_000, "generator too sparse: {}", hits);
    eprintln!("checked {} inputs ({} random with a hit)", total, hits);
}
