// Differential test for the src/memmem/mod.rs refactoring (change 3):
// `FindIter::next`, `FindRevIter::next`, `Finder::into_owned` and
// `FinderRev::into_owned`.
//
// Uses only the public API and std. Forward and reverse iteration (borrowed,
// `as_ref`'d, cloned mid-way and owned variants) is compared step by step
// against naive reference iterators, including what happens when `next` is
// called again after exhaustion and what `size_hint` reports in between.

use memchr::memmem::{self, FindIter, FindRevIter, Finder, FinderRev};

struct Rng(u64);

impl Rng {
    fn next(&mut self) -> u64 {
        // xorshift64*
        let mut x = self.0;
        x ^= x >> 12;
        x ^= x << 25;
        x ^= x >> 27;
        self.0 = x;
        x.wrapping_mul(0x2545F4914F6CDD1D)
    }
    fn below(&mut self, n: usize) -> usize {
        (self.next() % (n as u64)) as usize
    }
    fn range(&mut self, lo: usize, hi: usize) -> usize {
        lo + self.below(hi - lo + 1)
    }
}

fn naive_find(h: &[u8], n: &[u8]) -> Option<usize> {
    if n.len() > h.len() {
        return None;
    }
    (0..=h.len() - n.len()).find(|&i| &h[i..i + n.len()] == n)
}

fn naive_rfind(h: &[u8], n: &[u8]) -> Option<usize> {
    if n.len() > h.len() {
        return None;
    }
    (0..=h.len() - n.len()).rev().find(|&i| &h[i..i + n.len()] == n)
}

/// Leftmost non-overlapping matches; an empty needle matches at every
/// position, including `h.len()`.
fn naive_find_iter(h: &[u8], n: &[u8]) -> Vec<usize> {
    let mut out = vec![];
    let mut pos = 0;
    while pos <= h.len() {
        match naive_find(&h[pos..], n) {
            None => break,
            Some(i) => {
                out.push(pos + i);
                pos = pos + i + std::cmp::max(1, n.len());
            }
        }
    }
    out
}

/// Rightmost non-overlapping matches, reported from the end: each match must
/// end at or before the start of the previously reported one; an empty needle
/// matches at every position from `h.len()` down to `0`.
fn naive_rfind_iter(h: &[u8], n: &[u8]) -> Vec<usize> {
    let mut out = vec![];
    let mut end = h.len();
    loop {
        match naive_rfind(&h[..end], n) {
            None => break,
            Some(i) => {
                out.push(i);
                if n.is_empty() {
                    if i == 0 {
                        break;
                    }
                    end = i - 1;
                } else {
                    end = i;
                }
            }
        }
    }
    out
}

const ALPHABETS: &[&[u8]] = &[
    b"a",
    b"ab",
    b"abc",
    b"abcd",
    b"\x00\xff",
    b"etaoinshr ",
    b"abcdefghijklmnopqrstuvwxyz",
];

fn random_bytes(rng: &mut Rng, alpha: &[u8], len: usize) -> Vec<u8> {
    (0..len).map(|_| alpha[rng.below(alpha.len())]).collect()
}

fn periodic(rng: &mut Rng, alpha: &[u8], len: usize) -> Vec<u8> {
    let p = rng.range(1, 6);
    let unit = random_bytes(rng, alpha, p);
    (0..len).map(|i| unit[i % p]).collect()
}

fn gen(rng: &mut Rng) -> (Vec<u8>, Vec<u8>) {
    let full: Vec<u8> = (0..=255).collect();
    let alpha: &[u8] = if rng.below(8) == 0 {
        &full
    } else {
        ALPHABETS[rng.below(ALPHABETS.len())]
    };
    let hlen = match rng.below(6) {
        0 => rng.range(0, 8),
        1 => rng.range(56, 72),
        _ => rng.range(0, 300),
    };
    // Short needles dominate so that iterators yield many matches, but long
    // ones (including longer than the haystack) are present too.
    let nlen = match rng.below(10) {
        0 => 0,
        1 => 1,
        2 | 3 | 4 => rng.range(2, 6),
        5 | 6 => rng.range(2, 32),
        7 => rng.range(33, 80),
        _ => rng.range(0, 300),
    };
    let hay = if rng.below(2) == 0 {
        periodic(rng, alpha, hlen)
    } else {
        random_bytes(rng, alpha, hlen)
    };
    let needle = match rng.below(5) {
        0 | 1 | 2 if hlen >= nlen => {
            let at = rng.below(hlen - nlen + 1);
            hay[at..at + nlen].to_vec()
        }
        3 => periodic(rng, alpha, nlen),
        _ => random_bytes(rng, alpha, nlen),
    };
    (hay, needle)
}

/// Checks the size hint against the number of items that are really left.
fn check_hint(hint: (usize, Option<usize>), left: usize, nlen: usize) {
    assert!(hint.0 <= left, "lower {:?} left {}", hint, left);
    let upper = hint.1.expect("upper bound is always known");
    assert!(upper >= left, "upper {:?} left {}", hint, left);
    if nlen == 0 {
        // Exact for the empty needle.
        assert_eq!((left, Some(left)), hint);
    }
}

/// Drives a forward iterator to exhaustion (and beyond), comparing every step
/// with `want`.
fn drive_fwd(mut it: FindIter<'_, '_>, want: &[usize], nlen: usize) {
    for (k, &w) in want.iter().enumerate() {
        check_hint(it.size_hint(), want.len() - k, nlen);
        assert_eq!(Some(w), it.next(), "step {} of {:?}", k, want);
    }
    for _ in 0..3 {
        check_hint(it.size_hint(), 0, nlen);
        assert_eq!(None, it.next(), "after the end of {:?}", want);
    }
}

/// Same for a reverse iterator.
fn drive_rev(mut it: FindRevIter<'_, '_>, want: &[usize]) {
    for (k, &w) in want.iter().enumerate() {
        assert_eq!(Some(w), it.next(), "step {} of {:?}", k, want);
    }
    for _ in 0..3 {
        assert_eq!(None, it.next(), "after the end of {:?}", want);
    }
}

#[test]
fn diff_finder_iter() {
    let mut rng = Rng(0xE7037ED1A0B428DB);
    let mut cases = 0usize;
    let mut total_matches = 0usize;
    let mut empty_results = 0usize;
    for _ in 0..21_000 {
        let (hay, needle) = gen(&mut rng);
        let fwd = naive_find_iter(&hay, &needle);
        let rev = naive_rfind_iter(&hay, &needle);
        let nlen = needle.len();
        let ctx = || format!("h={:?} n={:?}", hay, needle);

        // --- forward ---
        let f = Finder::new(&needle);
        assert_eq!(fwd.first().copied(), f.find(&hay), "{}", ctx());
        assert_eq!(fwd.first().copied(), memmem::find(&hay, &needle));
        drive_fwd(f.find_iter(&hay), &fwd, nlen);
        drive_fwd(memmem::find_iter(&hay, &needle), &fwd, nlen);
        drive_fwd(f.as_ref().find_iter(&hay), &fwd, nlen);
        drive_fwd(f.find_iter(&hay).into_owned(), &fwd, nlen);
        {
            // Owned finder: the needle is copied, the searcher is moved.
            let owned: Finder<'static> = f.clone().into_owned();
            assert_eq!(&needle[..], owned.needle());
            assert_eq!(fwd.first().copied(), owned.find(&hay), "{}", ctx());
            drive_fwd(owned.find_iter(&hay), &fwd, nlen);
            // Owned of owned, and borrowed of owned.
            let owned2 = owned.clone().into_owned();
            drive_fwd(owned2.find_iter(&hay), &fwd, nlen);
            drive_fwd(owned.as_ref().find_iter(&hay), &fwd, nlen);
        }
        {
            // Take a few steps, then clone / convert the iterator mid-way:
            // the position must carry over.
            let k = if fwd.is_empty() { 0 } else { rng.below(fwd.len()) };
            let mut it = f.find_iter(&hay);
            for &w in &fwd[..k] {
                assert_eq!(Some(w), it.next());
            }
            drive_fwd(it.clone(), &fwd[k..], nlen);
            drive_fwd(it.into_owned(), &fwd[k..], nlen);
        }

        // --- reverse ---
        let r = FinderRev::new(&needle);
        assert_eq!(rev.first().copied(), r.rfind(&hay), "{}", ctx());
        assert_eq!(rev.first().copied(), memmem::rfind(&hay, &needle));
        drive_rev(r.rfind_iter(&hay), &rev);
        drive_rev(memmem::rfind_iter(&hay, &needle), &rev);
        drive_rev(r.as_ref().rfind_iter(&hay), &rev);
        drive_rev(r.rfind_iter(&hay).into_owned(), &rev);
        {
            let owned: FinderRev<'static> = r.clone().into_owned();
            assert_eq!(&needle[..], owned.needle());
            assert_eq!(rev.first().copied(), owned.rfind(&hay), "{}", ctx());
            drive_rev(owned.rfind_iter(&hay), &rev);
            let owned2 = owned.clone().into_owned();
            drive_rev(owned2.rfind_iter(&hay), &rev);
            drive_rev(owned.as_ref().rfind_iter(&hay), &rev);
        }
        {
            let k = if rev.is_empty() { 0 } else { rng.below(rev.len()) };
            let mut it = r.rfind_iter(&hay);
            for &w in &rev[..k] {
                assert_eq!(Some(w), it.next());
            }
            drive_rev(it.clone(), &rev[k..]);
            drive_rev(it.into_owned(), &rev[k..]);
        }

        // The number of non-overlapping matches is direction independent
        // for needles without self overlap issues only, but it is always
        // the case that both are empty or both are non-empty.
        assert_eq!(fwd.is_empty(), rev.is_empty());

        cases += 1;
        total_matches += fwd.len();
        if fwd.is_empty() {
            empty_results += 1;
        }
    }
    assert!(cases >= 20_000);
    // Sanity checks on the generator.
    assert!(total_matches > 5 * cases, "total_matches={}", total_matches);
    assert!(empty_results > cases / 10, "empty_results={}", empty_results);
}
