// Differential test for the refactoring of `memmem::FindIter::next` and
// `memmem::FindRevIter::next`.
//
// Uses only the public API of the crate and std. The iterators are compared,
// step by step (including `size_hint` and polling after exhaustion), against
// model iterators built on a naive quadratic substring search.

use memchr::memmem;

/// A tiny deterministic xorshift64* generator.
struct Rng(u64);

impl Rng {
    fn next(&mut self) -> u64 {
        let mut x = self.0;
        x ^= x >> 12;
        x ^= x << 25;
        x ^= x >> 27;
        self.0 = x;
        x.wrapping_mul(0x2545_F491_4F6C_DD1D)
    }
    fn below(&mut self, n: usize) -> usize {
        (self.next() % (n as u64)) as usize
    }
    fn byte(&mut self, alphabet: usize) -> u8 {
        if alphabet >= 256 {
            self.next() as u8
        } else {
            b'a' + self.below(alphabet) as u8
        }
    }
}

fn naive_find(h: &[u8], n: &[u8]) -> Option<usize> {
    if n.len() > h.len() {
        return None;
    }
    (0..=h.len() - n.len()).find(|&i| &h[i..i + n.len()] == n)
}

fn naive_rfind(h: &[u8], n: &[u8]) -> Option<usize> {
    if n.len() > h.len() {
        return None;
    }
    (0..=h.len() - n.len()).rev().find(|&i| &h[i..i + n.len()] == n)
}

fn random_bytes(rng: &mut Rng, len: usize, alphabet: usize) -> Vec<u8> {
    (0..len).map(|_| rng.byte(alphabet)).collect()
}

fn periodic_bytes(
    rng: &mut Rng,
    len: usize,
    alphabet: usize,
    max_period: usize,
) -> Vec<u8> {
    let p = 1 + rng.below(max_period);
    let unit = random_bytes(rng, p, alphabet);
    (0..len).map(|i| unit[i % p]).collect()
}

/// Picks a length in 0..=300, biased towards small values and towards values
/// near typical vector sizes.
fn pick_len(rng: &mut Rng, max: usize) -> usize {
    let l = match rng.below(6) {
        0 => rng.below(5),
        1 => rng.below(20),
        2 => {
            let around = [15usize, 16, 17, 31, 32, 33, 63, 64, 65, 128];
            around[rng.below(around.len())] + rng.below(3) - 1
        }
        3 => rng.below(70),
        _ => rng.below(301),
    };
    std::cmp::min(l, max)
}

/// Generates a (haystack, needle) pair of one of several shapes.
fn gen_case(rng: &mut Rng) -> (Vec<u8>, Vec<u8>) {
    let alphabet = match rng.below(6) {
        0 => 1,
        1 | 2 => 2,
        3 => 3,
        4 => 4,
        _ => 256,
    };
    let nlen = pick_len(rng, 300);
    let mut needle = match rng.below(4) {
        0 => random_bytes(rng, nlen, alphabet),
        1 => periodic_bytes(rng, nlen, alphabet, 8),
        2 => periodic_bytes(rng, nlen, alphabet, 40),
        _ => {
            // periodic, with a single perturbation somewhere
            let mut n = periodic_bytes(rng, nlen, alphabet, 12);
            if !n.is_empty() {
                let at = rng.below(n.len());
                n[at] = rng.byte(alphabet.max(2));
            }
            n
        }
    };
    let hlen = pick_len(rng, 300);
    let mut haystack = match rng.below(5) {
        0 => random_bytes(rng, hlen, alphabet),
        1 => periodic_bytes(rng, hlen, alphabet, 8),
        2 => {
            // repeat the needle's own bytes so partial matches abound
            if needle.is_empty() {
                random_bytes(rng, hlen, alphabet)
            } else {
                let off = rng.below(needle.len());
                (0..hlen).map(|i| needle[(i + off) % needle.len()]).collect()
            }
        }
        3 => {
            // near-misses of the needle, concatenated
            let mut h = vec![];
            while h.len() < hlen {
                let mut n = needle.clone();
                if !n.is_empty() && rng.below(4) != 0 {
                    let at = rng.below(n.len());
                    n[at] = rng.byte(alphabet.max(2));
                }
                if n.is_empty() {
                    n.push(rng.byte(alphabet));
                }
                h.extend_from_slice(&n);
            }
            h.truncate(hlen);
            h
        }
        _ => {
            // random haystack with the needle planted somewhere (if it fits)
            let mut h = random_bytes(rng, hlen, alphabet);
            if needle.len() <= h.len() {
                let at = rng.below(h.len() - needle.len() + 1);
                h[at..at + needle.len()].copy_from_slice(&needle);
            }
            h
        }
    };
    // Occasionally take the needle from the haystack itself.
    if rng.below(8) == 0 && !haystack.is_empty() {
        let a = rng.below(haystack.len());
        let b = a + rng.below(haystack.len() - a + 1);
        needle = haystack[a..b].to_vec();
    }
    // Occasionally make the haystack a strict prefix of the needle.
    if rng.below(40) == 0 && !needle.is_empty() {
        haystack = needle[..needle.len() - 1].to_vec();
    }
    (haystack, needle)
}

/// Model of the forward iterator: non-overlapping matches, left to right; an
/// empty needle matches at every position including `haystack.len()`.
struct ModelFwd<'a> {
    h: &'a [u8],
    n: &'a [u8],
    pos: usize,
}

impl<'a> ModelFwd<'a> {
    fn next(&mut self) -> Option<usize> {
        if self.pos > self.h.len() {
            return None;
        }
        let idx = naive_find(&self.h[self.pos..], self.n)?;
        let at = self.pos + idx;
        self.pos = at + std::cmp::max(1, self.n.len());
        Some(at)
    }

    fn size_hint(&self) -> (usize, Option<usize>) {
        if self.pos > self.h.len() {
            return (0, Some(0));
        }
        let rem = self.h.len() - self.pos;
        if self.n.is_empty() {
            (rem + 1, Some(rem + 1))
        } else {
            (0, Some(rem / self.n.len()))
        }
    }
}

/// Model of the reverse iterator: non-overlapping matches, right to left.
struct ModelRev<'a> {
    h: &'a [u8],
    n: &'a [u8],
    pos: Option<usize>,
}

impl<'a> ModelRev<'a> {
    fn next(&mut self) -> Option<usize> {
        let pos = self.pos?;
        let i = naive_rfind(&self.h[..pos], self.n)?;
        self.pos = if pos == i {
            if pos == 0 {
                None
            } else {
                Some(pos - 1)
            }
        } else {
            Some(i)
        };
        Some(i)
    }
}

/// Drives a forward iterator and the model in lock step, and polls both a few
/// more times after the first `None`.
fn check_fwd(case: usize, what: &str, h: &[u8], n: &[u8], mut it: memmem::FindIter<'_, '_>) {
    let mut model = ModelFwd { h, n, pos: 0 };
    let mut nones = 0;
    let mut steps = 0;
    while nones < 3 {
        assert_eq!(
            model.size_hint(),
            it.size_hint(),
            "case {} {}: size_hint at step {} haystack={:?} needle={:?}",
            case, what, steps, h, n
        );
        let expected = model.next();
        let got = it.next();
        assert_eq!(
            expected, got,
            "case {} {}: next at step {} haystack={:?} needle={:?}",
            case, what, steps, h, n
        );
        if got.is_none() {
            nones += 1;
        }
        steps += 1;
        assert!(steps <= h.len() + 10);
    }
}

fn check_rev(case: usize, what: &str, h: &[u8], n: &[u8], mut it: memmem::FindRevIter<'_, '_>) {
    let mut model = ModelRev { h, n, pos: Some(h.len()) };
    let mut nones = 0;
    let mut steps = 0;
    while nones < 3 {
        let expected = model.next();
        let got = it.next();
        assert_eq!(
            expected, got,
            "case {} {}: next at step {} haystack={:?} needle={:?}",
            case, what, steps, h, n
        );
        if got.is_none() {
            nones += 1;
        }
        steps += 1;
        assert!(steps <= h.len() + 10);
    }
}

const CASES: usize = 30_000;

#[test]
fn diff_find_iter() {
    let mut rng = Rng(0x9E37_79B9_7F4A_7C15);
    for case in 0..CASES {
        let (h, n) = gen_case(&mut rng);
        check_fwd(case, "memmem::find_iter", &h, &n, memmem::find_iter(&h, &n));

        let finder = memmem::Finder::new(&n);
        check_fwd(case, "Finder::find_iter", &h, &n, finder.find_iter(&h));
        check_fwd(
            case,
            "Finder::find_iter.into_owned",
            &h,
            &n,
            finder.find_iter(&h).into_owned(),
        );

        let nopre = memmem::FinderBuilder::new()
            .prefilter(memmem::Prefilter::None)
            .build_forward(&n);
        check_fwd(case, "no prefilter", &h, &n, nopre.find_iter(&h));

        // A cloned, partially consumed iterator continues identically.
        let mut it = finder.find_iter(&h);
        let first = it.next();
        let rest_a: Vec<usize> = it.clone().collect();
        let rest_b: Vec<usize> = it.collect();
        assert_eq!(rest_a, rest_b, "case {} clone", case);
        assert_eq!(first, naive_find(&h, &n), "case {} first", case);
    }
}

#[test]
fn diff_rfind_iter() {
    let mut rng = Rng(0xD1B5_4A32_D192_ED03);
    for case in 0..CASES {
        let (h, n) = gen_case(&mut rng);
        check_rev(case, "memmem::rfind_iter", &h, &n, memmem::rfind_iter(&h, &n));

        let finder = memmem::FinderRev::new(&n);
        check_rev(case, "FinderRev::rfind_iter", &h, &n, finder.rfind_iter(&h));
        check_rev(
            case,
            "FinderRev::rfind_iter.into_owned",
            &h,
            &n,
            finder.rfind_iter(&h).into_owned(),
        );
        let built = memmem::FinderBuilder::new().build_reverse(&n);
        check_rev(case, "build_reverse", &h, &n, built.rfind_iter(&h));
    }
}

#[test]
fn diff_iters_exhaustive_small() {
    // Every haystack over {a, b} of length <= 7 against every needle of
    // length <= 3, including the empty needle and the empty haystack.
    let mut all: Vec<Vec<u8>> = vec![];
    for len in 0..=7usize {
        for bits in 0..(1u32 << len) {
            all.push(
                (0..len)
                    .map(|i| if bits >> i & 1 == 0 { b'a' } else { b'b' })
                    .collect(),
            );
        }
    }
    let mut case = 0;
    for n in all.iter().filter(|n| n.len() <= 3) {
        for h in all.iter() {
            check_fwd(case, "exhaustive fwd", h, n, memmem::find_iter(h, n));
            check_rev(case, "exhaustive rev", h, n, memmem::rfind_iter(h, n));
            case += 1;
        }
    }
}

#[test]
fn diff_iters_long_haystacks() {
    // Longer haystacks with many matches and near misses, so that iteration
    // runs for many steps (and the prefilter state carried by the forward
    // iterator across `next` calls can go inert).
    let mut rng = Rng(0x1234_5678_9ABC_DEF1);
    for case in 0..1_000 {
        let alphabet = 1 + rng.below(3);
        let nlen = 1 + rng.below(80);
        let n = periodic_bytes(&mut rng, nlen, alphabet, 10);
        let hlen = 1_000 + rng.below(3_000);
        let mut h: Vec<u8> = (0..hlen).map(|i| n[i % n.len()]).collect();
        for _ in 0..rng.below(80) {
            let at = rng.below(h.len());
            h[at] = rng.byte(alphabet + 1);
        }
        check_fwd(case, "long fwd", &h, &n, memmem::find_iter(&h, &n));
        check_rev(case, "long rev", &h, &n, memmem::rfind_iter(&h, &n));
    }
}
