// Differential test for the PrefilterState refactoring (change 1).
//
// Uses only the public API and std. Compares every forward search entry point
// that can reach the prefilter-accelerated Two-Way searcher (and therefore
// `PrefilterState::{update,is_effective}`) against a naive reference
// implementation. The generator favours inputs that make the prefilter report
// many false positive candidates, so that the prefilter goes through its
// "effective -> inert" transition, both within a single search and across the
// calls of a single `find_iter` iterator (which shares one PrefilterState).

use memchr::memmem::{self, FinderBuilder, Prefilter};

struct Rng(u64);

impl Rng {
    fn next(&mut self) -> u64 {
        // xorshift64*
        let mut x = self.0;
        x ^= x >> 12;
        x ^= x << 25;
        x ^= x >> 27;
        self.0 = x;
        x.wrapping_mul(0x2545F4914F6CDD1D)
    }
    fn below(&mut self, n: usize) -> usize {
        (self.next() % (n as u64)) as usize
    }
    fn range(&mut self, lo: usize, hi: usize) -> usize {
        lo + self.below(hi - lo + 1)
    }
}

fn naive_find(h: &[u8], n: &[u8]) -> Option<usize> {
    if n.len() > h.len() {
        return None;
    }
    (0..=h.len() - n.len()).find(|&i| &h[i..i + n.len()] == n)
}

fn naive_find_iter(h: &[u8], n: &[u8]) -> Vec<usize> {
    let mut out = vec![];
    let mut pos = 0;
    while pos <= h.len() {
        match naive_find(&h[pos..], n) {
            None => break,
            Some(i) => {
                out.push(pos + i);
                pos = pos + i + std::cmp::max(1, n.len());
            }
        }
    }
    out
}

const ALPHABETS: &[&[u8]] = &[
    b"a",
    b"ab",
    b"abc",
    b"abcd",
    b"\x00\xff",
    b"zq",
    b"etaoinshr ",
    b"abcdefghijklmnopqrstuvwxyz",
];

fn random_bytes(rng: &mut Rng, alpha: &[u8], len: usize) -> Vec<u8> {
    (0..len).map(|_| alpha[rng.below(alpha.len())]).collect()
}

fn periodic(rng: &mut Rng, alpha: &[u8], len: usize) -> Vec<u8> {
    let p = rng.range(1, 7);
    let unit = random_bytes(rng, alpha, p);
    (0..len).map(|i| unit[i % p]).collect()
}

/// Generates a (haystack, needle) pair.
fn gen(rng: &mut Rng, case: usize) -> (Vec<u8>, Vec<u8>) {
    let alpha: &[u8] = if rng.below(8) == 0 {
        &[]
    } else {
        ALPHABETS[rng.below(ALPHABETS.len())]
    };
    let full: Vec<u8> = (0..=255).collect();
    let alpha = if alpha.is_empty() { &full[..] } else { alpha };

    // Most haystacks have a length in 0..300, but one in eight is longer so
    // that more than MIN_SKIPS prefilter calls can happen in one search.
    let hlen = match case % 8 {
        0 => rng.range(300, 2500),
        1 => rng.range(0, 40),
        _ => rng.range(0, 300),
    };
    // Needles longer than 32 bytes are the ones that get Two-Way with a
    // prefilter on x86_64. Shorter ones are included as well.
    let nlen = match rng.below(6) {
        0 => rng.range(0, 4),
        1 => rng.range(5, 32),
        2 => rng.range(31, 35),
        _ => rng.range(33, 120),
    };
    let mut hay = if rng.below(3) == 0 {
        periodic(rng, alpha, hlen)
    } else {
        random_bytes(rng, alpha, hlen)
    };
    let mut needle = match rng.below(5) {
        // A substring of the haystack: guarantees a match.
        0 | 1 if hlen >= nlen => {
            let at = rng.below(hlen - nlen + 1);
            hay[at..at + nlen].to_vec()
        }
        // A substring of the haystack with one byte changed: lots of
        // near misses.
        2 if hlen >= nlen && nlen > 0 => {
            let at = rng.below(hlen - nlen + 1);
            let mut n = hay[at..at + nlen].to_vec();
            let k = rng.below(nlen);
            n[k] = alpha[rng.below(alpha.len())];
            n
        }
        3 => periodic(rng, alpha, nlen),
        _ => random_bytes(rng, alpha, nlen),
    };
    // Plant a rare byte in the needle and sprinkle the same byte over the
    // haystack: the rare byte is what the prefilter looks for, so this
    // produces many false positive candidates that are close together.
    if rng.below(2) == 0 && !needle.is_empty() {
        let rare = [b'\x01', b'Z', b'~', b'q'][rng.below(4)];
        let k = rng.below(needle.len());
        needle[k] = rare;
        if needle.len() > 1 && rng.below(2) == 0 {
            let k2 = rng.below(needle.len());
            needle[k2] = [b'\x02', b'Q', b'^'][rng.below(3)];
        }
        let step = rng.range(1, 9);
        let mut i = rng.below(step);
        while i < hay.len() {
            hay[i] = rare;
            i += rng.range(1, step);
        }
    }
    (hay, needle)
}

#[test]
fn diff_prestate() {
    let mut rng = Rng(0x9E3779B97F4A7C15);
    let mut cases = 0usize;
    let mut matched = 0usize;
    let mut long_needles = 0usize;
    for case in 0..24_000 {
        let (hay, needle) = gen(&mut rng, case);
        let want = naive_find(&hay, &needle);
        let want_all = naive_find_iter(&hay, &needle);
        assert_eq!(want, want_all.first().copied());

        let auto = FinderBuilder::new().build_forward(&needle);
        let none = FinderBuilder::new()
            .prefilter(Prefilter::None)
            .build_forward(&needle);
        let explicit_auto = FinderBuilder::new()
            .prefilter(Prefilter::Auto)
            .build_forward(&needle);

        assert_eq!(want, auto.find(&hay), "auto h={:?} n={:?}", hay, needle);
        assert_eq!(want, none.find(&hay), "none h={:?} n={:?}", hay, needle);
        assert_eq!(want, explicit_auto.find(&hay));
        assert_eq!(want, memmem::find(&hay, &needle));
        assert_eq!(want, memmem::Finder::new(&needle).find(&hay));

        // One iterator == one PrefilterState shared between all the calls.
        let got_all: Vec<usize> = auto.find_iter(&hay).collect();
        assert_eq!(want_all, got_all, "iter h={:?} n={:?}", hay, needle);
        let got_all: Vec<usize> = none.find_iter(&hay).collect();
        assert_eq!(want_all, got_all);
        let got_all: Vec<usize> = memmem::find_iter(&hay, &needle).collect();
        assert_eq!(want_all, got_all);

        // Searching repeatedly with the same finder must not carry any
        // state over (each `find` gets a fresh PrefilterState).
        assert_eq!(want, auto.find(&hay));
        // Every suffix start in a small window, to vary alignment/lengths.
        for start in 0..std::cmp::min(hay.len(), 3) {
            assert_eq!(
                naive_find(&hay[start..], &needle),
                auto.find(&hay[start..])
            );
        }

        cases += 1;
        if want.is_some() {
            matched += 1;
        }
        if needle.len() > 32 {
            long_needles += 1;
        }
    }
    assert!(cases >= 20_000);
    // Sanity check on the generator: a decent share of both outcomes, and
    // of needles long enough to use the prefilter.
    assert!(matched > cases / 10, "matched={}", matched);
    assert!(cases - matched > cases / 10, "matched={}", matched);
    assert!(long_needles > cases / 3, "long_needles={}", long_needles);
}

/// A pathological shape aimed directly at the inert transition: the rare
/// byte occurs at every other position, so the prefilter skips ~2 bytes per
/// call, which is below MIN_SKIP_BYTES and makes it go inert after MIN_SKIPS
/// calls. Results must be unaffected.
#[test]
fn diff_prestate_pathological() {
    let mut rng = Rng(0xD1B54A32D192ED03);
    for _ in 0..600 {
        let nlen = rng.range(33, 90);
        let hlen = rng.range(0, 3000);
        let gap = rng.range(1, 12);
        let mut needle = vec![b'a'; nlen];
        let k = rng.below(nlen);
        needle[k] = b'Z';
        let mut hay = vec![b'a'; hlen];
        let mut i = 0;
        while i < hlen {
            hay[i] = b'Z';
            i += gap;
        }
        // Sometimes plant real matches.
        if hlen >= nlen {
            for _ in 0..rng.below(3) {
                let at = rng.below(hlen - nlen + 1);
                hay[at..at + nlen].copy_from_slice(&needle);
            }
        }
        let f = memmem::Finder::new(&needle);
        assert_eq!(naive_find(&hay, &needle), f.find(&hay));
        assert_eq!(
            naive_find_iter(&hay, &needle),
            f.find_iter(&hay).collect::<Vec<usize>>()
        );
    }
}
