// Differential test for the `SensibleMoveMask` arithmetic clean-up in
// src/vector.rs (all_zeros_except_least_significant, first_offset,
// last_offset).
//
// These mask routines are reached through:
//   * first_offset / last_offset: every vectorized memchr/memrchr (1, 2, 3
//     needles, SSE2 and AVX2), and the packed pair substring searcher.
//   * all_zeros_except_least_significant: the packed pair substring searcher
//     (the mask for the final, overlapping chunk), which in turn is what
//     memmem::find uses on x86_64.
//
// Everything is compared against naive reference implementations. Only the
// public API of the crate and std are used.

use memchr::arch::x86_64::{avx2, sse2};
use memchr::memmem;

/// xorshift64* deterministic generator.
struct Rng(u64);

impl Rng {
    fn next(&mut self) -> u64 {
        let mut x = self.0;
        x ^= x >> 12;
        x ^= x << 25;
        x ^= x >> 27;
        self.0 = x;
        x.wrapping_mul(0x2545F4914F6CDD1D)
    }
    fn below(&mut self, n: usize) -> usize {
        (self.next() % (n as u64)) as usize
    }
    fn alphabet(&mut self) -> usize {
        match self.below(4) {
            0 => 1,
            1 => 2,
            2 => 4,
            _ => 256,
        }
    }
    fn bytes(&mut self, len: usize, alpha: usize) -> Vec<u8> {
        (0..len).map(|_| b'a'.wrapping_add(self.below(alpha) as u8)).collect()
    }
    fn len(&mut self) -> usize {
        match self.below(4) {
            // lengths around the vector sizes and their multiples
            0 => {
                let base = [0usize, 16, 32, 48, 64, 96, 128, 160, 256]
                    [self.below(9)];
                (base + self.below(5)).saturating_sub(2)
            }
            1 => self.below(40),
            _ => self.below(301),
        }
    }
}

fn naive_find(h: &[u8], f: impl Fn(u8) -> bool) -> Option<usize> {
    h.iter().position(|&b| f(b))
}
fn naive_rfind(h: &[u8], f: impl Fn(u8) -> bool) -> Option<usize> {
    h.iter().rposition(|&b| f(b))
}
fn naive_substr(h: &[u8], n: &[u8]) -> Option<usize> {
    if n.len() > h.len() {
        return None;
    }
    (0..=h.len() - n.len()).find(|&i| &h[i..i + n.len()] == n)
}
fn naive_rsubstr(h: &[u8], n: &[u8]) -> Option<usize> {
    if n.len() > h.len() {
        return None;
    }
    (0..=h.len() - n.len()).rev().find(|&i| &h[i..i + n.len()] == n)
}

/// A haystack that has few (often zero or one) matching bytes, placed at a
/// random position, so that every lane of a vector gets exercised as the
/// first/last match.
fn sparse_haystack(rng: &mut Rng, len: usize, needles: &[u8]) -> Vec<u8> {
    let mut h = vec![b'.'; len];
    if len == 0 {
        return h;
    }
    for _ in 0..rng.below(4) {
        let at = rng.below(len);
        h[at] = needles[rng.below(needles.len())];
    }
    h
}

#[test]
fn memchr_family_vs_naive() {
    let mut rng = Rng(0x9E3779B97F4A7C15);
    let mut cases = 0usize;
    for round in 0..24000 {
        let len = rng.len();
        let alpha = rng.alphabet();
        let n1 = b'a'.wrapping_add(rng.below(alpha.max(3)) as u8);
        let n2 = b'a'.wrapping_add(rng.below(alpha.max(3)) as u8);
        let n3 = b'a'.wrapping_add(rng.below(alpha.max(3)) as u8);
        let full = if round % 2 == 0 {
            rng.bytes(len + 3, alpha)
        } else {
            let mut v = sparse_haystack(&mut rng, len + 3, &[n1, n2, n3]);
            v.truncate(len + 3);
            v
        };
        // Vary the alignment of the start of the haystack.
        let off = rng.below(4).min(full.len());
        let h = &full[off..(off + len).min(full.len())];

        let e1 = naive_find(h, |b| b == n1);
        let r1 = naive_rfind(h, |b| b == n1);
        let e2 = naive_find(h, |b| b == n1 || b == n2);
        let r2 = naive_rfind(h, |b| b == n1 || b == n2);
        let e3 = naive_find(h, |b| b == n1 || b == n2 || b == n3);
        let r3 = naive_rfind(h, |b| b == n1 || b == n2 || b == n3);
        let c1 = h.iter().filter(|&&b| b == n1).count();

        assert_eq!(memchr::memchr(n1, h), e1, "memchr {:?} {:?}", n1, h);
        assert_eq!(memchr::memrchr(n1, h), r1, "memrchr {:?} {:?}", n1, h);
        assert_eq!(memchr::memchr2(n1, n2, h), e2);
        assert_eq!(memchr::memrchr2(n1, n2, h), r2);
        assert_eq!(memchr::memchr3(n1, n2, n3, h), e3);
        assert_eq!(memchr::memrchr3(n1, n2, n3, h), r3);
        assert_eq!(memchr::memchr_iter(n1, h).count(), c1);

        let s1 = sse2::memchr::One::new(n1).unwrap();
        assert_eq!(s1.find(h), e1);
        assert_eq!(s1.rfind(h), r1);
        assert_eq!(s1.count(h), c1);
        let s2 = sse2::memchr::Two::new(n1, n2).unwrap();
        assert_eq!(s2.find(h), e2);
        assert_eq!(s2.rfind(h), r2);
        let s3 = sse2::memchr::Three::new(n1, n2, n3).unwrap();
        assert_eq!(s3.find(h), e3);
        assert_eq!(s3.rfind(h), r3);

        if let Some(a1) = avx2::memchr::One::new(n1) {
            assert_eq!(a1.find(h), e1);
            assert_eq!(a1.rfind(h), r1);
            assert_eq!(a1.count(h), c1);
            let a2 = avx2::memchr::Two::new(n1, n2).unwrap();
            assert_eq!(a2.find(h), e2);
            assert_eq!(a2.rfind(h), r2);
            let a3 = avx2::memchr::Three::new(n1, n2, n3).unwrap();
            assert_eq!(a3.find(h), e3);
            assert_eq!(a3.rfind(h), r3);
            // all positions, forwards and backwards
            let fwd: Vec<usize> = a2.iter(h).collect();
            let exp: Vec<usize> =
                (0..h.len()).filter(|&i| h[i] == n1 || h[i] == n2).collect();
            assert_eq!(fwd, exp);
            let mut bwd: Vec<usize> = a3.iter(h).rev().collect();
            bwd.reverse();
            let exp: Vec<usize> = (0..h.len())
                .filter(|&i| h[i] == n1 || h[i] == n2 || h[i] == n3)
                .collect();
            assert_eq!(bwd, exp);
        }
        cases += 1;
    }
    assert!(cases >= 20000);
}

fn make_needle(rng: &mut Rng, h: &[u8], alpha: usize) -> Vec<u8> {
    let nlen = 2 + rng.below(14);
    match rng.below(4) {
        // a substring of the haystack (guaranteed match), often near the end
        0 | 1 if h.len() >= nlen => {
            let at = if rng.below(2) == 0 {
                h.len() - nlen - rng.below((h.len() - nlen).min(20) + 1)
            } else {
                rng.below(h.len() - nlen + 1)
            };
            h[at..at + nlen].to_vec()
        }
        // periodic needle
        2 => {
            let period = 1 + rng.below(3);
            let unit = rng.bytes(period, alpha);
            (0..nlen).map(|i| unit[i % period]).collect()
        }
        _ => rng.bytes(nlen, alpha),
    }
}

#[test]
fn packedpair_and_memmem_vs_naive() {
    let mut rng = Rng(0xD1B54A32D192ED03);
    let mut cases = 0usize;
    let mut pp_sse2 = 0usize;
    let mut pp_avx2 = 0usize;
    for _ in 0..24000 {
        let len = rng.len();
        let alpha = rng.alphabet();
        let mut h = rng.bytes(len, alpha);
        if rng.below(3) == 0 && len > 0 {
            // periodic haystack
            let period = 1 + rng.below(4);
            for i in period..len {
                h[i] = h[i - period];
            }
        }
        let n = make_needle(&mut rng, &h, alpha);
        let expected = naive_substr(&h, &n);

        assert_eq!(memmem::find(&h, &n), expected, "h={:?} n={:?}", h, n);
        assert_eq!(memmem::rfind(&h, &n), naive_rsubstr(&h, &n));
        let finder = memmem::Finder::new(&n);
        assert_eq!(finder.find(&h), expected);
        let first_two: Vec<usize> = finder.find_iter(&h).take(2).collect();
        if let Some(e) = expected {
            assert_eq!(first_two[0], e);
        } else {
            assert!(first_two.is_empty());
        }

        if let Some(f) = sse2::packedpair::Finder::new(&n) {
            if h.len() >= f.min_haystack_len() {
                assert_eq!(f.find(&h, &n), expected, "h={:?} n={:?}", h, n);
                pp_sse2 += 1;
            }
        }
        if let Some(f) = avx2::packedpair::Finder::new(&n) {
            if h.len() >= f.min_haystack_len() {
                assert_eq!(f.find(&h, &n), expected, "h={:?} n={:?}", h, n);
                pp_avx2 += 1;
            }
        }
        cases += 1;
    }
    assert!(cases >= 20000);
    // Make sure the direct packed pair checks were not vacuous.
    assert!(pp_sse2 >= 10000, "sse2 packedpair cases: {}", pp_sse2);
    if avx2::packedpair::Finder::is_available() {
        assert!(pp_avx2 >= 10000, "avx2 packedpair cases: {}", pp_avx2);
    }
}
