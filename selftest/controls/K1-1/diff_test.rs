// Differential test for the refactoring of the generic vector
// `One::find_raw` routine (src/arch/generic/memchr.rs).
//
// Uses only the public API of the crate and std. Every result is compared
// against a naive byte-at-a-time reference implementation.

use memchr::arch::all::memchr as swar;
#[cfg(target_arch = "x86_64")]
use memchr::arch::x86_64::{avx2::memchr as avx2, sse2::memchr as sse2};

/// xorshift64* -- simple deterministic PRNG.
struct Rng(u64);

impl Rng {
    fn next(&mut self) -> u64 {
        let mut x = self.0;
        x ^= x >> 12;
        x ^= x << 25;
        x ^= x >> 27;
        self.0 = x;
        x.wrapping_mul(0x2545_F491_4F6C_DD1D)
    }

    fn below(&mut self, n: usize) -> usize {
        (self.next() % (n as u64)) as usize
    }
}

const ALPHABETS: &[&[u8]] = &[
    b"a",
    b"ab",
    b"abc",
    b"abcd",
    b"\x00\xff",
    b"\x00\x01\x7f\x80\xfe\xff",
    b"abcdefghijklmnop",
];

/// Interesting lengths: around the vector sizes (16, 32), the loop sizes
/// (2*16, 4*16, 2*32, 4*32) and plus the alignment slack.
fn gen_len(rng: &mut Rng) -> usize {
    const PIVOTS: &[usize] =
        &[0, 8, 16, 32, 48, 64, 80, 96, 128, 144, 160, 192, 256];
    match rng.below(4) {
        0 => rng.below(301),
        1 => rng.below(40),
        2 => {
            let p = PIVOTS[rng.below(PIVOTS.len())];
            let d = rng.below(9);
            (p + d).saturating_sub(4)
        }
        _ => rng.below(140),
    }
}

struct Case {
    /// Backing buffer. The haystack is `buf[off..off + len]`.
    buf: Vec<u8>,
    off: usize,
    len: usize,
    needles: [u8; 3],
}

impl Case {
    fn haystack(&self) -> &[u8] {
        &self.buf[self.off..self.off + self.len]
    }
}

fn gen_case(rng: &mut Rng) -> Case {
    let len = gen_len(rng);
    // Vary the alignment of the haystack start (and hence of its end).
    let off = rng.below(70);
    let tail = rng.below(3);
    let mut buf = vec![0u8; off + len + tail];
    let full;
    let alpha: &[u8] = if rng.below(8) == 0 {
        full = (0..=255u8).collect::<Vec<u8>>();
        &full
    } else {
        ALPHABETS[rng.below(ALPHABETS.len())]
    };
    match rng.below(4) {
        // Uniformly random over a (small) alphabet.
        0 => {
            for b in buf.iter_mut() {
                *b = alpha[rng.below(alpha.len())];
            }
        }
        // Periodic haystack.
        1 => {
            let period = 1 + rng.below(9);
            let pat: Vec<u8> =
                (0..period).map(|_| alpha[rng.below(alpha.len())]).collect();
            for (i, b) in buf.iter_mut().enumerate() {
                *b = pat[i % period];
            }
        }
        // Filler with a few planted bytes.
        2 => {
            let filler = alpha[rng.below(alpha.len())];
            for b in buf.iter_mut() {
                *b = filler;
            }
            if !buf.is_empty() {
                for _ in 0..rng.below(4) {
                    let at = rng.below(buf.len());
                    buf[at] = alpha[rng.below(alpha.len())] ^ 0x20;
                }
            }
        }
        // Filler with exactly one planted byte near a boundary.
        _ => {
            let filler = alpha[rng.below(alpha.len())];
            for b in buf.iter_mut() {
                *b = filler;
            }
            if len > 0 {
                let at = match rng.below(3) {
                    0 => rng.below(len.min(34)),
                    1 => len - 1 - rng.below(len.min(34)),
                    _ => rng.below(len),
                };
                buf[off + at] = b'#';
            }
        }
    }
    let mut needles = [0u8; 3];
    for n in needles.iter_mut() {
        *n = match rng.below(6) {
            0 => b'#',
            1 => rng.next() as u8,
            2 if len > 0 => buf[off + rng.below(len)],
            3 if len > 0 => buf[off + rng.below(len)] ^ 0x20,
            _ => alpha[rng.below(alpha.len())],
        };
    }
    Case { buf, off, len, needles }
}

fn naive_find(h: &[u8], ns: &[u8]) -> Option<usize> {
    h.iter().position(|b| ns.contains(b))
}

fn naive_rfind(h: &[u8], ns: &[u8]) -> Option<usize> {
    h.iter().rposition(|b| ns.contains(b))
}

fn naive_all(h: &[u8], ns: &[u8]) -> Vec<usize> {
    (0..h.len()).filter(|&i| ns.contains(&h[i])).collect()
}

/// Pull items from both ends in a pseudo random order and compare with the
/// expected sequence.
fn check_mixed<I: DoubleEndedIterator<Item = usize>>(
    rng: &mut Rng,
    mut it: I,
    expected: &[usize],
    what: &str,
) {
    let (mut lo, mut hi) = (0, expected.len());
    loop {
        let (_, upper) = it.size_hint();
        assert!(upper.unwrap() >= hi - lo, "{}: size_hint", what);
        if rng.below(2) == 0 {
            let got = it.next();
            if lo < hi {
                assert_eq!(got, Some(expected[lo]), "{}: next", what);
                lo += 1;
            } else {
                assert_eq!(got, None, "{}: next at end", what);
                break;
            }
        } else {
            let got = it.next_back();
            if lo < hi {
                assert_eq!(got, Some(expected[hi - 1]), "{}: next_back", what);
                hi -= 1;
            } else {
                assert_eq!(got, None, "{}: next_back at end", what);
                break;
            }
        }
    }
    assert_eq!(it.next(), None, "{}: fused", what);
    assert_eq!(it.next_back(), None, "{}: fused back", what);
}

fn check_case(rng: &mut Rng, c: &Case) {
    let h = c.haystack();
    let [n1, n2, n3] = c.needles;
    let all1 = naive_all(h, &[n1]);
    let all2 = naive_all(h, &[n1, n2]);
    let all3 = naive_all(h, &[n1, n2, n3]);

    // ---- top level API -------------------------------------------------
    assert_eq!(memchr::memchr(n1, h), naive_find(h, &[n1]), "memchr");
    assert_eq!(memchr::memrchr(n1, h), naive_rfind(h, &[n1]), "memrchr");
    assert_eq!(memchr::memchr2(n1, n2, h), naive_find(h, &[n1, n2]));
    assert_eq!(memchr::memrchr2(n1, n2, h), naive_rfind(h, &[n1, n2]));
    assert_eq!(memchr::memchr3(n1, n2, n3, h), naive_find(h, &[n1, n2, n3]));
    assert_eq!(
        memchr::memrchr3(n1, n2, n3, h),
        naive_rfind(h, &[n1, n2, n3])
    );
    assert_eq!(memchr::memchr_iter(n1, h).collect::<Vec<_>>(), all1);
    assert_eq!(memchr::memchr_iter(n1, h).count(), all1.len());
    assert_eq!(
        memchr::memrchr_iter(n1, h).collect::<Vec<_>>(),
        all1.iter().rev().copied().collect::<Vec<_>>()
    );
    assert_eq!(memchr::memchr2_iter(n1, n2, h).collect::<Vec<_>>(), all2);
    assert_eq!(memchr::memchr3_iter(n1, n2, n3, h).collect::<Vec<_>>(), all3);
    check_mixed(rng, memchr::memchr_iter(n1, h), &all1, "memchr_iter");
    // count() after having consumed a prefix and a suffix.
    {
        let mut it = memchr::memchr_iter(n1, h);
        let mut left = all1.len();
        if rng.below(2) == 0 && it.next().is_some() {
            left -= 1;
        }
        if rng.below(2) == 0 && it.next_back().is_some() {
            left -= 1;
        }
        assert_eq!(it.count(), left, "count after partial consumption");
    }

    // ---- SWAR fallback -------------------------------------------------
    let s = swar::One::new(n1);
    assert_eq!(s.find(h), naive_find(h, &[n1]), "swar find");
    assert_eq!(s.rfind(h), naive_rfind(h, &[n1]), "swar rfind");
    assert_eq!(s.count(h), all1.len(), "swar count");
    assert_eq!(s.iter(h).collect::<Vec<_>>(), all1, "swar iter");

    // ---- explicit vector searchers --------------------------------------
    #[cfg(target_arch = "x86_64")]
    {
        if let Some(s) = sse2::One::new(n1) {
            assert_eq!(s.find(h), naive_find(h, &[n1]), "sse2 find");
            assert_eq!(s.rfind(h), naive_rfind(h, &[n1]), "sse2 rfind");
            assert_eq!(s.count(h), all1.len(), "sse2 count");
            assert_eq!(s.iter(h).collect::<Vec<_>>(), all1, "sse2 iter");
            check_mixed(rng, s.iter(h), &all1, "sse2 iter mixed");
            // Raw pointer API, including empty and inverted ranges.
            unsafe {
                let start = h.as_ptr();
                let end = start.add(h.len());
                let got = s.find_raw(start, end);
                assert_eq!(
                    got.map(|p| p as usize - start as usize),
                    naive_find(h, &[n1]),
                    "sse2 find_raw"
                );
                assert_eq!(s.find_raw(end, start), None);
                assert_eq!(s.find_raw(start, start), None);
                // Sub-ranges.
                if h.len() > 0 {
                    let a = rng.below(h.len());
                    let b = a + rng.below(h.len() - a + 1);
                    let got = s.find_raw(start.add(a), start.add(b));
                    assert_eq!(
                        got.map(|p| p as usize - start as usize),
                        naive_find(&h[a..b], &[n1]).map(|i| i + a),
                        "sse2 find_raw subrange"
                    );
                }
            }
        }
        if let Some(s) = avx2::One::new(n1) {
            assert_eq!(s.find(h), naive_find(h, &[n1]), "avx2 find");
            assert_eq!(s.rfind(h), naive_rfind(h, &[n1]), "avx2 rfind");
            assert_eq!(s.count(h), all1.len(), "avx2 count");
            assert_eq!(s.iter(h).collect::<Vec<_>>(), all1, "avx2 iter");
            check_mixed(rng, s.iter(h), &all1, "avx2 iter mixed");
            unsafe {
                let start = h.as_ptr();
                let end = start.add(h.len());
                let got = s.find_raw(start, end);
                assert_eq!(
                    got.map(|p| p as usize - start as usize),
                    naive_find(h, &[n1]),
                    "avx2 find_raw"
                );
                assert_eq!(s.find_raw(end, start), None);
                if h.len() > 0 {
                    let a = rng.below(h.len());
                    let b = a + rng.below(h.len() - a + 1);
                    let got = s.find_raw(start.add(a), start.add(b));
                    assert_eq!(
                        got.map(|p| p as usize - start as usize),
                        naive_find(&h[a..b], &[n1]).map(|i| i + a),
                        "avx2 find_raw subrange"
                    );
                }
            }
        }
        if let Some(s) = sse2::Two::new(n1, n2) {
            assert_eq!(s.find(h), naive_find(h, &[n1, n2]), "sse2 two");
            assert_eq!(s.rfind(h), naive_rfind(h, &[n1, n2]), "sse2 rtwo");
        }
        if let Some(s) = avx2::Three::new(n1, n2, n3) {
            assert_eq!(s.find(h), naive_find(h, &[n1, n2, n3]), "avx2 three");
            assert_eq!(
                s.rfind(h),
                naive_rfind(h, &[n1, n2, n3]),
                "avx2 rthree"
            );
        }
    }
}

#[test]
fn differential_one_find_forward() {
    let mut rng = Rng(0x9E37_79B9_7F4A_7C15);
    let mut total = 0usize;
    let mut nonempty_hits = 0usize;
    for _ in 0..30_000 {
        let c = gen_case(&mut rng);
        if naive_find(c.haystack(), &[c.needles[0]]).is_some() {
            nonempty_hits += 1;
        }
        check_case(&mut rng, &c);
        total += 1;
    }
    // Exhaustive sweep: every length 0..=150, every alignment 0..32, single
    // match at every position (and no match at all).
    for len in 0..=150usize {
        for off in [0usize, 1, 7, 15, 16, 17, 31] {
            let mut buf = vec![b'.'; off + len + 1];
            for pos in 0..=len {
                if pos < len {
                    buf[off + pos] = b'x';
                }
                let h = &buf[off..off + len];
                let want = if pos < len { Some(pos) } else { None };
                assert_eq!(memchr::memchr(b'x', h), want);
                assert_eq!(memchr::memrchr(b'x', h), want);
                assert_eq!(memchr::memchr_iter(b'x', h).count(), want.iter().count());
                #[cfg(target_arch = "x86_64")]
                {
                    if let Some(s) = sse2::One::new(b'x') {
                        assert_eq!(s.find(h), want);
                    }
                    if let Some(s) = avx2::One::new(b'x') {
                        assert_eq!(s.find(h), want);
                    }
                }
                if pos < len {
                    buf[off + pos] = b'.';
                }
                total += 1;
            }
        }
    }
    assert!(total >= 20_000);
    assert!(nonempty_hits > 5_000, "generator too sparse: {}", nonempty_hits);
    eprintln!("checked {} inputs ({} random with a hit)", total, nonempty_hits);
}
