// Differential test for the refactoring of `generic::Two::{find_raw,rfind_raw}`
// (loop bounds expressed as remaining lengths instead of pointer comparisons,
// and the overlapping tail load computed as `end - V::BYTES`).
//
// Only the public API of the crate and std are used. Every result is compared
// against a naive byte-at-a-time reference.

use memchr::{
    arch::all::memchr::Two as FallbackTwo, memchr2, memchr2_iter, memrchr2,
    memrchr2_iter, Memchr2,
};

/// xorshift64* -- small deterministic PRNG.
struct Rng(u64);

impl Rng {
    fn next(&mut self) -> u64 {
        let mut x = self.0;
        x ^= x >> 12;
        x ^= x << 25;
        x ^= x >> 27;
        self.0 = x;
        x.wrapping_mul(0x2545_F491_4F6C_DD1D)
    }
    fn below(&mut self, n: usize) -> usize {
        (self.next() % (n as u64)) as usize
    }
}

const ALPHABETS: &[&[u8]] = &[
    b"a",
    b"ab",
    b"abc",
    b"abcd",
    b"\x00\x01\x7f\x80\xff",
    b"abcdefghijklmnop",
];

/// Fill `buf` with one of several haystack shapes.
fn fill(rng: &mut Rng, buf: &mut [u8], alpha: &[u8]) {
    let n = buf.len();
    match rng.below(6) {
        // uniformly random over the alphabet
        0 => {
            for b in buf.iter_mut() {
                *b = alpha[rng.below(alpha.len())];
            }
        }
        // periodic with a short period
        1 => {
            let p = 1 + rng.below(9);
            let pat: Vec<u8> =
                (0..p).map(|_| alpha[rng.below(alpha.len())]).collect();
            for (i, b) in buf.iter_mut().enumerate() {
                *b = pat[i % p];
            }
        }
        // constant filler with a handful of planted bytes
        2 => {
            let filler = alpha[rng.below(alpha.len())];
            for b in buf.iter_mut() {
                *b = filler;
            }
            if n > 0 {
                for _ in 0..rng.below(4) {
                    buf[rng.below(n)] = alpha[rng.below(alpha.len())];
                }
            }
        }
        // constant filler, one planted byte near either end
        3 => {
            let filler = alpha[0];
            for b in buf.iter_mut() {
                *b = filler;
            }
            if n > 0 {
                let k = rng.below(n.min(40));
                let i = if rng.below(2) == 0 { k } else { n - 1 - k };
                buf[i] = alpha[alpha.len() - 1];
            }
        }
        // fully random bytes
        4 => {
            for b in buf.iter_mut() {
                *b = rng.next() as u8;
            }
        }
        // long period (around the vector sizes)
        _ => {
            let p = [15, 16, 17, 31, 32, 33, 63, 64, 65][rng.below(9)];
            for (i, b) in buf.iter_mut().enumerate() {
                *b = if i % p == p - 1 {
                    alpha[alpha.len() - 1]
                } else {
                    alpha[0]
                };
            }
        }
    }
}

/// Pick a needle that is usually in the alphabet, sometimes absent.
fn needle(rng: &mut Rng, alpha: &[u8]) -> u8 {
    match rng.below(5) {
        0 => b'#', // never part of any alphabet above
        1 => rng.next() as u8,
        _ => alpha[rng.below(alpha.len())],
    }
}

fn naive_all(n1: u8, n2: u8, h: &[u8]) -> Vec<usize> {
    let mut v = vec![];
    for i in 0..h.len() {
        if h[i] == n1 || h[i] == n2 {
            v.push(i);
        }
    }
    v
}

/// Drive a double ended iterator with a random mix of next/next_back and
/// compare with the expected positions.
fn check_mixed<I: DoubleEndedIterator<Item = usize>>(
    rng: &mut Rng,
    mut it: I,
    expected: &[usize],
    ctx: &str,
) {
    let (mut lo, mut hi) = (0usize, expected.len());
    loop {
        let (_, upper) = it.size_hint();
        assert!(upper.unwrap() >= hi - lo, "size_hint {}", ctx);
        if rng.below(2) == 0 {
            let got = it.next();
            if lo < hi {
                assert_eq!(got, Some(expected[lo]), "mixed next {}", ctx);
                lo += 1;
            } else {
                assert_eq!(got, None, "mixed next at end {}", ctx);
                break;
            }
        } else {
            let got = it.next_back();
            if lo < hi {
                assert_eq!(got, Some(expected[hi - 1]), "mixed back {}", ctx);
                hi -= 1;
            } else {
                assert_eq!(got, None, "mixed back at end {}", ctx);
                break;
            }
        }
    }
    // fused
    assert_eq!(it.next(), None, "fused {}", ctx);
    assert_eq!(it.next_back(), None, "fused back {}", ctx);
}

fn check_one(rng: &mut Rng, n1: u8, n2: u8, h: &[u8]) {
    let ctx = format!("n1={} n2={} len={} h={:?}", n1, n2, h.len(), h);
    let all = naive_all(n1, n2, h);
    let first = all.first().copied();
    let last = all.last().copied();
    let rev: Vec<usize> = all.iter().rev().copied().collect();

    // top level functions
    assert_eq!(memchr2(n1, n2, h), first, "memchr2 {}", ctx);
    assert_eq!(memrchr2(n1, n2, h), last, "memrchr2 {}", ctx);
    assert_eq!(memchr2_iter(n1, n2, h).collect::<Vec<_>>(), all, "{}", ctx);
    assert_eq!(memrchr2_iter(n1, n2, h).collect::<Vec<_>>(), rev, "{}", ctx);
    assert_eq!(Memchr2::new(n1, n2, h).count(), all.len(), "count {}", ctx);
    check_mixed(rng, Memchr2::new(n1, n2, h), &all, &ctx);

    // the portable fallback, for cross checking
    let fb = FallbackTwo::new(n1, n2);
    assert_eq!(fb.find(h), first, "fallback find {}", ctx);
    assert_eq!(fb.rfind(h), last, "fallback rfind {}", ctx);

    #[cfg(target_arch = "x86_64")]
    {
        use memchr::arch::x86_64::{avx2, sse2};

        if let Some(s) = sse2::memchr::Two::new(n1, n2) {
            assert_eq!(s.find(h), first, "sse2 find {}", ctx);
            assert_eq!(s.rfind(h), last, "sse2 rfind {}", ctx);
            assert_eq!(s.iter(h).collect::<Vec<_>>(), all, "sse2 {}", ctx);
            assert_eq!(
                s.iter(h).rev().collect::<Vec<_>>(),
                rev,
                "sse2 rev {}",
                ctx
            );
            check_mixed(rng, s.iter(h), &all, &ctx);
            // raw entry points on a random sub-range
            let (a, b) = {
                let x = rng.below(h.len() + 1);
                let y = rng.below(h.len() + 1);
                (x.min(y), x.max(y))
            };
            let sub = naive_all(n1, n2, &h[a..b]);
            // SAFETY: both pointers are derived from `h` and in bounds.
            unsafe {
                let sp = h.as_ptr().add(a);
                let ep = h.as_ptr().add(b);
                let f = s.find_raw(sp, ep).map(|p| p as usize - sp as usize);
                let r = s.rfind_raw(sp, ep).map(|p| p as usize - sp as usize);
                assert_eq!(f, sub.first().copied(), "sse2 raw {}", ctx);
                assert_eq!(r, sub.last().copied(), "sse2 rraw {}", ctx);
                // start >= end must give None
                assert_eq!(s.find_raw(ep, sp), None, "sse2 raw rev {}", ctx);
                assert_eq!(s.rfind_raw(ep, sp), None, "sse2 rraw rev {}", ctx);
            }
        }
        if let Some(s) = avx2::memchr::Two::new(n1, n2) {
            assert_eq!(s.find(h), first, "avx2 find {}", ctx);
            assert_eq!(s.rfind(h), last, "avx2 rfind {}", ctx);
            assert_eq!(s.iter(h).collect::<Vec<_>>(), all, "avx2 {}", ctx);
            assert_eq!(
                s.iter(h).rev().collect::<Vec<_>>(),
                rev,
                "avx2 rev {}",
                ctx
            );
            check_mixed(rng, s.iter(h), &all, &ctx);
        }
    }
}

#[test]
fn diff_two_random() {
    let mut rng = Rng(0x9E37_79B9_7F4A_7C15);
    // Backing storage is larger than any haystack so that the start of the
    // haystack can be placed at every alignment modulo 64.
    let mut storage = vec![0u8; 300 + 64 + 64];
    let mut cases = 0usize;
    for _ in 0..30_000 {
        let alpha = ALPHABETS[rng.below(ALPHABETS.len())];
        let len = match rng.below(4) {
            0 => rng.below(40),
            1 => {
                // lengths close to multiples of the vector/loop sizes
                let base = [16, 32, 48, 64, 96, 128, 192, 256][rng.below(8)];
                (base + rng.below(5)).saturating_sub(2)
            }
            _ => rng.below(301),
        };
        let off = rng.below(65);
        // poison the surroundings with needle-like bytes: an out of bounds
        // read that influenced the answer would then be visible.
        let n1 = needle(&mut rng, alpha);
        let n2 = if rng.below(8) == 0 { n1 } else { needle(&mut rng, alpha) };
        for (i, b) in storage.iter_mut().enumerate() {
            *b = if i % 2 == 0 { n1 } else { n2 };
        }
        fill(&mut rng, &mut storage[off..off + len], alpha);
        let h = &storage[off..off + len];
        check_one(&mut rng, n1, n2, h);
        cases += 1;
    }
    assert!(cases >= 20_000);
}

/// Exhaustive-ish sweep: every length 0..=300 and several alignments, with a
/// single match placed at every position (and no match at all).
#[test]
fn diff_two_single_match_sweep() {
    let mut rng = Rng(42);
    let mut storage = vec![b'x'; 300 + 64];
    for len in 0..=300usize {
        for &off in &[0usize, 1, 15, 17, 31, 33] {
            for b in storage.iter_mut() {
                *b = b'x'; // a needle outside the haystack window
            }
            for b in storage[off..off + len].iter_mut() {
                *b = b'.';
            }
            check_one(&mut rng, b'x', b'y', &storage[off..off + len]);
            // one match, at a position derived from len to keep this cheap
            for &pos in &[0usize, len / 3, len / 2, len.saturating_sub(1)] {
                if pos >= len {
                    continue;
                }
                storage[off + pos] = b'y';
                check_one(&mut rng, b'x', b'y', &storage[off..off + len]);
                storage[off + pos] = b'.';
            }
        }
    }
}
