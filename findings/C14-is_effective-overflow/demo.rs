//! Demonstrates u32 overflow in memchr 2.7.4
//! `PrefilterState::is_effective` (src/memmem/searcher.rs):
//!
//!     self.skipped >= PrefilterState::MIN_SKIP_BYTES * self.skips()
//!
//! Needle: "qz" + 38 * "e" (40 bytes > 32, so memmem uses Two-Way with a
//! packed-pair prefilter; the pair is the two rarest needle bytes, 'q'@0 and
//! 'z'@1; Two-Way's critical position lies in the run of 'e').
//!
//! Haystack: 1024 * "q", then N copies of the 9 byte unit "qzqqqqqqq", then
//! (optionally) the needle itself. Every unit start is a prefilter candidate.
//! The Two-Way verification rejects each candidate on its first comparison
//! ('e' != 'q') and advances by 1, so the following prefilter call skips
//! exactly 8 bytes. The prefilter therefore stays "effective"
//! (skipped >= 8 * skips holds at every check) and is called once per unit.
//! After 2^29 calls the product 8 * skips no longer fits in a u32.
//!
//! usage: ovf-demo [units] [plant]
//!   units  number of 9-byte units (default 2^29 + 4096)
//!   plant  1 = append the needle at the very end (default), 0 = no match

use std::time::Instant;

const PREFIX: usize = 1024;
const UNIT: &[u8; 9] = b"qzqqqqqqq";

fn needle() -> Vec<u8> {
    let mut n = Vec::new();
    n.extend_from_slice(b"qz");
    n.extend(std::iter::repeat(b'e').take(38));
    assert_eq!(n.len(), 40);
    n
}

fn main() {
    let mut args = std::env::args().skip(1);
    let units: usize = args
        .next()
        .map(|s| s.parse().expect("units"))
        .unwrap_or((1usize << 29) + 4096);
    let plant: bool =
        args.next().map(|s| s != "0").unwrap_or(true);

    let needle = needle();
    eprintln!(
        "overflow checks: {}",
        if cfg!(debug_assertions) { "debug profile (on)" } else { "release" }
    );

    let t = Instant::now();
    let mut hay: Vec<u8> =
        Vec::with_capacity(PREFIX + units * UNIT.len() + needle.len());
    hay.resize(PREFIX, b'q');
    hay.resize(PREFIX + units * UNIT.len(), 0);
    for c in hay[PREFIX..].chunks_exact_mut(UNIT.len()) {
        c.copy_from_slice(UNIT);
    }
    let expected = if plant {
        hay.extend_from_slice(&needle);
        Some(hay.len() - needle.len())
    } else {
        None
    };
    eprintln!(
        "haystack: {} bytes ({:.3} GiB), {} units, built in {:.1?}",
        hay.len(),
        hay.len() as f64 / (1u64 << 30) as f64,
        units,
        t.elapsed()
    );
    // Independent ground truth: the byte 'e' occurs nowhere in the haystack
    // except inside the planted copy of the needle.
    let e_in_needle = needle.iter().position(|&b| b == b'e').unwrap();
    let first_e = hay.iter().position(|&b| b == b'e');
    assert_eq!(first_e, expected.map(|i| i + e_in_needle));
    eprintln!("expected result: {:?}", expected);

    let t = Instant::now();
    let got = match std::panic::catch_unwind(|| {
        memchr::memmem::find(&hay, &needle)
    }) {
        Ok(got) => got,
        Err(payload) => {
            eprintln!("memmem::find PANICKED after {:.1?}", t.elapsed());
            std::panic::resume_unwind(payload);
        }
    };
    eprintln!("memmem::find returned {:?} in {:.1?}", got, t.elapsed());
    assert_eq!(got, expected, "wrong answer");
    println!("OK: memmem::find == {:?}", got);
}
